"""C13 — tables come back with their shape and every cell in place.

correspondence: real walkers / sheet shapers vs. S2T.Model.Tables on the same element trees / row lists
(structured stream: abstract documents written by the Lean `render` or by the Python reference writers, packed
into real containers and read by the real `read_*`; malformed stream: random trees over the table vocabulary
handed to the real internal walkers).  search / replay / known_witnesses: the property statement itself on the
real code against a Python ground truth that does not involve the Lean model.
"""
from __future__ import annotations

import datetime
import io
import json
import os
import re
import types

from run import Broken, Violation
from builders import c13b, c13x
from builders.c13b import ET
from props import c13_rtf
from props import c13_slide

GEN = ["Tables", "HtmlSkip", "TablesRtf", "C02Sheets", "PyOdsSheet", "PyXlsxSheet"] + c13_slide.GEN
RULE = ("abstract documents (paragraphs + tables 1..4 x 1..4, ragged rows, empty / multi-paragraph cells, adjacent tables, "
        "tables inside cells to depth 2, header rows) written to DOCX / PPTX / ODT / ODP / HTML / EPUB / RTF and read by the real "
        "read_*; RTF tables additionally with every separator the format allows between the table tokens (row layouts, every slot "
        "independent, rows directly adjacent included); sheets (typed values, gaps, repeats, duplicate / empty header names) written to "
        "XLSX (by openpyxl AND by hand: with / without <dimension>, with / without cell references, trailing / inner empty cells and empty "
        "rows stored or omitted - ragged stored rows -, shared / inline / formula strings, typed / formula numbers, ISO / serial dates, every "
        "optional member independent) / ODS and through stub workbooks for XLS; + random element trees / event lists / row lists over the same vocabulary for the internal walkers. "
        "distinct = distinct (format, input) pairs; non-trivial = the input holds at least one table row")
ASSUMPTIONS = [
    "bytes -> element tree is ElementTree's / HTMLParser's (not modelled); the walkers are modelled on the tree / event list",
    "openpyxl (iter_rows(values_only=True), datetime.isoformat(), str()) and xlrd cell reading are parameters: the repo's shaping of the row lists is modelled",
    "XLSX: what openpyxl's read-only reader makes of a hand-written worksheet part (rows of different lengths without <dimension>, padded rows with "
    "it, shared / inline strings, t=\"d\" / serial dates) is not modelled; the row lists it yields for the generated parts are fed to the model, "
    "and the oracle compares the end result with the written grid",
    "ODS _extract_cell_value (float parsing) is a parameter of the ODS shaping model; its typed results are checked by the search oracle",
    "int() of text:c is modelled for plain ASCII decimal forms only",
    "ODS: int() of number-columns-repeated / number-rows-repeated is a parameter (plain decimals generated); sheets are generated, replayed and "
    "handed to the library only within a budget of 10^6 cells if fully expanded and repeat counts <= 2000 (checked before the sheet is built)",
    "ODS: cells behind a collapsed run of more than 100 empty cells / rows are misplaced on the current code (open known finding "
    "ods.empty-repeat-shifts-cells; the earlier repair f0cc6e0 was withdrawn by d8d5030): the theorem is partial (NoWideGap), the oracle "
    "classifies a failing sheet as that finding only when it has such a gap in front of data AND the result is exactly the collapsed table",
    "RTF: the text handed to _extract_tables is what bytes.decode gives (no lone surrogates); decimal digits other than ASCII after \\u / in "
    "control-word parameters, int() of more than 4300 digits and str.lower() changing the length of the text (U+0130) are not modelled "
    "(not generated); the character classes \\w (>= 128), [a-z] under IGNORECASE, \\s are computed with the running interpreter's re module "
    "over all code points by the generator and compared with the model by theorems",
    "RTF: the theorems speak about cells of 'plain paragraphs' (no backslash / braces, single spaces between words, no 64 hex digits in a row, "
    "BMP) and tables whose separating text satisfies the row-grouping heuristic; outside that region the extractor is tied to the model by "
    "the correspondence, and the oracle reports the five open RTF findings by their mechanism",
] + c13_slide.ASSUMPTIONS
TRUSTED = ["S2T/Model/Tables.lean as a transcription of the walkers (tied by this correspondence)",
           "harness/builders/c13b.py reference writers and ground truth (search oracle)",
           "harness/builders/c13x.py (hand-written SpreadsheetML parts) and c13r.py (RTF row layouts): reference writers of the oracle"]

EX = "sharepoint2text.parsing.extractors."


def _mod(name):
    import importlib
    return importlib.import_module(EX + name)


# ----------------------------------------------------------------------------- generators
WORDS = ["a", "b", "xy", "Zeta", "ä", "€", "&", "<x>", '"q"', "1", "2.5", "é́", "日本", "Ünï", "x-y", "0", "]]>", "'", "%s", "\\cell"]
SPACES = [" ", "  ", "\t", "\n", " \n ", " ", " "]


def gen_text(rng, ws=0.25, empty=0.1):
    if rng.random() < empty:
        return ""
    parts = []
    for _ in range(rng.randint(1, 3)):
        parts.append(rng.choice(WORDS))
        if rng.random() < 0.5:
            parts.append(" ")
    s = "".join(parts).rstrip(" ") if rng.random() < 0.8 else "".join(parts)
    if rng.random() < ws:
        s = rng.choice(SPACES) + s
    if rng.random() < ws:
        s = s + rng.choice(SPACES)
    return s


def gen_docx_para(rng):
    return [gen_text(rng) for _ in range(rng.choice([0, 1, 1, 1, 2, 3]))]


def gen_odf_para(rng):
    pieces = []
    for _ in range(rng.choice([0, 0, 1, 2, 3])):
        k = rng.choice(["span", "s", "tab", "br"])
        pieces.append([k, gen_text(rng), gen_text(rng)] if k == "span" else [k, gen_text(rng)])
    return [gen_text(rng), pieces]


def gen_html_para(rng, inline=True):
    n = rng.choice([1, 1, 1, 2, 3]) if inline else 1
    return [gen_text(rng, ws=0.15) for _ in range(n)]


def gen_blk(rng, para, depth, nest, max_r=4, max_c=4, ragged=True, allow_empty_cell=True):
    """a table block"""
    r = rng.randint(1, max_r)
    c = rng.randint(1, max_c)
    rows = []
    for _ in range(r):
        n = c if not ragged or rng.random() < 0.8 else rng.randint(1, max_c)
        row = []
        for _ in range(n):
            cell = []
            k = rng.choice([0, 1, 1, 1, 1, 2, 3]) if allow_empty_cell else rng.choice([1, 1, 1, 2, 3])
            for _ in range(k):
                if nest and depth > 0 and rng.random() < 0.05:
                    cell.append(gen_blk(rng, para, depth - 1, nest, 2, 2, ragged, allow_empty_cell))
                else:
                    cell.append(["p", para(rng)])
            row.append(cell)
        rows.append(row)
    return ["t", rng.choice([0, 0, 1, 1, 2]) if r > 1 else rng.choice([0, 1]), rows]


def gen_doc(rng, para, nest=True, depth=2, **kw):
    doc = []
    for _ in range(rng.randint(1, 4)):
        k = rng.random()
        if k < 0.3:
            doc.append(["p", para(rng)])
        else:
            doc.append(gen_blk(rng, para, depth, nest, **kw))
            if rng.random() < 0.35:   # adjacent table, nothing in between
                doc.append(gen_blk(rng, para, depth, nest, **kw))
    if not any(b[0] == "t" for b in doc):
        doc.append(gen_blk(rng, para, depth, nest, **kw))
    return doc


def has_nesting(doc):
    def cell_has(cell):
        return any(x[0] == "t" for x in cell)
    return any(b[0] == "t" and any(cell_has(c) for row in b[2] for c in row) for b in doc)


def n_rows(doc):
    return sum(len(b[2]) for b in doc if b[0] == "t")


# ----------------------------------------------------------------------------- real code adaptors
def _tables_of(content):
    out = []
    for t in content.iterate_tables():
        out.append({"table": t.get_table(), "dim": (t.get_dim().rows, t.get_dim().columns)})
    return out


def _read(fmt, data: bytes):
    """real read_* + iterate_tables(); returns [{'table','dim'}] or 'ERR:<class>'"""
    try:
        if fmt == "docx":
            c = next(_mod("ms_modern.docx_extractor").read_docx(io.BytesIO(data)))
        elif fmt == "pptx":
            c = next(_mod("ms_modern.pptx_extractor").read_pptx(io.BytesIO(data)))
        elif fmt == "odt":
            c = next(_mod("open_office.odt_extractor").read_odt(io.BytesIO(data)))
        elif fmt == "odp":
            c = next(_mod("open_office.odp_extractor").read_odp(io.BytesIO(data)))
        elif fmt == "ods":
            c = next(_mod("open_office.ods_extractor").read_ods(io.BytesIO(data)))
        elif fmt == "html":
            c = next(_mod("html_extractor").read_html(io.BytesIO(data)))
        elif fmt == "epub":
            c = next(_mod("epub_extractor").read_epub(io.BytesIO(data)))
        elif fmt == "xlsx":
            c = next(_mod("ms_modern.xlsx_extractor").read_xlsx(io.BytesIO(data)))
        elif fmt == "rtf":
            c = next(_mod("ms_legacy.rtf_extractor").read_rtf(io.BytesIO(data)))
        else:
            raise KeyError(fmt)
        return _tables_of(c)
    except Exception as e:  # noqa: BLE001
        return f"ERR:{type(e).__name__}:{str(e)[:120]}"


def _grids(res):
    return res if isinstance(res, str) else [t["table"] for t in res]


def _dim_ok(res):
    """get_dim() == (rows, longest row) for every returned table"""
    if isinstance(res, str):
        return True
    return all(t["dim"] == (len(t["table"]), max((len(r) for r in t["table"]), default=0)) for t in res)


def val_json(v):
    if v is None:
        return None
    if isinstance(v, bool):
        return ["b", v]
    if isinstance(v, int):
        return ["i", v]
    if isinstance(v, float):
        return ["f", repr(v)]
    if isinstance(v, str):
        return ["s", v]
    if isinstance(v, (datetime.datetime, datetime.date, datetime.time)):
        return ["d", v.isoformat()]
    return ["o", str(v)]


def vgrid_json(g):
    return [[val_json(v) for v in row] for row in g]


# ----------------------------------------------------------------------------- XML formats
def _pack(fmt, tree_json):
    e = c13b.et_from_json(tree_json)
    if fmt == "docx":
        return c13b.docx_package(e)
    if fmt == "odt":
        return c13b.odf_package("odt", e)
    raise KeyError(fmt)


def _walk_real(fmt, e):
    """the real internal walker on an element"""
    if fmt == "docx":
        m = _mod("ms_modern.docx_extractor")
        return m._extract_tables_from_context(types.SimpleNamespace(document_body=e))[0]
    if fmt == "odt":
        return [t.data for t in _mod("open_office.odt_extractor")._extract_tables(e)]
    if fmt == "odp":
        return _mod("open_office.odp_extractor")._extract_table(e)
    if fmt == "pptx":
        return _mod("ms_modern.pptx_extractor")._extract_table_from_graphic_frame(e)
    raise KeyError(fmt)


def _rand_tree(rng, vocab, depth, texts=True):
    tag = rng.choice(vocab)
    attrs = []
    if tag.endswith("}s") and rng.random() < 0.7:
        attrs.append([c13b.TEXT + "c", rng.choice(["2", "0", "3", " 4 ", "-1", "+2", "x", "", "1.5", "07"])])
    if tag.endswith("graphicData"):
        attrs.append(["uri", rng.choice([c13b.TABLE_URI, c13b.TABLE_URI, "http://other"])])
    kids = []
    if depth > 0:
        for _ in range(rng.choice([0, 1, 2, 2, 3, 4])):
            kids.append(_rand_tree(rng, vocab, depth - 1, texts))
    return [tag, attrs, gen_text(rng, empty=0.5) if texts else "", kids, gen_text(rng, empty=0.6) if texts else ""]


def _nodes(tree, acc=None, parent=None):
    acc = [] if acc is None else acc
    acc.append((tree, parent))
    for k in tree[3]:
        _nodes(k, acc, tree)
    return acc


def mutate_tree(rng, tree, vocab):
    """1..3 structural mutations of a valid tree: retag, delete, duplicate, wrap, unwrap, move, add text"""
    tree = json.loads(json.dumps(tree))
    for _ in range(rng.randint(1, 3)):
        nodes = _nodes(tree)
        n, par = rng.choice(nodes)
        k = rng.choice(["retag", "delete", "dup", "wrap", "unwrap", "move", "text", "attr"])
        if k == "retag" and par is not None:
            n[0] = rng.choice(vocab)
        elif k == "delete" and par is not None:
            par[3].remove(n)
        elif k == "dup" and par is not None:
            par[3].insert(par[3].index(n), json.loads(json.dumps(n)))
        elif k == "wrap" and par is not None:
            i = par[3].index(n)
            par[3][i] = [rng.choice(vocab), [], "", [n], ""]
        elif k == "unwrap" and par is not None:
            i = par[3].index(n)
            par[3][i:i + 1] = n[3]
        elif k == "move" and par is not None:
            tgt, _ = rng.choice(nodes)
            if tgt is not n and not any(x is tgt for x, _ in _nodes(n)):
                par[3].remove(n)
                tgt[3].insert(rng.randint(0, len(tgt[3])), n)
        elif k == "text":
            n[2 if rng.random() < 0.5 else 4] = gen_text(rng)
        elif k == "attr":
            if n[0].endswith("}s"):
                n[1] = [[c13b.TEXT + "c", rng.choice(["2", "0", "3", " 4 ", "-1", "+2", "x", "", "1.5", "07"])]]
            elif n[0].endswith("graphicData"):
                n[1] = [["uri", rng.choice([c13b.TABLE_URI, "http://other"])]] if rng.random() < 0.7 else []
    return tree


VOCAB = {
    "docx": [c13b.W + x for x in ("tbl", "tbl", "tr", "tr", "tc", "tc", "p", "p", "r", "t", "t", "tcPr", "sdt", "body")],
    "odt": [c13b.TABLE + x for x in ("table", "table", "table-row", "table-row", "table-cell", "table-cell", "table-header-rows",
                                      "table-row-group", "table-column", "covered-table-cell")]
           + [c13b.TEXT + x for x in ("p", "p", "span", "s", "tab", "line-break", "note", "h")] + [c13b.OFFICE + "annotation"],
    "pptx": [c13b.A + x for x in ("graphic", "graphicData", "graphicData", "tbl", "tbl", "tr", "tr", "tc", "tc", "txBody", "txBody",
                                   "p", "p", "r", "r", "fld", "br", "t", "t", "rPr")],
}
VOCAB["odp"] = VOCAB["odt"]


def _corr_xml(ctx):
    rng = ctx.rng
    broken = []
    n_bad = 0

    def bad(name, detail, case):
        nonlocal n_bad
        n_bad += 1
        if n_bad <= 12:
            broken.append(Broken("correspondence", name, detail[:1500], case=case))

    # ---- structured stream: Lean-rendered documents in real containers
    docs = []
    for _ in range(ctx.n(120, 1500)):
        fmt = rng.choice(["docx", "odt"])
        para = gen_docx_para if fmt == "docx" else gen_odf_para
        docs.append((fmt, gen_doc(rng, para, nest=True)))
    outs = ctx.drive([{"op": "c13.render", "fmt": f, "doc": d} for f, d in docs])
    walk_reqs, items = [], []
    for (fmt, doc), o in zip(docs, outs):
        if "drv_error" in o:
            bad("driver:render", o["drv_error"], {"fmt": fmt, "doc": doc})
            continue
        real = _read(fmt, _pack(fmt, o["tree"]))
        truth = c13b.blk_tables_doc(doc, fmt)
        walk_reqs.append({"op": "c13.walk", "fmt": fmt, "tree": c13b.json_from_et(_reparse(fmt, o["tree"]))})
        items.append((fmt, doc, o, real, truth))
    wouts = ctx.drive(walk_reqs)
    for (fmt, doc, o, real, truth), w in zip(items, wouts):
        ctx.case((fmt, json.dumps(doc)), nontrivial=n_rows(doc) > 0)
        ctx.count(f"{fmt}/lean-rendered/" + ("nested" if has_nesting(doc) else "flat"))
        case = {"fmt": fmt, "doc": doc}
        if o["spec"] != truth:
            bad(f"spec:{fmt}", f"Lean spec {o['spec']!r} != python ground truth {truth!r}", case)
        if _grids(real) != w.get("tables"):
            bad(f"c13.walk:{fmt}", f"impl={_grids(real)!r} model={w.get('tables')!r}", case)
        if _grids(real) != o["spec"]:
            bad(f"render-read:{fmt}", f"impl={_grids(real)!r} spec={o['spec']!r}", case)
        if not _dim_ok(real):
            bad(f"dim:{fmt}", f"get_dim() disagrees with the table: {real!r}", case)
    if items:
        ctx.sample({"fmt": items[0][0], "doc": items[0][1], "impl": _grids(items[0][3]), "spec": items[0][2]["spec"]})

    # ---- ODP / PPTX: Lean-rendered tables inside real packages (several per page / slide)
    reqs, meta = [], []
    for _ in range(ctx.n(80, 1000)):
        if rng.random() < 0.5:
            t = gen_blk(rng, gen_odf_para, 0, False, allow_empty_cell=False)
            rows = [[[x[1] for x in cell] for cell in row] for row in t[2]]
            reqs.append({"op": "c13.render", "fmt": "odp", "hdr": t[1], "doc": rows})
            meta.append(("odp", rows, t[1]))
        else:
            rows = gen_pptx_table(rng)
            reqs.append({"op": "c13.render", "fmt": "pptx", "doc": rows})
            meta.append(("pptx", rows, 0))
    outs = ctx.drive(reqs)
    groups = {"odp": [], "pptx": []}
    for (fmt, rows, h), o in zip(meta, outs):
        if "drv_error" in o:
            bad("driver:render", o["drv_error"], {"fmt": fmt, "rows": rows})
            continue
        groups[fmt].append((rows, h, o))
    for fmt, lst in groups.items():
        i = 0
        while i < len(lst):
            k = rng.randint(1, 3)
            chunk = lst[i:i + k]
            i += k
            elems = [c13b.et_from_json(o["tree"]) for _, _, o in chunk]
            if fmt == "odp":
                real = _read("odp", c13b.odf_package("odp", c13b.odp_presentation([elems])))
                want = [o["spec"] for _, _, o in chunk]
            else:
                real = _read("pptx", c13b.pptx_package([elems]))
                want = [o["spec_stripped"] for _, _, o in chunk]
            ctx.case((fmt, json.dumps([r for r, _, _ in chunk])))
            ctx.count(f"{fmt}/lean-rendered")
            case = {"fmt": fmt, "tables": [r for r, _, _ in chunk], "hdr": [h for _, h, _ in chunk]}
            if _grids(real) != want:
                bad(f"render-read:{fmt}", f"impl={_grids(real)!r} model-spec={want!r}", case)
            if not _dim_ok(real):
                bad(f"dim:{fmt}", f"get_dim() disagrees: {real!r}", case)
            for (rows, h, o), e in zip(chunk, elems):
                truth = [[c13b.odf_cell_text(c) if fmt == "odp" else c13b.pptx_cell_text(c) for c in row] for row in rows]
                if o["spec"] != truth:
                    bad(f"spec:{fmt}", f"Lean spec {o['spec']!r} != python ground truth {truth!r}", case)

    # ---- malformed stream: random trees over the vocabulary, real internal walker vs model walker
    reqs, meta = [], []
    for i in range(ctx.n(400, 6000)):
        fmt = rng.choice(["docx", "odt", "odp", "pptx"])
        vocab = VOCAB[fmt]
        if i % 4 == 0:
            tree = _rand_tree(rng, vocab, rng.randint(2, 5))
            if fmt == "docx":
                tree[0] = c13b.W + "body"
            elif fmt == "odt":
                tree[0] = rng.choice([c13b.OFFICE + "text", c13b.TABLE + "table"])
            elif fmt == "odp":
                tree[0] = c13b.TABLE + "table"
            else:
                tree[0] = c13b.P + "graphicFrame"
        else:   # a valid written tree with a few structural mutations
            if fmt == "docx":
                base = c13b.json_from_et(c13b.py_docx_body(gen_doc(rng, gen_docx_para)))
            elif fmt == "odt":
                base = c13b.json_from_et(c13b.py_odt_body(gen_doc(rng, gen_odf_para)))
            elif fmt == "odp":
                base = c13b.json_from_et(c13b.py_odf_blk(gen_blk(rng, gen_odf_para, 1, True)))
            else:
                base = c13b.json_from_et(c13b.py_pptx_frame(gen_pptx_table(rng)))
            tree = mutate_tree(rng, base, vocab) if i % 4 != 1 else base
        reqs.append({"op": "c13.walk", "fmt": fmt, "tree": tree})
        meta.append((fmt, tree))
    outs = ctx.drive(reqs)
    for (fmt, tree), o in zip(meta, outs):
        e = c13b.et_from_json(tree)
        try:
            real = _walk_real(fmt, e)
        except Exception as ex:  # noqa: BLE001
            real = f"ERR:{type(ex).__name__}"
        got = o.get("tables") if fmt in ("docx", "odt") else o.get("table")
        ctx.case(("tree", fmt, json.dumps(tree)), nontrivial=bool(real))
        ctx.count(f"{fmt}/random-tree/" + ("tables" if real else "none"))
        if real != got:
            bad(f"c13.walk:{fmt}:random-tree", f"impl={real!r} model={got!r}", {"fmt": fmt, "tree": tree})

    # ---- ODF paragraph text (element_text) on random inline trees
    reqs, meta = [], []
    inline = [c13b.TEXT + x for x in ("span", "span", "s", "s", "tab", "line-break", "note", "a", "p")] + [c13b.OFFICE + "annotation"]
    for _ in range(ctx.n(60, 1500)):
        tree = _rand_tree(rng, inline, rng.randint(1, 3))
        tree[0] = c13b.TEXT + "p"
        reqs.append({"op": "c13.walk", "fmt": "odftext", "tree": tree})
        meta.append(tree)
    outs = ctx.drive(reqs)
    odt = _mod("open_office.odt_extractor")
    for tree, o in zip(meta, outs):
        real = odt._get_text_recursive(c13b.et_from_json(tree))
        ctx.case(("odftext", json.dumps(tree)), nontrivial=bool(real))
        ctx.count("odf/element_text")
        if real != o.get("text"):
            bad("c13.walk:odftext", f"impl={real!r} model={o.get('text')!r}", {"fmt": "odftext", "tree": tree})
    return broken


def _reparse(fmt, tree_json):
    """what ElementTree hands to the walker after a serialise / parse round trip of the written tree"""
    e = c13b.et_from_json(tree_json)
    return ET.fromstring(ET.tostring(e, encoding="utf-8"))


def gen_pptx_table(rng, trimmed=False):
    rows = []
    c = rng.randint(1, 4)
    for _ in range(rng.randint(1, 4)):
        row = []
        for _ in range(c if rng.random() < 0.8 else rng.randint(1, 4)):
            cell = []
            for _ in range(rng.choice([1, 1, 1, 2, 3])):
                p = []
                for _ in range(rng.choice([0, 1, 1, 2, 3])):
                    k = rng.choice(["r", "r", "r", "f", "br"])
                    p.append(["br"] if k == "br" else [k, gen_text(rng)])
                cell.append(p)
            if trimmed:
                t = c13b.pptx_cell_text(cell)
                if t != t.strip():
                    cell = [[["r", "w"]]] + cell + [[["r", "w"]]]
            row.append(cell)
        rows.append(row)
    return rows


# ----------------------------------------------------------------------------- HTML / EPUB
def _html_truth(doc):
    return [t for b in doc for t in c13b.blk_tables(b, c13b.html_words)]


class _Rec:
    """records the handler calls HTMLParser makes on a parser object"""

    @staticmethod
    def wrap(cls):
        events = []

        class R(cls):
            def handle_starttag(self, tag, attrs):
                events.append(["s", tag, [[k, v] for k, v in attrs]])
                super().handle_starttag(tag, attrs)

            def handle_endtag(self, tag):
                events.append(["e", tag])
                super().handle_endtag(tag)

            def handle_startendtag(self, tag, attrs):
                events.append(["se", tag, [[k, v] for k, v in attrs]])
                n = len(events)
                super().handle_startendtag(tag, attrs)
                del events[n:]     # the nested start/end calls made by the handler itself

            def handle_data(self, data):
                events.append(["d", data])
                super().handle_data(data)
        return R, events


SLOPPY = ["<table><tr><td>a<td>b<tr><td>c", "<table><tr><td>x</td></tr><table><tr><td>y</td></tr></table></table>",
          "<table><tbody><tr><th>h</th></tr></tbody><tfoot><tr><td>f</td></tr></tfoot></table>",
          "<table><tr><td><ul><li>a</li><li>b</li></ul></td><td>x<br>y</td></tr></table>",
          "<table><caption>cap</caption><tr><td>a</td></tr></table><table></table>",
          "<div><table><tr><td><script>var x='<td>';</script>v</td></tr></table></div>",
          "<h1><table><tr><td>in heading</td></tr></table></h1>", "<li><table><tr><td>in li</td></tr></table></li>",
          "<table><tr><td>a</td></tr></table></table><table><tr><td>b</td></tr></table>",
          "<table><tr></tr><tr><td></td></tr></table>", "<td>stray</td><tr><td>stray row</td></tr>"]


def _corr_html(ctx):
    rng = ctx.rng
    broken = []
    hx = _mod("html_extractor")
    n_bad = 0

    def bad(name, detail, case):
        nonlocal n_bad
        n_bad += 1
        if n_bad <= 10:
            broken.append(Broken("correspondence", name, detail[:1500], case=case))

    texts = []
    for _ in range(ctx.n(100, 1500)):
        doc = gen_doc(rng, gen_html_para, nest=True)
        bare = rng.random() < 0.5
        texts.append((c13b.py_html_doc(doc, bare=bare).decode("utf-8"), (doc, bare)))
    for s in SLOPPY:
        texts.append(("<html><body>" + s + "</body></html>", None))
        texts.append((s, None))
    for _ in range(ctx.n(30, 500)):   # random tag soup over the table vocabulary
        toks = []
        for _ in range(rng.randint(3, 25)):
            t = rng.choice(["table", "tr", "td", "th", "tbody", "thead", "p", "div", "b", "br", "li", "h2", "script", "span"])
            toks.append(rng.choice([f"<{t}>", f"<{t}>", f"</{t}>", gen_text(rng).replace("<", "&lt;").replace("&", "&amp;"), f"<{t}/>"]))
        texts.append(("".join(toks), None))
    reqs, meta = [], []
    for text, doc in texts:
        b = hx._HtmlTreeBuilder()
        try:
            b.feed(text)
            b.close()
            tree = b.get_tree()
            x = hx._HtmlTextExtractor(tree)
            x.extract()
            real = x.tables
        except Exception as ex:  # noqa: BLE001
            bad("html:raises", repr(ex), {"fmt": "html", "text": text})
            continue
        reqs.append({"op": "c13.walk", "fmt": "html", "tree": c13b.json_from_dict(tree)})
        meta.append((text, doc, real))
    outs = ctx.drive(reqs)
    for (text, docb, real), o in zip(meta, outs):
        doc, bare = docb if docb is not None else (None, False)
        ctx.case(("html", text), nontrivial=bool(real))
        ctx.count("html/" + ("document" if doc is not None else "soup") + ("/nested" if doc is not None and has_nesting(doc) else ""))
        case = {"fmt": "html", "text": text, "doc": doc, "bare": bare}
        if real != o.get("tables"):
            bad("c13.walk:html", f"impl={real!r} model={o.get('tables')!r}", case)
        if doc is not None and real != _html_truth(doc):
            bad("truth:html", f"impl={real!r} ground truth={_html_truth(doc)!r}", case)
    # random dict trees straight into the extractor (shapes the tree builder itself never produces are excluded:
    # the root is always 'root' and attrs is a dict)
    reqs, meta = [], []
    vocab = ["table", "table", "tr", "tr", "td", "td", "th", "tbody", "thead", "p", "div", "b", "br", "li", "h3", "span", "body", "hr"]
    for _ in range(ctx.n(60, 1500)):
        tree = _rand_tree(rng, vocab, rng.randint(2, 5))
        tree[0] = "root"
        d = c13b.dict_from_json(tree)
        x = hx._HtmlTextExtractor(d)
        try:
            x.extract()
            real = x.tables
        except Exception as ex:  # noqa: BLE001
            real = f"ERR:{type(ex).__name__}"
        reqs.append({"op": "c13.walk", "fmt": "html", "tree": tree})
        meta.append((tree, real))
    outs = ctx.drive(reqs)
    for (tree, real), o in zip(meta, outs):
        ctx.case(("htmltree", json.dumps(tree)), nontrivial=bool(real))
        ctx.count("html/random-tree")
        if real != o.get("tables"):
            bad("c13.walk:html:random-tree", f"impl={real!r} model={o.get('tables')!r}", {"fmt": "htmltree", "tree": tree})
    return broken


def _corr_epub(ctx):
    rng = ctx.rng
    broken = []
    ex = _mod("epub_extractor")
    n_bad = 0
    texts = []
    for _ in range(ctx.n(40, 800)):
        doc = gen_doc(rng, lambda r: gen_html_para(r, inline=r.random() < 0.3), nest=rng.random() < 0.3)
        bare = rng.random() < 0.5
        texts.append((c13b.py_html_doc(doc, xhtml=True, bare=bare).decode("utf-8"), doc, bare, None))
    for _ in range(ctx.n(40, 800)):     # the same kind of document as an XML serializer writes it (<td/>, <p/>, ...)
        doc = gen_doc(rng, lambda r: gen_html_para(r, inline=r.random() < 0.3), nest=rng.random() < 0.3, allow_empty_cell=True)
        bare = rng.random() < 0.5
        mode = gen_xml_mode(rng) or "all"
        texts.append((xml_form(c13b.py_html_doc(doc, xhtml=True, bare=bare).decode("utf-8"), mode), doc, bare, mode))
    for s in SLOPPY:
        texts.append(("<html><body>" + s + "</body></html>", None, False, None))
        texts.append((xml_form("<html><body>" + s + "</body></html>", "all"), None, False, None))
    for i in range(ctx.n(30, 500) + ctx.n(40, 400)):
        toks = []
        for _ in range(rng.randint(3, 25)):
            t = rng.choice(["table", "tr", "td", "th", "tbody", "p", "div", "b", "br", "title", "script", "span"])
            toks.append(rng.choice([f"<{t}>", f"<{t}>", f"</{t}>", gen_text(rng).replace("<", "&lt;").replace("&", "&amp;"), f"<{t}/>"]))
        if i >= ctx.n(30, 500):        # empty-element tags in a table context: soup inside <table><tr> ... </tr></table>
            toks = ["<table>", "<tr>"] + [tk for tk in toks if tk not in ("<table>", "</table>", "<script>", "<title>")] + ["</tr>", "</table>"]
        texts.append(("".join(toks), None, False, None))
    reqs, meta = [], []
    for text, doc, bare, mode in texts:
        R, events = _Rec.wrap(ex._XhtmlTextExtractor)
        p = R()
        try:
            p.feed(text)
            p.close()
        except Exception as e:  # noqa: BLE001
            broken.append(Broken("correspondence", "epub:raises", repr(e), case={"fmt": "epub", "text": text}))
            continue
        reqs.append({"op": "c13.epub", "events": list(events)})
        meta.append((text, doc, bare, mode, p.tables))
    outs = ctx.drive(reqs)
    for (text, doc, bare, mode, real), o in zip(meta, outs):
        ctx.case(("epub", text), nontrivial=bool(real))
        ctx.count("epub/" + ("document" if doc is not None else "soup") + ("/xml-form" if mode else "")
                  + ("/with <td/>" if ("<td/>" in text or "<th/>" in text) else ""))
        case = {"fmt": "epub", "text": text, "doc": doc, "bare": bare, "xml": mode}
        if real != o.get("tables"):
            n_bad += 1
            if n_bad <= 10:
                broken.append(Broken("correspondence", "c13.epub", f"impl={real!r} model={o.get('tables')!r}", case=case))
        flat_plain = doc is not None and not has_nesting(doc) and _single_fragment(doc)
        if flat_plain and real != _html_truth(doc):
            n_bad += 1
            if n_bad <= 10:
                broken.append(Broken("correspondence", "truth:epub", f"impl={real!r} ground truth={_html_truth(doc)!r}", case=case))
    return broken


def _ser_events(evs):
    """handler calls -> markup (an "se" call is the empty-element tag <t/>)"""
    return "".join(f"<{e[1]}>" if e[0] == "s" else f"<{e[1]}/>" if e[0] == "se" else f"</{e[1]}>" if e[0] == "e" else c13b._esc(e[1])
                   for e in evs)


_EMPTY_ELEM = re.compile(r"<(td|th|tr|p|b|tbody|thead)></\1>")


def xml_form(text, mode, rng=None):
    """the document as an XML serializer writes it: an element without content (<td></td>, <p></p>, ...) becomes the
    empty-element tag <td/>.  mode: "all" | "cells" (only td / th) | a list of booleans (one per candidate, cyclic)"""
    k = [0]

    def sub(m):
        k[0] += 1
        if mode == "all" or (mode == "cells" and m.group(1) in ("td", "th")) \
                or (isinstance(mode, list) and mode and mode[(k[0] - 1) % len(mode)]):
            return f"<{m.group(1)}/>"
        return m.group(0)
    return _EMPTY_ELEM.sub(sub, text)


def gen_xml_mode(rng):
    r = rng.random()
    if r < 0.4:
        return None
    if r < 0.6:
        return "all"
    if r < 0.75:
        return "cells"
    return [rng.random() < 0.5 for _ in range(rng.randint(1, 5))]


def _ser_node(n):
    tag, attrs, text, kids, tail = n
    return f"<{tag}>" + c13b._esc(text) + "".join(_ser_node(k) for k in kids) + f"</{tag}>" + c13b._esc(tail)


def gen_hpara(rng):
    return [gen_text(rng, ws=0.15), [[gen_text(rng, ws=0.1), gen_text(rng, ws=0.1)] for _ in range(rng.choice([0, 0, 1, 2]))]]


def _hpara_frag_doc(doc):
    """HPara document -> fragment document of the reference writer (for the ground truth)"""
    def conv(b):
        if b[0] == "p":
            return ["p", ["".join([b[1][0]] + [x + y for x, y in b[1][1]])]]
        return ["t", b[1], [[[conv(x) for x in cell] for cell in row] for row in b[2]]]
    return [conv(b) for b in doc]


def _corr_lean_html_epub(ctx):
    """documents written by the Lean `htmlRoot` / `chapterEvents` (the objects of the theorems): the real tree builder /
    HTMLParser must produce exactly that tree / those handler calls, and the real extractor the Lean spec"""
    rng = ctx.rng
    broken = []
    hx, ex = _mod("html_extractor"), _mod("epub_extractor")
    n_bad = 0

    def bad(name, detail, case):
        nonlocal n_bad
        n_bad += 1
        if n_bad <= 10:
            broken.append(Broken("correspondence", name, detail[:1500], case=case))

    docs = [gen_doc(rng, gen_hpara, nest=True, allow_empty_cell=(rng.random() < 0.5)) for _ in range(ctx.n(60, 800))]
    outs = ctx.drive([{"op": "c13.render", "fmt": "html", "doc": d} for d in docs])
    for doc, o in zip(docs, outs):
        if "drv_error" in o:
            bad("driver:render", o["drv_error"], {"fmt": "html-lean", "doc": doc})
            continue
        text = "".join(_ser_node(k) for k in o["tree"][3])
        b = hx._HtmlTreeBuilder()
        b.feed(text)
        b.close()
        tree = b.get_tree()
        x = hx._HtmlTextExtractor(tree)
        x.extract()
        ctx.case(("html-lean", text), nontrivial=n_rows(doc) > 0)
        ctx.count("html/lean-rendered/" + ("nested" if has_nesting(doc) else "flat"))
        frag = _hpara_frag_doc(doc)
        case = {"fmt": "html", "doc": frag, "bare": False, "text": text}
        if c13b.json_from_dict(tree) != o["tree"]:
            bad("render:html-tree", f"_HtmlTreeBuilder built {c13b.json_from_dict(tree)!r}, the Lean htmlRoot is {o['tree']!r}", case)
        if o["proper"] and x.tables != o["spec"]:
            bad("render-read:html", f"impl={x.tables!r} spec={o['spec']!r}", case)
        if o["proper"] and o["spec"] != _html_truth(frag):
            bad("spec:html", f"Lean spec {o['spec']!r} != python ground truth {_html_truth(frag)!r}", case)
    # EPUB
    docs = []
    for _ in range(ctx.n(60, 800)):
        d = []
        for b in gen_doc(rng, lambda r: gen_text(r, ws=0.15), nest=False, allow_empty_cell=(rng.random() < 0.5)):
            d.append(["p", b[1]] if b[0] == "p" else ["t", b[1], [[[x[1] for x in cell] for cell in row] for row in b[2]]])
        docs.append(d)
    # every chapter is ALSO written in an XML form (Props/C13_Xml.lean): the empty elements chosen by `mask` as <t/>
    masks = [[rng.random() < rng.choice([0.5, 1.0]) for _ in range(40)] for _ in docs]
    outs = ctx.drive([{"op": "c13.render", "fmt": "epub", "doc": d, "mask": m} for d, m in zip(docs, masks)])
    for doc, o in zip(docs, outs):
        if "drv_error" in o:
            bad("driver:render", o["drv_error"], {"fmt": "epub-lean", "doc": doc})
            continue
        xtext = _ser_events(o["xml_events"])
        R, xevents = _Rec.wrap(ex._XhtmlTextExtractor)
        xp = R()
        xp.feed(xtext)
        xp.close()
        n_se = sum(1 for e in o["xml_events"] if e[0] == "se")
        ctx.case(("epub-lean-xml", xtext), nontrivial=n_se > 0)
        ctx.count("epub/lean-rendered/xml-form/" + ("with <t/>" if n_se else "no empty element"))
        xfrag = [["p", [b[1]]] if b[0] == "p" else ["t", b[1], [[[["p", [t]] for t in cell] for cell in row] for row in b[2]]] for b in doc]
        xcase = {"fmt": "epub", "doc": xfrag, "bare": False, "text": xtext, "xml": "all"}
        xwant = [[e[0], e[1], []] if e[0] in ("s", "se") else e for e in o["xml_events"] if not (e[0] == "d" and e[1] == "")]
        if [[e[0], e[1], []] if e[0] in ("s", "se") else e for e in xevents] != xwant:
            bad("render:epub-xml-events", f"HTMLParser made the calls {list(xevents)!r}, the Lean XML form is {xwant!r}", xcase)
        if o["proper"] and o["xml_tables"] != o["spec"]:
            bad("theorem-instance:epub-xml", f"model {o['xml_tables']!r} != right-hand side of C13_epub_xml_gen {o['spec']!r}", xcase)
        if o["proper"] and xp.tables != o["spec"]:
            bad("render-read:epub-xml", f"impl={xp.tables!r} spec={o['spec']!r} for {xtext!r}", xcase)
        text = "".join(f"<{e[1]}>" if e[0] == "s" else f"</{e[1]}>" if e[0] == "e" else c13b._esc(e[1]) for e in o["events"])
        R, events = _Rec.wrap(ex._XhtmlTextExtractor)
        p = R()
        p.feed(text)
        p.close()
        ctx.case(("epub-lean", text), nontrivial=any(b[0] == "t" for b in doc))
        ctx.count("epub/lean-rendered")
        frag = [["p", [b[1]]] if b[0] == "p" else ["t", b[1], [[[["p", [t]] for t in cell] for cell in row] for row in b[2]]] for b in doc]
        case = {"fmt": "epub", "doc": frag, "bare": False, "text": text}
        want_ev = [e for e in o["events"] if not (e[0] == "d" and e[1] == "")]
        if list(events) != want_ev:
            bad("render:epub-events", f"HTMLParser made the calls {list(events)!r}, the Lean chapterEvents are {want_ev!r}", case)
        if o["proper"] and p.tables != o["spec"]:
            bad("render-read:epub", f"impl={p.tables!r} spec={o['spec']!r}", case)
        if o["proper"] and o["spec"] != _html_truth(frag):
            bad("spec:epub", f"Lean spec {o['spec']!r} != python ground truth {_html_truth(frag)!r}", case)
    return broken


def _single_fragment(doc):
    def ok(b):
        if b[0] == "p":
            return len(b[1]) <= 1
        return all(ok(x) for row in b[2] for cell in row for x in cell)
    return all(ok(b) for b in doc)


# ----------------------------------------------------------------------------- sheets
def gen_value(rng):
    k = rng.random()
    if k < 0.22:
        return None
    if k < 0.40:
        return gen_text(rng, ws=0.1, empty=0.0) or "s"
    if k < 0.52:
        return rng.choice([0, 1, -7, 42, 10 ** 9, 2 ** 40])
    if k < 0.64:
        return rng.choice([2.5, -0.125, 1e-3, 3.0, 1e20, 0.1])
    if k < 0.72:
        return rng.random() < 0.5
    if k < 0.80:
        return datetime.datetime(2024, rng.randint(1, 12), rng.randint(1, 28), rng.randint(0, 23), rng.randint(0, 59), rng.randint(0, 59))
    if k < 0.86:
        return datetime.date(1999 + rng.randint(0, 30), rng.randint(1, 12), rng.randint(1, 28))
    if k < 0.90:
        return datetime.time(rng.randint(0, 23), rng.randint(0, 59), rng.randint(0, 59))
    if k < 0.93:
        return datetime.timedelta(hours=rng.randint(1, 50), minutes=rng.randint(0, 59))
    if k < 0.96:
        return rng.choice(["#DIV/0!", "#N/A", "  ", "Unnamed: 3", "Unnamed: x"])
    return rng.choice(["", " ", "\t"])


def gen_sheet(rng, name_row=None, max_r=6, max_c=5):
    r, c = rng.randint(1, max_r), rng.randint(1, max_c)
    g = [[gen_value(rng) for _ in range(c)] for _ in range(r)]
    if rng.random() < 0.3:   # header row of strings, possibly duplicate / empty
        g[0] = [rng.choice(["h", "h", "k", "", None, "Name", "Age"]) for _ in range(c)]
    if name_row is True:
        g[0] = [None] * c
        g[0][rng.randrange(c)] = "Title"
    return g


def _xlsx_cell_ok(v):
    return not (isinstance(v, str) and v == "")


def build_xlsx(sheets) -> bytes:
    import openpyxl
    wb = openpyxl.Workbook()
    wb.remove(wb.active)
    for i, g in enumerate(sheets):
        ws = wb.create_sheet(f"S{i}")
        for r, row in enumerate(g, 1):
            for c, v in enumerate(row, 1):
                if v is not None and _xlsx_cell_ok(v):
                    ws.cell(r, c, v)
    b = io.BytesIO()
    wb.save(b)
    return b.getvalue()


def xlsx_rows(data: bytes):
    """what openpyxl hands to _read_sheet_data, per sheet"""
    import openpyxl
    wb = openpyxl.load_workbook(io.BytesIO(data), read_only=True, data_only=True)
    try:
        return [[tuple(r) for r in wb[n].iter_rows(values_only=True)] for n in wb.sheetnames]
    finally:
        wb.close()


def _xlsx_nonempty(v):
    return v is not None and (not isinstance(v, str) or v.strip() != "")


def _xlsx_meaningful(v):
    if v is None:
        return False
    if isinstance(v, str):
        return bool(v.strip()) and not v.startswith("Unnamed: ")
    return True


def xlsx_truth(g):
    """used range of the written grid with typed values (dates -> ISO, duration -> str)"""
    def cv(v):
        if isinstance(v, str) and v == "":
            return None
        if isinstance(v, datetime.date) and not isinstance(v, datetime.datetime):
            return datetime.datetime.combine(v, datetime.time()).isoformat()   # a spreadsheet date is a date-time at midnight
        if isinstance(v, (datetime.datetime, datetime.time)):
            return v.isoformat()
        if isinstance(v, datetime.timedelta):
            return str(v)
        return v
    rows = [list(r) for r in g]
    while rows and not any(_xlsx_nonempty(v) and not (isinstance(v, str) and v == "") for v in rows[-1]):
        rows.pop()
    if not rows:
        return []
    w = 0
    for r in rows:
        for i in range(len(r) - 1, -1, -1):
            if _xlsx_nonempty(r[i]):
                w = max(w, i + 1)
                break
    return [[cv(v) for v in (r + [None] * w)[:w]] for r in rows]


def _is_name_row(row):
    return sum(1 for v in row if _xlsx_meaningful(v)) == 1 and len(row) > 1


def _canon(v):
    if isinstance(v, float):
        return ["i", int(v)] if v == int(v) and abs(v) < 2 ** 53 else ["f", repr(v)]
    if isinstance(v, int) and not isinstance(v, bool):
        return ["i", v]
    if isinstance(v, bool):
        return ["b", v]
    return v


def _canon_grid(g):
    return [[_canon(v) for v in row] for row in g]


def _corr_xlsx(ctx):
    rng = ctx.rng
    broken = []
    xm = _mod("ms_modern.xlsx_extractor")
    n_bad = 0

    def bad(name, detail, case):
        nonlocal n_bad
        n_bad += 1
        if n_bad <= 10:
            broken.append(Broken("correspondence", name, detail[:1500], case=case))

    # real files
    reqs, meta = [], []
    for _ in range(ctx.n(12, 200)):
        sheets = [gen_sheet(rng, name_row=(True if rng.random() < 0.15 else None)) for _ in range(rng.randint(1, 3))]
        data = build_xlsx(sheets)
        real = _read("xlsx", data)
        per_sheet = xlsx_rows(data)
        for g, rows, res in zip(sheets, per_sheet, real if not isinstance(real, str) else [real] * len(sheets)):
            reqs.append({"op": "c13.xlsx", "rows": vgrid_json(rows), "strof": [str(v) for v in (rows[0] if rows else [])]})
            meta.append((g, rows, res))
        if isinstance(real, str) or len(real) != len(sheets):
            bad("xlsx:read", f"read_xlsx -> {real!r}", {"fmt": "xlsx", "sheets": _enc_sheets(sheets)})
    # hand-written worksheet parts: every optional member varied independently (no <dimension>, ragged stored rows, sparse
    # cells, shared / inline strings, ...); the row lists openpyxl yields for them go to the model, the result to the truth
    hand = [(gen_hand_sheet(rng), c13x.gen_opts(rng)) for _ in range(ctx.n(40, 600))] + [(g, o) for g, o in _xlsx_lattice()]
    for g, opts in hand:
        data = c13x.xlsx_package([g], [opts])
        real = _read("xlsx", data)
        case = {"fmt": "xlsx", "sheets": _enc_sheets([g]), "opts": [opts]}
        if isinstance(real, str) or len(real) != 1:
            bad("xlsx:read-hand", f"read_xlsx -> {real!r}", case)
            continue
        try:
            rows = xlsx_rows(data)[0]
        except Exception as e:  # noqa: BLE001
            bad("xlsx:openpyxl-hand", f"openpyxl cannot read the written part: {type(e).__name__}: {e}", case)
            continue
        reqs.append({"op": "c13.xlsx", "rows": vgrid_json(rows), "strof": [str(v) for v in (rows[0] if rows else [])]})
        meta.append(((g, opts), rows, real[0]))
        ctx.count("xlsx/hand/dimension:%s/stored-rows:%s" % (opts["dimension"], "ragged" if len({len(r) for r in rows}) > 1 else "equal"))
    # stub worksheets: ragged tuples, odd values
    for _ in range(ctx.n(60, 1500)):
        rows = [tuple(gen_value(rng) for _ in range(rng.randint(0, 5))) for _ in range(rng.randint(0, 6))]
        ws = types.SimpleNamespace(iter_rows=lambda values_only=True, _r=rows: iter(_r))
        wb = {"S": ws}
        try:
            sh = xm._read_content_from_workbook(wb, ["S"])[0]
            res = {"table": sh.get_table(), "dim": (sh.get_dim().rows, sh.get_dim().columns)}
        except Exception as e:  # noqa: BLE001
            res = f"ERR:{type(e).__name__}"
        reqs.append({"op": "c13.xlsx", "rows": vgrid_json(rows), "strof": [str(v) for v in (rows[0] if rows else [])]})
        meta.append((None, rows, res))
    outs = ctx.drive(reqs)
    for (g, rows, res), o in zip(meta, outs):
        ctx.case(("xlsx", repr(rows)), nontrivial=bool(rows))
        opts = None
        if isinstance(g, tuple):
            g, opts = g
        ctx.count("xlsx/" + ("file" if g is not None and opts is None else "hand-written" if g is not None else "stub-worksheet"))
        got = res if isinstance(res, str) else vgrid_json(res["table"])
        if got != o.get("data"):
            bad("c13.xlsx", f"impl={got!r} model={o.get('data')!r}",
                {"fmt": "xlsx", "sheets": _enc_sheets([g]), "opts": [opts]} if opts is not None else {"fmt": "xlsx-rows", "rows": vgrid_json(rows)})
        if not isinstance(res, str) and res["dim"] != (len(res["table"]), max((len(r) for r in res["table"]), default=0)):
            bad("dim:xlsx", f"{res!r}", {"fmt": "xlsx-rows", "rows": vgrid_json(rows)})
        if g is not None and not isinstance(res, str):
            truth = xlsx_truth(g)
            if truth and _is_name_row(truth[0]):
                truth = truth[1:]       # open known finding xlsx.single-value-first-row-dropped (test-pinned behaviour)
            if _canon_grid(res["table"]) != _canon_grid(truth):
                bad("truth:xlsx", f"impl={res['table']!r} ground truth={truth!r}",
                    {"fmt": "xlsx", "sheets": _enc_sheets([g]), **({"opts": [opts]} if opts is not None else {})})
    return broken


def gen_hand_sheet(rng):
    """a sheet for the hand-written writer: the source rows may have different lengths themselves"""
    g = gen_sheet(rng)
    if rng.random() < 0.5:
        g = [r[:rng.randint(0, len(r))] if rng.random() < 0.4 else r for r in g]
    g = [[v if not isinstance(v, datetime.timedelta) else str(v) for v in r] for r in g]
    t = xlsx_truth(g)
    if t and _is_name_row(t[0]):       # keep out of the shape of the open finding xlsx.single-value-first-row-dropped
        g[0] = [("h%d" % j) for j in range(max(2, len(g[0])))]
    return g


XLSX_LATTICE_GRID = [["id", "name", "qty", "ok"], [1, "apple", None, None], [], [2, "pear", 12.5, True], [None, None, None, None],
                     [3, None, 7, None], [None, "x"]]


def _xlsx_lattice():
    """a fixed sheet (stored rows of 4, 2, 0, 4, 0, 3, 2 cells when trailing empty cells are omitted; an inner gap; an
    empty row) written once per (option, value) with only that option off the default, and for every pair
    (dimension, trailing) - the deterministic part of the stream and the first inputs of the failing-input search"""
    out = []
    for k, vals in c13x.OPTIONS.items():
        for v in vals:
            if v != c13x.DEFAULT[k]:
                out.append((XLSX_LATTICE_GRID, dict(c13x.DEFAULT, **{k: v})))
    for d in c13x.OPTIONS["dimension"]:
        for t in c13x.OPTIONS["trailing"]:
            for r in c13x.OPTIONS["refs"]:
                out.append((XLSX_LATTICE_GRID, dict(c13x.DEFAULT, dimension=d, trailing=t, refs=r)))
    out.append(([["a", "b", "c"], [1], [2, 3]], dict(c13x.DEFAULT)))
    for d in c13x.OPTIONS["dimension"]:      # the first stored row is the shortest; the last row holds data only beyond it
        out.append(([["a"], [1, 2, 3], [None, None, "z"]], dict(c13x.DEFAULT, dimension=d)))
        out.append(([[], ["a", "b"], [None, 5]], dict(c13x.DEFAULT, dimension=d, empty_rows="empty")))
    out.append(([[1, 2], [], [3, 4, 5]], dict(c13x.DEFAULT, strings="inline")))
    return out


def _rows_to_sheet(rows_json):
    """a stub row list (wire form) as a sheet for the hand-written writer: the same values, stored without <dimension>
    and without trailing empty cells, so that the stored rows are as ragged as the row list"""
    def dec(v):
        if v is None:
            return None
        k, x = v
        if k == "f":
            return float(x)
        if k == "d":
            try:
                if "T" in x:
                    return datetime.datetime.fromisoformat(x)
                return datetime.time.fromisoformat(x) if ":" in x else datetime.date.fromisoformat(x)
            except ValueError:
                return x
        return x
    return [[dec(v) for v in row] for row in rows_json]


def _enc_sheets(sheets):
    return [[[_enc_v(v) for v in row] for row in g] for g in sheets]


def _enc_v(v):
    if isinstance(v, datetime.datetime):
        return {"dt": v.isoformat()}
    if isinstance(v, datetime.date):
        return {"date": v.isoformat()}
    if isinstance(v, datetime.time):
        return {"time": v.isoformat()}
    if isinstance(v, datetime.timedelta):
        return {"td": v.total_seconds()}
    return v


def _dec_v(v):
    if isinstance(v, dict):
        if "dt" in v:
            return datetime.datetime.fromisoformat(v["dt"])
        if "date" in v:
            return datetime.date.fromisoformat(v["date"])
        if "time" in v:
            return datetime.time.fromisoformat(v["time"])
        if "td" in v:
            return datetime.timedelta(seconds=v["td"])
    return v


# ODS: run-length rows  [(row_repeat, [(cell_repeat, value)…])…]; value: None | str | int | float | bool | ("date", iso) | ("time", dur)
def gen_ods_value(rng):
    k = rng.random()
    if k < 0.45:
        return None
    if k < 0.62:
        return gen_text(rng, ws=0.0, empty=0.0) or "s"
    if k < 0.74:
        return rng.choice([0, 1, -7, 42, 10 ** 9])
    if k < 0.84:
        return rng.choice([2.5, -0.125, 0.001])
    if k < 0.90:
        return rng.random() < 0.5
    if k < 0.96:
        return ("date", rng.choice(["2024-01-02", "2024-01-02T03:04:05"]))
    return ("time", "PT01H02M03S")


ODS_CELL_BUDGET = 10 ** 6      # no generated / replayed sheet may expand to more cells than this, whatever the library does
ODS_CAP = 100                  # the library's cap on empty runs (open finding ods.empty-repeat-shifts-cells)


def ods_cells_if_expanded(rows):
    """upper bound of the cells a full expansion of the run-length encoded sheet would allocate"""
    width = max((sum(rep for rep, _ in cells) for _, cells in rows), default=0)
    return width * sum(rrep for rrep, _ in rows)


def ods_budget_ok(rows):
    return ods_cells_if_expanded(rows) <= ODS_CELL_BUDGET and all(rep <= 2000 for _, cells in rows for rep, _ in cells) \
        and all(rrep <= 2000 for rrep, _ in rows)


def gen_ods_sheet(rng, wide_gap_before_data=None, zeros=False):
    """wide_gap_before_data: None = anything, False = capped runs only where nothing follows them;
    zeros: a few repeat counts of 0 (degenerate input: model / implementation correspondence only)"""
    while True:
        rows = []
        for _ in range(rng.randint(1, 6)):
            cells = []
            for _ in range(rng.randint(0, 5)):
                rep = rng.choice([1, 1, 1, 1, 2, 3, 99, 100, 101, 150, 300])
                v = gen_ods_value(rng)
                if v is not None and rep > 3:
                    rep = rng.choice([1, 2, 3, 3, 3, 100, 101, 120])     # a value repeated past the cap is not collapsed
                if zeros and rng.random() < 0.04:
                    rep = 0
                cells.append((rep, v))
            rrep = rng.choice([1, 1, 1, 1, 2, 3, 99, 100, 101, 150])
            if rrep > 3 and any(v is not None for _, v in cells):
                rrep = rng.choice([1, 2, 2, 2, 101, 110])
            if zeros and rng.random() < 0.04:
                rrep = 0
            rows.append((rrep, cells))
        if not ods_budget_ok(rows):
            continue
        if wide_gap_before_data is False and ods_wide_gap(rows):
            continue
        return rows


def ods_wide_gap(rows):
    """a run of more than ODS_CAP empty cells (one table-cell element) with a value behind it in its row, or one
    table-row element without data repeated more than ODS_CAP times with a row holding data below it"""
    def has(cells):
        return any(v is not None and rep > 0 for rep, v in cells)
    for rrep, cells in rows:
        if rrep == 0:       # contributes no row, whatever its cells (as Ods.noGapRows)
            continue
        for i, (rep, v) in enumerate(cells):
            if v is None and rep > ODS_CAP and has(cells[i + 1:]):
                return True
    for i, (rrep, cells) in enumerate(rows):
        if rrep > ODS_CAP and not has(cells) and any(has(c) and rr > 0 for rr, c in rows[i + 1:]):
            return True
    return False


def ods_capped_rows(rows):
    """the mechanism of the open finding, on the run-length encoding: every capped run counts once"""
    def has(cells):
        return any(v is not None and rep > 0 for rep, v in cells)
    out = []
    for rrep, cells in rows:
        cc = [((1 if (v is None and rep > ODS_CAP) else rep), v) for rep, v in cells]
        out.append(((1 if (rrep > ODS_CAP and not has(cells)) else rrep), cc))
    return out


def ods_cell_elem(rep, v):
    a = {}
    if rep != 1:
        a[c13b.TABLE + "number-columns-repeated"] = str(rep)
    e = ET.Element(c13b.TABLE + "table-cell", a)
    if v is None:
        return e
    if isinstance(v, bool):
        e.set(c13b.OFFICE + "value-type", "boolean")
        e.set(c13b.OFFICE + "boolean-value", "true" if v else "false")
        ET.SubElement(e, c13b.TEXT + "p").text = "TRUE" if v else "FALSE"
    elif isinstance(v, (int, float)):
        e.set(c13b.OFFICE + "value-type", "float")
        e.set(c13b.OFFICE + "value", repr(v))
        ET.SubElement(e, c13b.TEXT + "p").text = repr(v)
    elif isinstance(v, tuple) and v[0] == "date":
        e.set(c13b.OFFICE + "value-type", "date")
        e.set(c13b.OFFICE + "date-value", v[1])
        ET.SubElement(e, c13b.TEXT + "p").text = "02.01.2024"
    elif isinstance(v, tuple) and v[0] == "time":
        e.set(c13b.OFFICE + "value-type", "time")
        e.set(c13b.OFFICE + "time-value", v[1])
        ET.SubElement(e, c13b.TEXT + "p").text = "01:02:03"
    else:
        e.set(c13b.OFFICE + "value-type", "string")
        ET.SubElement(e, c13b.TEXT + "p").text = v
    return e


class OdsBudgetExceeded(ValueError):
    """the sheet is never built, never handed to the library"""


def build_ods(sheets) -> bytes:
    # checked BEFORE anything is built or handed to the library, whatever the library does with repeats
    for rows in sheets:
        if not ods_budget_ok(rows):
            raise OdsBudgetExceeded("ODS case exceeds the harness cell budget: %d cells if expanded (limit %d), repeat counts above 2000 refused"
                                    % (ods_cells_if_expanded(rows), ODS_CELL_BUDGET))
    ss = ET.Element(c13b.OFFICE + "spreadsheet")
    for i, rows in enumerate(sheets):
        t = ET.SubElement(ss, c13b.TABLE + "table", {c13b.TABLE + "name": f"S{i}"})
        ET.SubElement(t, c13b.TABLE + "table-column")
        for rrep, cells in rows:
            a = {c13b.TABLE + "number-rows-repeated": str(rrep)} if rrep != 1 else {}
            tr = ET.SubElement(t, c13b.TABLE + "table-row", a)
            for rep, v in cells:
                tr.append(ods_cell_elem(rep, v))
    return c13b.odf_package("ods", ss)


def ods_truth(rows):
    """plain expansion, trimmed to the used range, padded with None; typed values"""
    def tv(v):
        if isinstance(v, tuple):
            return v[1]
        if isinstance(v, float) and v == int(v):
            return int(v)
        return v
    g = []
    for rrep, cells in rows:
        row = []
        for rep, v in cells:
            row += [tv(v)] * rep
        g += [row] * rrep
    while g and all(v is None for v in g[-1]):
        g.pop()
    w = 0
    for r in g:
        for i in range(len(r) - 1, -1, -1):
            if r[i] is not None:
                w = max(w, i + 1)
                break
    return [(r + [None] * w)[:w] for r in g]


def _enc_ods(rows):
    return [[rrep, [[rep, list(v) if isinstance(v, tuple) else v] for rep, v in cells]] for rrep, cells in rows]


def _dec_ods(rows):
    return [(rrep, [(rep, tuple(v) if isinstance(v, list) else v) for rep, v in cells]) for rrep, cells in rows]


def _corr_ods(ctx):
    rng = ctx.rng
    broken = []
    om = _mod("open_office.ods_extractor")
    reqs, meta = [], []
    for _ in range(ctx.n(80, 800)):
        sheets = [gen_ods_sheet(rng, zeros=rng.random() < 0.3) for _ in range(rng.randint(1, 2))]
        real = _read("ods", build_ods(sheets))
        for i, rows in enumerate(sheets):
            model_rows = [[rrep, [[rep, val_json(om._extract_cell_value(ods_cell_elem(rep, v))[0])] for rep, v in cells]] for rrep, cells in rows]
            reqs.append({"op": "c13.ods", "rows": model_rows})
            meta.append((rows, real if isinstance(real, str) else (real[i] if i < len(real) else "ERR:missing-sheet")))
    outs = ctx.drive(reqs)
    n_bad = 0
    for (rows, res), o in zip(meta, outs):
        ctx.case(("ods", repr(rows)), nontrivial=any(v is not None for _, cells in rows for _, v in cells))
        big = any(rep > 100 for _, cells in rows for rep, _ in cells) or any(rr > 100 for rr, _ in rows)
        ctx.count("ods/" + ("wide-gap-before-data" if ods_wide_gap(rows) else "capped-trailing-run" if big else "plain"))
        got = res if isinstance(res, str) else vgrid_json(res["table"])
        case = {"fmt": "ods", "rows": _enc_ods(rows)}
        msgs = []
        if got != o.get("data"):
            msgs.append(("c13.ods", f"impl={_short(got)} model={_short(o.get('data'))}"))
        # the hypothesis of C13_ods_cells_partial (Lean, with the caps read from the source) is the oracle's
        # classifier of the open finding
        if o.get("nogap") is not (not ods_wide_gap(rows)):
            msgs.append(("c13.ods-nogap", f"Lean NoWideGap={o.get('nogap')} harness ods_wide_gap={ods_wide_gap(rows)}"))
        if not isinstance(res, str):
            # a wide gap in front of data is the open finding ods.empty-repeat-shifts-cells: there the capped
            # expansion is what the library is known to return (replayed in known_witnesses); the exact table
            # is right everywhere
            truth = ods_truth(rows)
            if ods_wide_gap(rows) and _canon_grid(res["table"]) != _canon_grid(truth):
                truth = ods_truth(ods_capped_rows(rows))
            if _canon_grid(res["table"]) != _canon_grid(truth):
                msgs.append(("truth:ods", f"impl={_short(res['table'])} ground truth={_short(truth)}"))
            if res["dim"] != (len(truth), max((len(r) for r in truth), default=0)):
                msgs.append(("dim:ods", f"get_dim()={res['dim']} ground truth {(len(truth), max((len(r) for r in truth), default=0))}"))
        for name, d in msgs:
            n_bad += 1
            if n_bad <= 10:
                broken.append(Broken("correspondence", name, d, case=case))
    return broken


def _short(g, n=400):
    s = repr(g)
    return s if len(s) <= n else s[:n] + "…"


# XLS: stub xlrd workbook
class _Cell:
    def __init__(self, ctype, value):
        self.ctype, self.value = ctype, value


class _Sheet:
    def __init__(self, name, grid):
        self.name, self._g = name, grid
        self.nrows = len(grid)
        self.ncols = max((len(r) for r in grid), default=0)

    def cell(self, r, c):
        row = self._g[r]
        return row[c] if c < len(row) else _Cell(0, "")


class _Book:
    datemode = 0

    def __init__(self, sheets):
        self._s = sheets

    def sheets(self):
        return self._s


def gen_xls_cell(rng, header=False):
    import xlrd
    k = rng.random()
    if header and k < 0.75:
        return _Cell(xlrd.XL_CELL_TEXT, rng.choice(["h", "k", "Name", "Age", "x", "y", "z", "", "h"]))
    if k < 0.2:
        return _Cell(xlrd.XL_CELL_EMPTY, "")
    if k < 0.45:
        return _Cell(xlrd.XL_CELL_TEXT, gen_text(rng, empty=0.05))
    if k < 0.7:
        return _Cell(xlrd.XL_CELL_NUMBER, rng.choice([1.0, 2.5, -3.0, 1e10, 0.125]))
    if k < 0.8:
        return _Cell(xlrd.XL_CELL_DATE, rng.choice([45000.0, 45000.5, 36526.25]))
    if k < 0.9:
        return _Cell(xlrd.XL_CELL_BOOLEAN, rng.choice([0, 1]))
    return _Cell(xlrd.XL_CELL_ERROR, 7)


def gen_xls_sheet(rng, distinct=None):
    r, c = rng.randint(1, 5), rng.randint(1, 5)
    g = [[gen_xls_cell(rng, header=(i == 0)) for _ in range(c)] for i in range(r)]
    if distinct:
        import xlrd
        g[0] = [_Cell(xlrd.XL_CELL_TEXT, f"h{j}") for j in range(c)]
        if r == 1:
            g.append([gen_xls_cell(rng) for _ in range(c)])
    return g


def _xls_read(grids):
    import xlrd
    xm = _mod("ms_legacy.xls_extractor")
    book = _Book([_Sheet(f"S{i}", g) for i, g in enumerate(grids)])
    orig = xlrd.open_workbook
    xlrd.open_workbook = lambda *a, **k: book
    try:
        sheets = xm._read_content(io.BytesIO(b""))
    finally:
        xlrd.open_workbook = orig
    return sheets, book


def _enc_xls(g):
    return [[[c.ctype, c.value] for c in row] for row in g]


def _dec_xls(g):
    return [[_Cell(ct, v) for ct, v in row] for row in g]


def xls_truth(g, book):
    """header texts, then native values row by row"""
    xm = _mod("ms_legacy.xls_extractor")
    hdr = [xm._get_cell_value(c, book, as_string=True) for c in g[0]]
    return [hdr] + [[xm._get_cell_values(c, book)[0] for c in row] for row in g[1:]]


def _corr_xls(ctx):
    rng = ctx.rng
    broken = []
    xm = _mod("ms_legacy.xls_extractor")
    reqs, meta = [], []
    for _ in range(ctx.n(60, 1500)):
        g = gen_xls_sheet(rng, distinct=rng.random() < 0.5)
        sheets, book = _xls_read([g])
        sh = sheets[0]
        cells = [[[val_json(xm._get_cell_values(c, book)[0]), xm._get_cell_value(c, book, as_string=True)] for c in row] for row in g]
        reqs.append({"op": "c13.xls", "cells": cells})
        meta.append((g, sh, book))
    outs = ctx.drive(reqs)
    n_bad = 0
    for (g, sh, book), o in zip(meta, outs):
        ctx.case(("xls", repr(_enc_xls(g))))
        hdrs = [xm._get_cell_value(c, book, as_string=True) for c in g[0]]
        ok_shape = len(set(hdrs)) == len(hdrs) and len(g) > 1
        ctx.count("xls/" + ("distinct-headers" if ok_shape else "colliding-or-header-only"))
        table = sh.get_table()
        d = sh.get_dim()
        msgs = []
        if vgrid_json(table) != o.get("table"):
            msgs.append(("c13.xls", f"impl={vgrid_json(table)!r} model={o.get('table')!r}"))
        if (d.rows, d.columns) != (len(table), max((len(r) for r in table), default=0)):
            msgs.append(("dim:xls", f"{(d.rows, d.columns)} for {table!r}"))
        if ok_shape and _canon_grid(table) != _canon_grid(xls_truth(g, book)):
            msgs.append(("truth:xls", f"impl={table!r} ground truth={xls_truth(g, book)!r}"))
        for name, det in msgs:
            n_bad += 1
            if n_bad <= 10:
                broken.append(Broken("correspondence", name, det[:1500], case={"fmt": "xls", "grid": _enc_xls(g)}))
    return broken


def _corr_dim(ctx):
    """get_dim() of every table class vs. the model's getDim"""
    rng = ctx.rng
    dt = __import__("sharepoint2text.parsing.extractors.data_types", fromlist=["x"])
    broken = []
    reqs, meta = [], []
    for _ in range(ctx.n(60, 1000)):
        data = [[gen_text(rng) for _ in range(rng.randint(0, 5))] for _ in range(rng.randint(0, 5))]
        for cls in ("TableData", "XlsxSheet", "OdsSheet", "OdtTable", "RtfTable"):
            t = getattr(dt, cls)(data=data)
            d = t.get_dim()
            reqs.append({"op": "c13.dim", "lens": [len(r) for r in t.get_table()]})
            meta.append((cls, data, (d.rows, d.columns)))
        if data and data[0]:
            hdr = [f"k{i}" for i in range(len(data[0]))]
            xs = dt.XlsSheet(data=[dict(zip(hdr, r)) for r in data])
            d = xs.get_dim()
            reqs.append({"op": "c13.dim", "lens": [len(r) for r in xs.get_table()]})
            meta.append(("XlsSheet", data, (d.rows, d.columns)))
    outs = ctx.drive(reqs)
    for (cls, data, real), o in zip(meta, outs):
        ctx.case(("dim", cls, repr(data)), nontrivial=bool(data))
        ctx.count("dim/" + cls)
        if list(real) != o.get("dim"):
            broken.append(Broken("correspondence", f"c13.dim:{cls}", f"impl={real} model={o.get('dim')}", case={"fmt": "dim", "cls": cls, "data": data}))
    return broken[:10]


def _corr_rtf(ctx):
    """RTF: S2T.Model.TablesRtf against the real _RtfParser on written documents and on the token stream (c13_rtf.corr)"""
    return c13_rtf.corr(ctx, lambda data: _read("rtf", data))


def correspondence(ctx):
    broken = []
    for part in (_corr_xml, _corr_html, _corr_lean_html_epub, _corr_epub, _corr_xlsx, _corr_ods, _corr_xls, _corr_dim, _corr_rtf,
                 c13_slide.corr):
        broken += part(ctx)
    ctx.coverage["mismatches"] = len(broken)
    return {"broken": broken, "violations": []}


# ----------------------------------------------------------------------------- oracle (property statement on the real code)
def blk_tables_doc(doc, fmt):
    ct = {"docx": c13b.docx_cell_text, "odt": c13b.odf_cell_text}[fmt]
    return [t for b in doc for t in c13b.blk_tables(b, ct)]


c13b.blk_tables_doc = blk_tables_doc


def _viol(key, what, fmt, case):
    return Violation(key, what[:600], {"fmt": fmt, "case": case})


def _check_tables(fmt, res, truth, case, known=()):
    """compare what iterate_tables() returned with the ground truth; `known` = [(key, alternative truth)]"""
    if isinstance(res, str):
        return [_viol(f"{fmt}.raises", f"{fmt}: extraction failed on a document with tables: {res}", fmt, case)]
    got = _canon_grids(_grids(res))
    want = _canon_grids(truth)
    out = []
    if got != want:
        key = f"{fmt}.tables-differ"
        for k, alt in known:
            if got == _canon_grids(alt):
                key = k
                break
        out.append(_viol(key, f"{fmt}: iterate_tables() returned {_short(_grids(res), 250)}, the source tables are {_short(truth, 250)}", fmt, case))
    for t, w in zip(res, truth):
        dim = (len(w), max((len(r) for r in w), default=0))
        if t["dim"] != dim and got == want:
            out.append(_viol(f"{fmt}.get_dim", f"{fmt}: get_dim() = {t['dim']} for a {dim[0]} x {dim[1]} table", fmt, case))
    return out


def _canon_grids(gs):
    return [_canon_grid(g) for g in gs]


def oracle(fmt, case):
    """-> [Violation]; `case` is JSON-serialisable"""
    if fmt in c13_slide.FORMATS:
        return c13_slide.oracle(fmt, case)
    if fmt in ("docx", "odt"):
        doc = case["doc"]
        body = c13b.py_docx_body(doc) if fmt == "docx" else c13b.py_odt_body(doc)
        data = c13b.docx_package(body) if fmt == "docx" else c13b.odf_package("odt", body)
        return _check_tables(fmt, _read(fmt, data), blk_tables_doc(doc, fmt), case)
    if fmt == "odp":
        tables = case["tables"]
        elems = []
        for h, rows in zip(case["hdr"], tables):
            elems.append(c13b.py_odf_blk(["t", h, [[[["p", p] for p in cell] for cell in row] for row in rows]]))
        pages = [elems[:2], elems[2:]] if len(elems) > 2 else [elems]
        truth = [[[c13b.odf_cell_text(c) for c in row] for row in rows] for rows in tables]
        return _check_tables(fmt, _read("odp", c13b.odf_package("odp", c13b.odp_presentation(pages))), truth, case)
    if fmt == "pptx":
        tables = case["tables"]
        frames = [c13b.py_pptx_frame(t, y=1000 * i) for i, t in enumerate(tables)]
        slides = [frames[:2], frames[2:]] if len(frames) > 2 else [frames]
        truth = [[[c13b.pptx_cell_text(c) for c in row] for row in t] for t in tables]
        stripped = [[[x.strip() for x in row] for row in t] for t in truth]
        return _check_tables(fmt, _read("pptx", c13b.pptx_package(slides)), truth, case,
                             known=[("pptx.cell-outer-whitespace-stripped", stripped)])
    if fmt in ("html", "epub"):
        doc = case["doc"]
        truth = _html_truth(doc)
        bare = bool(case.get("bare"))
        if fmt == "html":
            page = c13b.py_html_doc(doc, bare=bare)
            if case.get("xml"):
                page = xml_form(page.decode("utf-8"), case["xml"]).encode("utf-8")
            return _check_tables(fmt, _read("html", page), truth, case)
        chapter = c13b.py_html_doc(doc, xhtml=True, bare=bare)
        if case.get("xml"):        # the chapter as an XML serializer writes it: empty elements as <t/>
            chapter = xml_form(chapter.decode("utf-8"), case["xml"]).encode("utf-8")
        res = _read("epub", c13b.epub_package([chapter]))
        vs = _check_tables(fmt, res, truth, case)
        for v in vs:
            if v.key == "epub.tables-differ":
                if has_nesting(doc):
                    v.key = "epub.nested-table-lost"
                elif not _single_fragment(doc):
                    v.key = "epub.cell-inline-markup-spaced"
        return vs
    if fmt == "xlsx":
        sheets = [[[_dec_v(v) for v in row] for row in g] for g in case["sheets"]]
        # "opts": written by hand (harness/builders/c13x.py), one option set per sheet; otherwise by openpyxl
        res = _read("xlsx", c13x.xlsx_package(sheets, case["opts"]) if case.get("opts") else build_xlsx(sheets))
        truth = [xlsx_truth(g) for g in sheets]
        dropped = [t[1:] if t and _is_name_row(t[0]) else t for t in truth]
        return _check_tables(fmt, res, truth, case, known=[("xlsx.single-value-first-row-dropped", dropped)])
    if fmt == "ods":
        sheets = [_dec_ods(r) for r in case["sheets"]]
        known = []
        if any(ods_wide_gap(r) for r in sheets):
            known = [("ods.empty-repeat-shifts-cells", [ods_truth(ods_capped_rows(r)) for r in sheets])]
        return _check_tables(fmt, _read("ods", build_ods(sheets)), [ods_truth(r) for r in sheets], case, known=known)
    if fmt == "xls":
        g = _dec_xls(case["grid"])
        sheets, book = _xls_read([g])
        sh = sheets[0]
        d = sh.get_dim()
        res = [{"table": sh.get_table(), "dim": (d.rows, d.columns)}]
        truth = xls_truth(g, book)
        hdrs = truth[0]
        vs = _check_tables(fmt, res, [truth], case)
        for v in vs:
            if v.key == "xls.tables-differ":
                if len(g) == 1:
                    v.key = "xls.header-only-sheet-empty"
                elif len(set(hdrs)) != len(hdrs):
                    v.key = "xls.duplicate-header-collision"
        return vs
    if fmt == "rtf":
        return c13_rtf.oracle(case, lambda data: _read("rtf", data), _check_tables)
    raise KeyError(fmt)


def gen_rtf_case(rng, adjacent=False):
    return c13_rtf.gen_rtf_case(rng, adjacent=adjacent)


def gen_case(rng, fmt, known_shapes=False):
    """a generated input for `oracle`; known_shapes=False avoids the shapes of the open known findings"""
    if fmt in c13_slide.FORMATS:
        return c13_slide.gen_case(rng, fmt, known_shapes)
    if fmt == "docx":
        return {"doc": gen_doc(rng, gen_docx_para)}
    if fmt == "odt":
        return {"doc": gen_doc(rng, gen_odf_para, allow_empty_cell=True)}
    if fmt == "odp":
        ts = [gen_blk(rng, gen_odf_para, 0, False, allow_empty_cell=False) for _ in range(rng.randint(1, 3))]
        return {"hdr": [t[1] for t in ts], "tables": [[[[x[1] for x in cell] for cell in row] for row in t[2]] for t in ts]}
    if fmt == "pptx":
        return {"tables": [gen_pptx_table(rng, trimmed=not known_shapes) for _ in range(rng.randint(1, 3))]}
    if fmt == "html":
        return {"doc": gen_doc(rng, gen_html_para, nest=True, allow_empty_cell=True), "bare": rng.random() < 0.5}
    if fmt == "epub":
        if known_shapes:
            return {"doc": gen_doc(rng, gen_html_para, nest=True), "bare": rng.random() < 0.5}
        return {"doc": gen_doc(rng, lambda r: gen_html_para(r, inline=False), nest=False, allow_empty_cell=True), "bare": rng.random() < 0.5,
                "xml": gen_xml_mode(rng)}
    if fmt == "xlsx":
        sheets = []
        for _ in range(rng.randint(1, 2)):
            g = gen_sheet(rng, name_row=(True if known_shapes and rng.random() < 0.5 else None))
            if not known_shapes:
                t = xlsx_truth(g)
                if t and _is_name_row(t[0]):
                    g[0] = [("h%d" % j) for j in range(len(g[0]))]
            sheets.append(g)
        if rng.random() < 0.6:
            sheets = [gen_hand_sheet(rng) if not known_shapes else [[v if not isinstance(v, datetime.timedelta) else str(v) for v in r] for r in g]
                      for g in sheets]
            return {"sheets": _enc_sheets(sheets), "opts": [c13x.gen_opts(rng) for _ in sheets]}
        return {"sheets": _enc_sheets(sheets)}
    if fmt == "ods":
        return {"sheets": [_enc_ods(gen_ods_sheet(rng, wide_gap_before_data=(None if known_shapes else False))) for _ in range(rng.randint(1, 2))]}
    if fmt == "xls":
        return {"grid": _enc_xls(gen_xls_sheet(rng, distinct=not known_shapes))}
    if fmt == "rtf":
        return gen_rtf_case(rng, adjacent=known_shapes)
    raise KeyError(fmt)


FORMATS = ["docx", "pptx", "odt", "odp", "html", "epub", "xlsx", "ods", "xls", "rtf"] + c13_slide.FORMATS


def _lattice(fmt):
    """deterministic first inputs of the failing-input search: the fixed table / sheet written once per optional member"""
    if fmt == "rtf":
        return [{"blocks": b} for b in c13_rtf.lattice_blocks() + c13_rtf.lattice_pairs()]
    if fmt == "xlsx":
        pairs = []
        ks = list(c13x.OPTIONS)
        for i, k1 in enumerate(ks):
            for k2 in ks[i + 1:]:
                for v1 in c13x.OPTIONS[k1]:
                    for v2 in c13x.OPTIONS[k2]:
                        if v1 != c13x.DEFAULT[k1] and v2 != c13x.DEFAULT[k2]:
                            pairs.append((XLSX_LATTICE_GRID, dict(c13x.DEFAULT, **{k1: v1, k2: v2})))
        return [{"sheets": _enc_sheets([g]), "opts": [o]} for g, o in _xlsx_lattice() + pairs]
    return []


def _case_from_broken(b):
    c = b.case or {}
    fmt = c.get("fmt")
    if fmt in c13_slide.FORMATS:
        return c13_slide.case_from_broken(c)
    if fmt in ("docx", "odt") and c.get("doc") is not None:
        return fmt, {"doc": c["doc"]}
    if fmt in ("html", "epub") and c.get("doc") is not None:
        return fmt, {"doc": c["doc"], "bare": c.get("bare", False), "xml": c.get("xml")}
    if fmt in ("odp", "pptx") and "tables" in c:
        return fmt, {k: c[k] for k in ("tables", "hdr") if k in c}
    if fmt == "xlsx" and "sheets" in c:
        return fmt, {k: c[k] for k in ("sheets", "opts") if c.get(k) is not None}
    if fmt == "xlsx-rows" and "rows" in c:
        # a row list on which model and code disagree, as a real file: the same values in a worksheet part without
        # <dimension> whose rows store no trailing empty cells
        g = _rows_to_sheet(c["rows"])
        g = [[v if not (isinstance(v, str) and v == "") else None for v in r] for r in g]
        return "xlsx", {"sheets": _enc_sheets([g]), "opts": [dict(c13x.DEFAULT)]}
    if fmt == "ods" and "rows" in c:
        return fmt, {"sheets": [c["rows"]]}
    if fmt == "xls" and "grid" in c:
        return fmt, {"grid": c["grid"]}
    if fmt == "rtf" and "blocks" in c:
        return fmt, {"blocks": c["blocks"]}
    if fmt == "rtf" and "raw" in c:
        return fmt, {k: c[k] for k in ("raw", "truth", "mechanism") if k in c}
    return None


def search(ctx, broken):
    found, keys = [], set()

    def add(vs):
        for v in vs:
            if v.key not in keys:
                keys.add(v.key)
                found.append(v)

    open_keys = _open_keys()

    def _in_known_region(b):
        # ODS cases inside the region of the open finding (or with degenerate 0 repeats) are tried last, so that the
        # reported failing input is, where one exists, a sheet on which the unchanged library is right
        c = b.case or {}
        if c.get("fmt") == "ods" and "rows" in c:
            rows = _dec_ods(c["rows"])
            return int(ods_wide_gap(rows) or any(rr == 0 for rr, _ in rows) or any(rep == 0 for _, cells in rows for rep, _ in cells))
        return 0

    murky = set()       # keys of violations seen only on inputs inside the region of the open ODS finding
    for b in sorted(broken, key=_in_known_region):
        fc = _case_from_broken(b)
        if fc:
            try:
                vs = oracle(*fc)
            except Exception:  # noqa: BLE001
                continue
            if _in_known_region(b):
                murky |= {v.key for v in vs if v.key not in keys and v.key not in open_keys}
            add(vs)
    if any(k not in open_keys for k in keys):
        if murky and all(k in murky or k in open_keys for k in keys):
            # prefer a failing sheet on which the unchanged library is right, if the generator finds one quickly
            for _ in range(ctx.n(300, 1500)):
                vs = [v for v in oracle("ods", gen_case(ctx.rng, "ods")) if v.key not in open_keys]
                if vs:
                    return vs[:1] + [v for v in found if v.key != vs[0].key]
        # a failing input has been found among the cases of the correspondence; where the fixed table / sheet of the
        # lattice fails too, report that one first (small, deterministic, one optional member off the default)
        for fmt in sorted({v.replay.get("fmt") for v in found if v.key not in open_keys} & {"rtf", "xlsx"}):
            for case in _lattice(fmt):
                try:
                    vs = [v for v in oracle(fmt, case) if v.key not in open_keys]
                except Exception:  # noqa: BLE001
                    continue
                if vs:
                    return vs[:1] + found
        return found
    # formats named by the broken obligations first, then all
    named = [f for f in FORMATS if any(f in (b.name or "") or (b.case or {}).get("fmt", "").startswith(f) for b in broken)]
    order = named + [f for f in FORMATS if f not in named]
    budget = ctx.n(150, 1500)
    for fmt in order:
        for case in _lattice(fmt):
            add(oracle(fmt, case))
        if any(k not in open_keys for k in keys):
            return found
        for i in range(budget if fmt in named or not named else budget // 5):
            add(oracle(fmt, gen_case(ctx.rng, fmt)))
            if any(k not in open_keys for k in keys):
                return found
    return found


def _open_keys():
    p = os.path.join(os.path.dirname(os.path.dirname(os.path.dirname(os.path.abspath(__file__)))), "known_findings.jsonl")
    out = set()
    with open(p) as fh:
        for line in fh:
            line = line.strip()
            if line and not line.startswith("#"):
                k = json.loads(line)
                if k.get("property") == "C13" and k.get("status", "open") == "open":
                    out.add(k["key"])
    return out


def replay(ctx, payload):
    rep = payload.get("replay", {})
    if "fmt" not in rep:
        return False, "replay names a broken obligation, not an input: " + payload.get("what", "")
    try:
        vs = oracle(rep["fmt"], rep["case"])
    except OdsBudgetExceeded as e:
        return False, f"not replayed (nothing was built or handed to the library): {e}"
    open_keys = _open_keys()
    if vs and all(v.key in open_keys for v in vs):
        return False, "fails as the open known finding " + ", ".join(sorted({v.key for v in vs})) + " only: " + "; ".join(v.what for v in vs)
    return (not vs), "; ".join(v.what for v in vs) or "property holds on the recorded input"


# ----------------------------------------------------------------------------- committed witnesses of open known findings
def _p(s):
    return ["p", [s]]


WITNESSES = {
    "epub.nested-table-lost": ("epub", {"doc": [["t", 0, [[[_p("A"), ["t", 0, [[[_p("x")], [_p("y")]]]]], [_p("B")]]]]]}),
    "epub.cell-inline-markup-spaced": ("epub", {"doc": [["t", 0, [[[["p", ["H", "2", "O"]]]]]]]}),
    "pptx.cell-outer-whitespace-stripped": ("pptx", {"tables": [[[[[["r", " a"]]], [[["r", "b"]], []]]]]}),
    "xlsx.single-value-first-row-dropped": ("xlsx", {"sheets": [[["Title", None], [1, 2]]]}),
    "xls.duplicate-header-collision": ("xls", {"grid": [[[1, "a"], [1, "a"]], [[2, 1.0], [2, 2.0]]]}),
    "xls.header-only-sheet-empty": ("xls", {"grid": [[[1, "a"], [1, "b"]]]}),
    "ods.empty-repeat-shifts-cells": ("ods", {"sheets": [[[1, [[1, "a"], [150, None], [1, "b"]]], [120, [[152, None]]], [1, [[1, "c"]]]]]}),
}
WITNESSES.update(c13_rtf.WITNESSES)
WITNESSES.update(c13_slide.WITNESSES)


def known_witnesses(ctx):
    out = []
    for key, (fmt, case) in WITNESSES.items():
        vs = oracle(fmt, case)
        hit = [v for v in vs if v.key == key]
        if hit:
            out.append(hit[0])
        else:
            ctx.notes.append(f"known finding {key}: the committed witness no longer fails as recorded ({[v.key for v in vs] or 'holds'}) - the entry can be closed")
            out += vs
    return out
