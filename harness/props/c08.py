"""C08 — encrypted input is rejected as encrypted, plain input never is.

correspondence: the real detectors / decisions (util/encryption.py, _DocReader._parse_content,
_extract_from_zip_optimized, _extract_from_7z_optimized, _is_epub_encrypted, read_pdf) against
S2T.Model.Encryption on generated containers.  The container facts the model takes as parameters
are obtained with third-party readers only (olefile, zipfile, defusedxml, pypdf) or are known by
construction (7z coder chains).

oracle (search / always-on subset): encrypted/plain PAIRS with ground truth by construction or by a
reference predicate written from the format specifications, run through the entry points
(direct extractor, sharepoint2text.read_file, CLI) — independent of the Lean model.
"""
from __future__ import annotations

import base64
import contextlib
import importlib
import io
import lzma
import os
import tempfile
import zipfile

import corpus
from builders import c08b as B
from run import Broken, Violation

GEN = ["Encryption", "Wrappers", "PdfCrypt", "Aes", "PyAes", "AesState"]
RULE = ("containers built by reference writers (OLE2, BIFF, ZIP with chosen flag bits / methods, 7z coder chains, ODF / EPUB "
        "packages, pypdf-written PDFs) as encrypted/plain pairs: one mechanism switched at a time (marker stream name x case, "
        "FILEPASS at every record index, FIB bit 8 among random flag words, flag bit 0 per member incl. hidden and directory "
        "members, AES coder in data folder / header folder at each position, encryption-data element x namespace spelling vs. "
        "marker text in names/attributes/comments, EncryptedData depth / rights.xml, RC4-40/128 AES-128/256 x (user, owner) password in "
        "{('', none), ('', ''), ('', set), (pw, set), (pw, = user), (pw, '')} so that decrypt('') reports each PasswordType outcome, "
        "the PDFs additionally read as one shuffled sequence in one process; V4 / V5 PDFs whose /Encrypt dictionary has every legal "
        "crypt-filter shape: filter name /StdCF | other | two filters, /StmF x /StrF in {RC4, AES, /Identity, absent}, /EFF, unused decoy "
        "filters named /StdCF with the other method, indirect /CF, stray /CF below V4 — each with the empty and a real user password, "
        "the data encrypted with exactly the declared methods; EVERY PDF verdict judged in a fresh interpreter as well; HOW the container is encrypted varied "
        "independently of THAT it is: encryption.xml entries drawn from real ciphers x font obfuscation in every order with key info / compression / nesting / prefix "
        "layouts, ODF encryption-data in 7 spellings, FILEPASS with every payload kind, ZIP members under ZipCrypto / strong encryption / WinZip AES / odd methods; "
        "empty-password PDFs with one page per unfiltered content-stream length 0..32, every residue mod 16, larger multiples of 16; the patched CryptAES on every "
        "object length 0..80) + re-wrapped fixtures + the protected fixtures + a malformed stream (truncated / bit-flipped / random). "
        "distinct = distinct (kind, container facts); non-trivial = the container parses far enough for the detector to look at it")
ASSUMPTIONS = [
    "olefile: bytes -> root directory entries and stream contents; exists() is case-insensitive on the entry name",
    "zipfile: central directory -> ZipInfo (flag_bits, is_dir, file_size); read() raises RuntimeError('password required') only for "
    "members whose flag bit 0 is set, NotImplementedError for unsupported methods / features, BadZipFile for CRC/magic errors",
    "defusedxml / ElementTree: bytes -> element tree; iter() / findall('.//t') enumerate elements / proper descendants",
    "pypdf: is_encrypted, decrypt('') result (a PasswordType member: NOT_DECRYPTED / USER_PASSWORD / OWNER_PASSWORD, owner tried first); "
    "its writer's encrypt(user, owner) (absent owner password := user password); RC4 / AES handling (AES primitive: C20)",
    "PDF verdicts are taken in this process after resetting pypdf's AES bindings AND, for every PDF with a truth claim, in a fresh "
    "interpreter (the replay command, entry points in rotating order); the two must agree",
    "pypdf runs on its fallback crypto provider (no `cryptography` / `pycryptodome` installed): otherwise AES is native and the "
    "provisioning model (S2T.Model.PdfCrypt) is vacuous",
    "the 7z container facts (coder ids per folder, header folder) are those the reference writer put in; parsing of the 7z header is C10/C12 territory",
    "consumers exhaust the generators (no throw()/close() at a yield)",
]
TRUSTED = ["reference writers in harness/builders/c08b.py (validated each run against olefile / zipfile)",
           "S2T.Model.Guard.guardify: reading of the translator's `if <call>:` encoding"]

_TOKEN = "TOKEN"


# ----------------------------------------------------------------------------- small helpers
def _lib():
    from sharepoint2text.parsing import exceptions as X
    return X


def _consume(fn, data: bytes, path):
    """(number of yields, exception | None)"""
    import signal

    def _al(s, f):
        raise corpus.Timeout()

    old = signal.signal(signal.SIGALRM, _al)
    signal.alarm(120)
    n = 0
    try:
        try:
            for _ in fn(io.BytesIO(data), path):
                n += 1
            return n, None
        except Exception as e:  # noqa
            return n, e
    finally:
        signal.alarm(0)
        signal.signal(signal.SIGALRM, old)


def _cls(e):
    X = _lib()
    if e is None:
        return "ok"
    if isinstance(e, X.ExtractionFileEncryptedError):
        return "encrypted"
    if isinstance(e, X.ExtractionError):
        return "family:" + type(e).__name__
    return "other:" + type(e).__name__


def _hex(b: bytes) -> str:
    return bytes(b).hex()


def _b64(b: bytes) -> str:
    return base64.b64encode(bytes(b)).decode()


def _extractor_for(ext: str):
    from sharepoint2text.parsing import router
    return router.get_extractor("case." + ext)


# ----------------------------------------------------------------------------- abstraction (third-party readers)
def abs_ole(data: bytes):
    """None = not an OLE file; else [{"name", "data": hex | None}] of the root entries. Raises on broken OLE."""
    import olefile
    if not olefile.isOleFile(io.BytesIO(data)):
        return None
    out = []
    with olefile.OleFileIO(io.BytesIO(data)) as ole:
        for kid in ole.root.kids:
            if kid.entry_type == olefile.STGTY_STREAM:
                out.append({"name": kid.name, "data": _hex(ole.openstream([kid.name]).read())})
            else:
                out.append({"name": kid.name, "data": None})
    return out


def _ascii_case_safe(name: str) -> bool:
    """model lower() is ASCII-only; olefile uses str.lower()"""
    return all(ord(c) < 128 or c.lower() == c for c in name)


def abs_xml(raw: bytes):
    from defusedxml import ElementTree as DET
    try:
        root = DET.fromstring(raw)
    except Exception:
        return None

    def conv(e):
        return {"t": e.tag if isinstance(e.tag, str) else "<non-element>", "a": [[str(k), str(v)] for k, v in e.attrib.items()],
                "x": (e.text or "").strip()[:200], "c": [conv(c) for c in e if isinstance(c.tag, str)]}

    return conv(root)


def abs_odf(data: bytes):
    if not zipfile.is_zipfile(io.BytesIO(data)):
        return {"isZip": False, "manifest": None}
    with zipfile.ZipFile(io.BytesIO(data)) as zf:
        try:
            raw = zf.read("META-INF/manifest.xml")
        except KeyError:
            return {"isZip": True, "manifest": None}
    return {"isZip": True, "manifest": {"text": raw.decode("utf-8", errors="ignore"), "tree": abs_xml(raw)}}


def abs_epub(data: bytes):
    with zipfile.ZipFile(io.BytesIO(data)) as zf:
        names = sorted(set(zf.namelist()))
        enc = None
        if "META-INF/encryption.xml" in names:
            try:
                enc = abs_xml(zf.read("META-INF/encryption.xml"))
            except Exception:
                enc = None
    return {"names": names, "enc": enc}


def abs_zip(data: bytes, path="a.zip"):
    """infolist facts; None when ZipFile refuses with BadZipFile; raises for anything else"""
    from sharepoint2text.parsing.extractors import archive_extractor as A
    try:
        zf = zipfile.ZipFile(io.BytesIO(data), "r")
    except zipfile.BadZipFile:
        return None
    infos = []
    with zf:
        for info in zf.infolist():
            d = {"dir": info.is_dir(), "flags": info.flag_bits, "skip": False, "large": False, "read": "data", "yields": 0}
            if not d["dir"]:
                base = os.path.basename(info.filename)
                d["skip"] = bool(A._should_skip_file(info.filename, base))
                d["large"] = info.file_size > A._config.max_memory_size
                try:
                    blob = zf.read(info)
                except NotImplementedError:
                    d["read"] = "notimpl"
                except RuntimeError:
                    d["read"] = "runtime"
                except zipfile.BadZipFile:
                    d["read"] = "badzip"
                except Exception:
                    d["read"] = "other"
                else:
                    if not d["skip"] and not d["large"] and not (info.flag_bits & 1):
                        d["yields"] = sum(1 for _ in A._process_archive_entry(info.filename, blob, path, base))
            infos.append(d)
    return infos


def abs_pdf(data: bytes):
    from pypdf import PdfReader
    r = PdfReader(io.BytesIO(data))
    if not r.is_encrypted:
        return {"isEnc": False, "dec": None}
    try:
        d = int(r.decrypt(""))
    except Exception:
        d = None
    return {"isEnc": True, "dec": d}


def _pdf_outcome_name(d):
    from pypdf._encryption import PasswordType
    if d is None:
        return "raised"
    try:
        return PasswordType(d).name
    except ValueError:
        return f"value-{d}"


# ----------------------------------------------------------------------------- reference predicates (from the specifications)
_SPEC_OLE = {"encryptioninfo", "encryptedpackage", "dataspaces"}
_SPEC_PPT = _SPEC_OLE | {"encryptedsummary", "encryptedsummaryinformation"}
_MANIFEST_NS = "urn:oasis:names:tc:opendocument:xmlns:manifest:1.0"
_XMLENC = "http://www.w3.org/2001/04/xmlenc#"


def ref_biff_has(records_bytes: bytes, rid: int) -> bool:
    off = 0
    while off + 4 <= len(records_bytes):
        i = records_bytes[off] | records_bytes[off + 1] << 8
        ln = records_bytes[off + 2] | records_bytes[off + 3] << 8
        if i == rid:
            return True
        off += 4 + ln
    return False


# ----------------------------------------------------------------------------- fixtures
def _fixture(rel):
    p = os.path.join(corpus.RES, rel)
    with open(p, "rb") as fh:
        return fh.read()


def _first_fixture(ext, exclude=("password_protected",), max_size=400_000):
    best = None
    for root, dirs, files in os.walk(corpus.RES):
        dirs.sort()
        if any(x in root for x in exclude):
            continue
        for fn in sorted(files):
            if fn.lower().endswith("." + ext):
                p = os.path.join(root, fn)
                sz = os.path.getsize(p)
                if 0 < sz <= max_size and (best is None or sz < best[0]):
                    best = (sz, p)
    if best is None:
        return None
    with open(best[1], "rb") as fh:
        return fh.read()


def _ole_streams(data: bytes):
    """[(path, bytes|None)] of every stream / storage of an OLE file (for re-wrapping with the reference writer)"""
    import olefile
    out = []
    with olefile.OleFileIO(io.BytesIO(data)) as ole:
        for st in ole.listdir(streams=False, storages=True):
            out.append(("/".join(st), None))
        for st in ole.listdir(streams=True, storages=False):
            out.append(("/".join(st), ole.openstream(st).read()))
    return out


def _protected_fixtures():
    out = []
    for root, dirs, files in os.walk(corpus.RES):
        dirs.sort()
        if "password_protected" in root:
            for fn in sorted(files):
                with open(os.path.join(root, fn), "rb") as fh:
                    out.append((fn, fn.rsplit(".", 1)[-1].lower(), fh.read()))
    return out


# ----------------------------------------------------------------------------- AES provider state
_AES_NAMES = ["aes_ecb_encrypt", "aes_ecb_decrypt", "aes_cbc_encrypt", "aes_cbc_decrypt", "CryptAES"]
_PRISTINE = None


def _pypdf_mods():
    import pypdf._crypt_providers as providers
    import pypdf._crypt_providers._fallback as fb
    import pypdf._encryption as enc
    return fb, providers, enc


def _snapshot_pristine():
    """remember pypdf's crypto bindings as they are before the library patched anything (first call wins)"""
    global _PRISTINE
    if _PRISTINE is None:
        fb, providers, enc = _pypdf_mods()
        _PRISTINE = ([(m, n, getattr(m, n)) for m in (fb, providers, enc) for n in _AES_NAMES if hasattr(m, n)],
                     {k: fb.CryptAES.__dict__.get(k) for k in ("__init__", "encrypt", "decrypt")})


def _reset_pypdf_aes():
    """put pypdf back into the state of a fresh process (the library patches AES into pypdf's fallback provider
    globally and on demand; every checked PDF call must see what a fresh process would see)"""
    _snapshot_pristine()
    fb, providers, enc = _pypdf_mods()
    for m, n, v in _PRISTINE[0]:
        setattr(m, n, v)
    for k, v in _PRISTINE[1].items():
        if v is not None:
            setattr(fb.CryptAES, k, v)


def _install_writer_aes():
    """bind the library's AES *primitives* (aes_ecb/cbc_*, the functions C20 is about) into pypdf directly — NOT through
    patch_pypdf_fallback_aes(), whose conditions / memory of earlier calls are under test here"""
    import secrets
    from sharepoint2text.parsing.extractors.pdf import _pypdf_aes_fallback as F
    fb, providers, enc = _pypdf_mods()
    for m in (fb, providers, enc):
        for n in ("aes_ecb_encrypt", "aes_ecb_decrypt", "aes_cbc_encrypt", "aes_cbc_decrypt"):
            if hasattr(m, n):
                setattr(m, n, getattr(F, n))

    def _init(self, key):
        self.key = key

    def _enc(self, data):
        iv = secrets.token_bytes(16)
        pad = 16 - len(data) % 16
        return iv + F.aes_cbc_encrypt(self.key, iv, data + bytes([pad]) * pad)

    def _dec(self, data):
        iv, payload = data[:16], data[16:]
        if not payload:
            return payload
        plain = F.aes_cbc_decrypt(self.key, iv, payload)
        return plain[:-plain[-1]]

    fb.CryptAES.__init__, fb.CryptAES.encrypt, fb.CryptAES.decrypt = _init, _enc, _dec


@contextlib.contextmanager
def _aes_for_writing():
    """pypdf's fallback provider cannot do AES; to *write* AES test PDFs an AES is bound into pypdf here and fully removed
    afterwards (pypdf is back in the state of a fresh process)."""
    _snapshot_pristine()
    _install_writer_aes()
    try:
        yield True
    finally:
        _reset_pypdf_aes()


# ----------------------------------------------------------------------------- case generation
class Case:
    """one generated input.  truth: "encrypted" | "plain" | None (no claim: malformed / ambiguous)"""

    def __init__(self, kind, ext, data, truth, key, why, facts=None):
        self.kind, self.ext, self.data, self.truth, self.key, self.why, self.facts = kind, ext, data, truth, key, why, facts

    def replay(self, entry="direct"):
        d = {"kind": self.kind, "ext": self.ext, "truth": self.truth, "key": self.key, "why": self.why, "entry": entry,
             "data_b64": _b64(self.data)}
        if self.facts and "original" in self.facts:
            d["facts"] = {"original": self.facts["original"]}
        if getattr(self, "entries", None):
            d["entries"] = list(self.entries)
        return d


def _case_variant(rng, s):
    return "".join(c.upper() if rng.random() < 0.5 else c.lower() for c in s)


def gen_ole_cases(ctx):
    """OLE containers for is_ooxml_encrypted / is_ppt_encrypted"""
    rng = ctx.rng
    cases = []
    docx = _first_fixture("docx") or B.zip_plain([("[Content_Types].xml", b"<Types/>")])
    pptx = _first_fixture("pptx")
    xlsx = _first_fixture("xlsx")
    benign = ["WordDocument", "1Table", "\x05SummaryInformation", "Workbook", "PowerPoint Document", "Current User",
              "\x06DataSpaces", "EncryptionInf", "EncryptionInfo2", "XEncryptedPackage", "Data Spaces", "Encrypted", "Summary"]
    markers = ["EncryptionInfo", "EncryptedPackage", "DataSpaces"]
    ppt_markers = ["EncryptedSummary", "EncryptedSummaryInformation"]
    # single-mechanism pairs, each marker alone, as stream and as storage, in several letter cases
    for ext, plain in (("docx", docx), ("pptx", pptx), ("xlsx", xlsx)):
        if plain is None:
            continue
        cases.append(Case("ooxml", ext, plain, "plain", f"ooxml.false-positive.{ext}-zip", "plain OOXML package (ZIP)"))
        for m in markers:
            for variant in {m, m.lower(), m.upper(), _case_variant(rng, m)}:
                for as_storage in (False, True):
                    ents = [(variant + "/x", b"1") if as_storage else (variant, bytes(rng.randrange(256) for _ in range(rng.choice([8, 200, 5000]))))]
                    ents += [(rng.choice(benign[:6]), b"junk")] if rng.random() < 0.5 else []
                    cases.append(Case("ooxml", ext, B.ole2(ents), "encrypted", f"ooxml.missed.{m}",
                                      f"OLE container with root entry {variant!r} ({'storage' if as_storage else 'stream'})"))
        # real layout: EncryptionInfo + EncryptedPackage + \x06DataSpaces storage
        cases.append(Case("ooxml", ext, B.ole2([("EncryptionInfo", b"\x04\x00\x04\x00" + b"\0" * 60), ("EncryptedPackage", os.urandom(0) + bytes(rng.randrange(256) for _ in range(4500))),
                                                  ("\x06DataSpaces/Version", b"v"), ("\x06DataSpaces/DataSpaceMap", b"m")]),
                          "encrypted", "ooxml.missed.real-layout", "agile/standard encryption layout"))
        # OLE containers without any marker: not "encrypted" (they fail for another reason)
        for _ in range(ctx.n(4, 30)):
            names = rng.sample(benign, rng.randint(1, 4))
            cases.append(Case("ooxml", ext, B.ole2([(n, b"d" * rng.choice([1, 70, 4100])) for n in names]), "plain",
                              "ooxml.false-positive.ole-without-marker", f"OLE container with entries {names!r}"))
    # PPT: re-wrapped fixture, +/- each marker
    ppt = _first_fixture("ppt")
    if ppt is not None:
        streams = _ole_streams(ppt)
        cases.append(Case("ppt", "ppt", B.ole2(streams), "plain", "ppt.false-positive.rewrapped-fixture", "fixture re-written with the reference OLE writer"))
        for m in markers + ppt_markers:
            for variant in {m, _case_variant(rng, m)}:
                cases.append(Case("ppt", "ppt", B.ole2(streams + [(variant, b"\0" * 32)]), "encrypted", f"ppt.missed.{m}",
                                  f"PPT fixture plus root stream {variant!r}"))
        for n in ("EncryptedSummaryInfo", "Encrypted Summary", "XEncryptedSummary"):
            cases.append(Case("ppt", "ppt", B.ole2(streams + [(n, b"\0" * 32)]), "plain", "ppt.false-positive.near-miss-name",
                              f"PPT fixture plus root stream {n!r}"))
    return cases


def _filepass_payloads(rng):
    """[(label, payload)] — every kind of FILEPASS record [MS-XLS] §2.4.117 knows: XOR obfuscation (wEncryptionType 0; BIFF5: key and
    verifier only), RC4 (type 1, version 1.1), RC4 CryptoAPI (type 1, version 2/3/4 . 2), and degenerate payloads.  A workbook with
    ANY of them cannot be read without the password (XOR "obfuscation" included: every cell record is scrambled)."""
    r = lambda k: bytes(rng.randrange(256) for _ in range(k))
    return [("xor-obfuscation", b"\x00\x00" + r(4)), ("biff5-xor", r(4)), ("rc4", bytes([1, 0, 1, 0, 1, 0]) + r(48)),
            ("rc4-cryptoapi-v2", bytes([1, 0, 2, 0, 2, 0]) + r(60)), ("rc4-cryptoapi-v4", bytes([1, 0, 4, 0, 2, 0]) + r(60)),
            ("empty", b""), ("zeros", bytes(6)), ("unknown-type", b"\x07\x00" + r(10))]


def _rand_records(rng, n, with_filepass_at=None, rid=0x2F):
    recs = [(0x0809, bytes([0, 6, 5, 0]) + bytes(12))]
    pool = [0x0042, 0x003D, 0x0022, 0x000E, 0x00FC, 0x003C, 0x0031, 0x002E, 0x0030, 0x012F, 0x2F00, 0x002F + 0x100]
    for i in range(n):
        ln = rng.choice([0, 0, 2, 4, 7, 30, 300, 8224])
        # payloads deliberately contain the bytes 2F 00 so that a misaligned scan would see them
        payload = bytes(rng.choice([0x2F, 0x00, rng.randrange(256)]) for _ in range(ln))
        recs.append((rng.choice(pool), payload))
    if with_filepass_at is not None:
        recs.insert(min(with_filepass_at, len(recs)), (rid, bytes(rng.randrange(256) for _ in range(rng.choice([6, 54, 0])))))
    if rng.random() < 0.6:     # otherwise the stream ends with whatever record came last (FILEPASS included)
        recs.append((0x000A, b""))
    return recs


def gen_xls_cases(ctx):
    rng = ctx.rng
    cases = []
    xls = _first_fixture("xls")
    streams = _ole_streams(xls) if xls else []
    wbname = next((p for p, d in streams if p.lower() in ("workbook", "book") and d is not None), None)
    if wbname:
        wb = dict(streams)[wbname]
        others = [(p, d) for p, d in streams if p != wbname]
        cases.append(Case("xls", "xls", B.ole2(streams), "plain", "xls.false-positive.rewrapped-fixture", "fixture re-written with the reference OLE writer"))
        # FILEPASS inserted at every record boundary of the first records and at random later ones
        offs, off = [], 0
        while off + 4 <= len(wb):
            offs.append(off)
            off += 4 + (wb[off + 2] | wb[off + 3] << 8)
        picks = offs[1:6] + rng.sample(offs, min(len(offs), ctx.n(6, 60))) + [offs[-1], off if off == len(wb) else offs[-1]]
        for o in sorted(set(picks)):
            fp = B.biff([(0x2F, bytes([1, 0, 1, 0, 1, 0]) + bytes(rng.randrange(256) for _ in range(48)))])
            cases.append(Case("xls", "xls", B.ole2(others + [(wbname, wb[:o] + fp + wb[o:])]), "encrypted", "xls.missed.filepass-position",
                              f"fixture workbook with FILEPASS inserted at stream offset {o} (record index {offs.index(o) if o in offs else len(offs)})"))
        # every KIND of FILEPASS payload right after BOF (where Excel writes it) and deep in the stream
        for label, payload in _filepass_payloads(rng):
            for o in (offs[1], rng.choice(offs[2:])):
                cases.append(Case("xls", "xls", B.ole2(others + [(wbname, wb[:o] + B.biff([(0x2F, payload)]) + wb[o:])]), "encrypted",
                                  f"xls.missed.filepass-kind.{label}", f"fixture workbook with a {label} FILEPASS record ({len(payload)} payload bytes) at offset {o}"))
    for label, payload in _filepass_payloads(rng):
        recs = [(0x0809, bytes([0, 6, 5, 0]) + bytes(12)), (0x2F, payload), (0x0042, b"\xb0\x04"), (0x000A, b"")]
        cases.append(Case("xls", "xls", B.ole2([("Workbook", B.biff(recs))]), "encrypted", f"xls.missed.filepass-kind.{label}",
                          f"BOF, {label} FILEPASS ({len(payload)} payload bytes), CODEPAGE, EOF"))
    # FILEPASS as the very last record, header only (the scan's boundary `offset + 4 <= len`)
    for pre in (0, 1, 5):
        recs = _rand_records(rng, pre)
        recs = [r for r in recs if r[0] not in (0x2F, 0x0A)] + [(0x2F, b"")]
        cases.append(Case("xls", "xls", B.ole2([("Workbook", B.biff(recs))]), "encrypted", "xls.missed.filepass-position",
                          f"Workbook stream ending with a payload-less FILEPASS header after {len(recs) - 1} records"))
    # synthetic record streams in Workbook / Book
    for _ in range(ctx.n(250, 3000)):
        n = rng.randint(0, 12)
        pos = rng.choice([None, None, rng.randint(0, n + 1)])
        recs = _rand_records(rng, n, pos)
        stream = B.biff(recs) + bytes(rng.randrange(256) for _ in range(rng.choice([0, 0, 1, 2, 3])))
        name = rng.choice(["Workbook", "Book", "WORKBOOK", "book", "wOrKbOoK"])
        ents = [(name, stream)]
        if rng.random() < 0.15:  # both present: Workbook wins
            ents = [("Workbook", stream), ("Book", B.biff(_rand_records(rng, 2, 0)))]
        truth = "encrypted" if any(r[0] == 0x2F for r in recs) else "plain"
        if len(ents) == 2 and truth == "plain":
            truth = None  # a second, ignored stream says otherwise: no claim
        cases.append(Case("xls", "xls", B.ole2(ents), truth, "xls.missed.filepass-position" if truth == "encrypted" else "xls.false-positive.synthetic-stream",
                          f"{name} stream with {len(recs)} records, FILEPASS at index {pos}"))
    return cases


def gen_doc_cases(ctx):
    rng = ctx.rng
    cases = []
    doc = _first_fixture("doc")
    if doc:
        streams = _ole_streams(doc)
        wd = dict(streams).get("WordDocument")
        if wd:
            others = [(p, d) for p, d in streams if p != "WordDocument"]
            cases.append(Case("doc", "doc", B.ole2(streams), "plain", "doc.false-positive.rewrapped-fixture", "fixture re-written with the reference OLE writer"))
            flags = wd[0x0A] | wd[0x0B] << 8
            for fl in {flags | 0x0100, (flags | 0x0100) ^ 0x8000, 0x0100, 0xFFFF}:
                w2 = wd[:0x0A] + bytes([fl & 0xFF, fl >> 8]) + wd[0x0C:]
                cases.append(Case("doc", "doc", B.ole2(others + [("WordDocument", w2)]), "encrypted", "doc.missed.fib-flag",
                                  f"fixture with FIB flags word {fl:#06x} (bit 8 set)"))
            for fl in {flags & ~0x0100, (flags & ~0x0100) ^ 0x0200, (flags & ~0x0100) ^ 0x0080, (flags & ~0x0100) | 0x8000, 0xFEFF, 0x0001}:
                w2 = wd[:0x0A] + bytes([fl & 0xFF, (fl >> 8) & 0xFF]) + wd[0x0C:]
                cases.append(Case("doc", "doc", B.ole2(others + [("WordDocument", w2)]), "plain", "doc.false-positive.other-flag-bits",
                                  f"fixture with FIB flags word {fl:#06x} (bit 8 clear)"))
    for _ in range(ctx.n(150, 1500)):
        size = rng.choice([0, 1, 11, 12, 100, 511, 512, 513, 600, 5000])
        magic = rng.choice([0xA5EC, 0xA5EC, 0xA5DC, 0xA5EB, 0xECA5, 0x0000])
        fl = rng.choice([0x0100, 0x0000, rng.randrange(65536), rng.randrange(65536) | 0x0100, rng.randrange(65536) & ~0x0100])
        body = bytearray(rng.randrange(256) for _ in range(size))
        if size >= 2:
            body[0:2] = magic.to_bytes(2, "little")
        if size >= 12:
            body[0x0A:0x0C] = fl.to_bytes(2, "little")
        ents = [("WordDocument", bytes(body))] if rng.random() < 0.92 else [("1Table", b"x")]
        cases.append(Case("doc", "doc", B.ole2(ents + [("1Table", b"\0" * 64)] if ents[0][0] != "1Table" else ents), None, "doc.synthetic-fib",
                          f"WordDocument size={size} magic={magic:#06x} flags={fl:#06x}"))
    return cases


_ZIP_NAMES = ["a.txt", "dir/b.md", "c.html", "d.csv", "e.json", ".hidden.txt", "__MACOSX/._a.txt", "sub/.DS_Store", "f.bin", "g.tsv",
              "deep/er/h.txt", "Thumbs.db", "i.xml"]


def _rand_zip(rng, force=None):
    """members spec + expected facts; force: None | "enc" | "plain" """
    k = rng.randint(1, 6)
    names = rng.sample(_ZIP_NAMES, k)
    members = []
    for n in names:
        m = {"name": n, "data": (f"{_TOKEN} {n} " * rng.randint(1, 30)).encode(), "deflate": rng.random() < 0.5}
        if rng.random() < 0.12:      # zero-length member (file_size 0): still a member, still carries flag bits
            m["data"], m["deflate"] = b"", False
        r = rng.random()
        if force != "enc" and r < 0.10:
            m["method"] = rng.choice([9, 1, 6, 14 if False else 19, 98])   # unsupported methods (deflate64, shrink, implode, LZ77, PPMd)
            m["deflate"] = False
        elif r < 0.16:
            m["flags"] = rng.choice([0x0800, 0x0008, 0x0002])             # harmless bits
        members.append(m)
    if rng.random() < 0.4:
        members.insert(rng.randint(0, len(members)), {"name": rng.choice(["d/", "dir/", "x/y/"]), "data": b"",
                                                      "flags": 1 if rng.random() < 0.5 else 0})
    enc_idx = None
    if force == "enc" or (force is None and rng.random() < 0.35):
        cands = [i for i, m in enumerate(members) if not m["name"].endswith("/")]
        empty = [i for i in cands if not members[i]["data"]]
        enc_idx = rng.choice(empty) if empty and rng.random() < 0.5 else rng.choice(cands)
        members[enc_idx]["flags"] = members[enc_idx].get("flags", 0) | 1 | rng.choice([0, 0x40, 0x08])
    return members, enc_idx


def gen_zip_cases(ctx):
    rng = ctx.rng
    cases = []
    # the flag bit on a member that has nothing to extract (zero length), alone and next to plain members, at each position
    for k in (0, 1, 3):
        for pos in range(k + 1):
            ms = [{"name": f"p{i}.txt", "data": f"{_TOKEN} plain {i}".encode()} for i in range(k)]
            ms.insert(pos, {"name": "empty.txt", "data": b"", "flags": 1})
            cases.append(Case("zip", "zip", B.zip_members(ms), "encrypted", "zip.missed.flag-bit0.empty-member",
                              f"{k} plain members and a zero-length member with flag bit 0 at index {pos}"))
            ms2 = [dict(m, flags=0) for m in ms]
            cases.append(Case("zip", "zip", B.zip_members(ms2), "plain", "zip.false-positive",
                              f"{k} plain members and a zero-length plain member at index {pos}"))
    # HOW the member is encrypted: traditional PKWARE (flag bit 0), strong encryption (bits 0 + 6), WinZip AES (bit 0, method 99),
    # encrypted + data descriptor, encrypted deflate / deflate64 / LZMA / PPMd — at each position among plain members
    for label, fl, meth, defl in (("zipcrypto-stored", 1, None, False), ("zipcrypto-deflate", 1, None, True), ("strong-encryption", 0x41, None, True),
                                  ("winzip-aes", 1, 99, False), ("data-descriptor", 0x09, None, False), ("deflate64", 1, 9, False),
                                  ("lzma", 1, 14, False), ("ppmd", 1, 98, False), ("utf8-name", 0x801, None, False), ("central-directory-encrypted", 0x2041, None, False)):
        for pos in range(3):
            ms = [{"name": f"p{i}.txt", "data": f"{_TOKEN} plain {i}".encode()} for i in range(2)]
            m = {"name": "secret.txt", "data": bytes(rng.randrange(256) for _ in range(40)), "flags": fl, "deflate": defl}
            if meth is not None:
                m["method"] = meth
            ms.insert(pos, m)
            cases.append(Case("zip", "zip", B.zip_members(ms), "encrypted", f"zip.missed.flag-bit0.{label}",
                              f"member {pos} of 3 encrypted ({label}: flags {fl:#x}, method {meth if meth is not None else ('deflate' if defl else 'stored')})"))
    for i in range(ctx.n(200, 2500)):
        members, enc_idx = _rand_zip(rng, force=("enc" if i % 3 == 0 else "plain" if i % 3 == 1 else None))
        data = B.zip_members(members)
        if rng.random() < 0.08:   # corrupt one stored byte -> bad CRC at read time
            st = [m for m in members if not m.get("deflate") and m.get("data") and "method" not in m and not m.get("flags", 0) & 1]
            if st:
                pos = data.find(st[0]["data"][:8])
                if pos > 0:
                    data = data[:pos] + bytes([data[pos] ^ 0xFF]) + data[pos + 1:]
        truth = "encrypted" if enc_idx is not None else "plain"
        why = "members " + ", ".join(f"{m['name']}[flags={m.get('flags', 0):#x}{',method=' + str(m['method']) if 'method' in m else ''}]" for m in members)
        if enc_idx is not None:
            nm = members[enc_idx]["name"]
            key = "zip.missed.flag-bit0" + (".hidden-member" if os.path.basename(nm).startswith(".") or "__MACOSX" in nm else
                                            ".empty-member" if not members[enc_idx]["data"] else "")
        else:
            key = "zip.false-positive" + (".unsupported-method" if any("method" in m for m in members) else ".dir-flag" if any(m["name"].endswith("/") and m.get("flags", 0) & 1 for m in members) else "")
        cases.append(Case("zip", "zip", data, truth, key, why))
    return cases


_SZ_COPY, _SZ_LZMA, _SZ_LZMA2, _SZ_BCJ, _SZ_AES = b"\x00", b"\x03\x01\x01", b"\x21", b"\x03\x03\x01\x03", B.AES_CODER


def _lzma_ok(hdr, header_bytes, unpacked_len=None):
    """model parameter `lzmaOk`: does the library's LZMA/LZMA2 decoder accept the bytes it is given when it is the
    first decoder applied to the stored header (coders are applied last-to-first)?  False when no LZMA coder is reached."""
    from sharepoint2text.parsing.extractors.util import sevenzip as S
    if not hdr or hdr[-1] not in (_SZ_LZMA, _SZ_LZMA2):
        return False
    rd = S.SevenZipReader.__new__(S.SevenZipReader)
    try:
        if hdr[-1] == _SZ_LZMA:
            rd._decompress_lzma(header_bytes, b"\x5d\0\0\x10\0", [len(header_bytes) if unpacked_len is None else unpacked_len])
        else:
            rd._decompress_lzma2(header_bytes, b"\x18")
        return True
    except S.Bad7zFile:
        return False


def gen_sz_cases(ctx):
    rng = ctx.rng
    cases = []
    aes_props = b"\x53\x07" + bytes(8) + bytes(8)
    aes_ids = [_SZ_AES, b"\x06\xf1\x07", b"\x06\xf1\x07\x01\x00", b"\x06\xf1\x07\x80"]
    near = [b"\x06\xf1", b"\x06\xf1\x08\x01", b"\x07\xf1\x07\x01", b"\x06\xf0\x07\x01", b"\xf1\x07\x01"]

    def files():
        return [(rng.choice(["a.txt", "b.md", "dir/c.txt"]), (f"{_TOKEN} seven " * rng.randint(1, 8)).encode())]

    def add(hdr, folders, truth, key, why, fs=None, **kw):
        fs = fs or files()
        info = {}
        data = B.sevenzip(fs, coders_per_folder=[[(c, aes_props if c[:3] == b"\x06\xf1\x07" else (b"\x5d\0\0\x10\0" if c == _SZ_LZMA else b"\x18" if c == _SZ_LZMA2 else None)) for c in f] for f in folders] if folders is not None else None,
                          encode_header=[(c, aes_props if c[:3] == b"\x06\xf1\x07" else (b"\x5d\0\0\x10\0" if c == _SZ_LZMA else b"\x18" if c == _SZ_LZMA2 else None)) for c in hdr] if hdr is not None else None,
                          out=info, **kw)
        facts = {"hdr": [c.hex() for c in hdr] if hdr is not None else None,
                 "folders": [[c.hex() for c in f] for f in (folders if folders is not None else [[_SZ_COPY]])],
                 "lzmaOk": _lzma_ok(hdr, info.get("stored_header", info.get("header", b"")), len(info.get("header", b"")))}
        cases.append(Case("7z", "7z", data, truth, key, why, facts))

    # PHYSICAL LAYOUT OF THE HEADER x WHERE THE AES CODER SITS.  `7z a -p<pw>` (without -mhe=on) writes the header as an
    # EncodedHeader that is only COMPRESSED (LZMA), the AES coder is in the data folders: the reader parses two streams
    # infos one after the other (the header's own folder, then the main one), so whatever it concludes / caches / stops at
    # while reading the first must not decide the second.  Every readable header wrapping x plain / AES data folders
    # (one folder, AES in each of several folders).
    def _raw_lzma1(h):
        return lzma.compress(h, format=lzma.FORMAT_RAW, filters=[{"id": lzma.FILTER_LZMA1, "lc": 3, "lp": 0, "pb": 2, "dict_size": 1 << 20}])

    def _raw_lzma2(h):
        return lzma.compress(h, format=lzma.FORMAT_RAW, filters=[{"id": lzma.FILTER_LZMA2, "dict_size": 1 << 20}])

    wrappings = [([_SZ_COPY], None, "copy-coded"), ([_SZ_LZMA], _raw_lzma1, "LZMA-compressed (7z default)"), ([_SZ_LZMA2], _raw_lzma2, "LZMA2-compressed"),
                 ([_SZ_COPY, _SZ_LZMA], _raw_lzma1, "[copy, LZMA]-coded"), ([_SZ_BCJ, _SZ_COPY], None, "[bcj, copy]-coded")]
    for hdr, pack, label in wrappings:
        add(hdr, None, "plain", "7z.false-positive.encoded-header", f"copy-coded data, header {label}, not encrypted", header_pack=pack)
        for a in (aes_ids if ctx.thorough else [_SZ_AES, rng.choice(aes_ids[1:])]):
            for chain in ([a], [rng.choice([_SZ_LZMA2, _SZ_LZMA, _SZ_BCJ]), a]):
                add(hdr, [chain], "encrypted", "7z.missed.aes-data-folder.encoded-header",
                    f"header {label} (readable), data folder coders {[c.hex() for c in chain]}", header_pack=pack)
        k = rng.choice([2, 3])
        many = [(f"m{i}.txt", (f"{_TOKEN} member {i} " * (i + 1)).encode()) for i in range(k)]
        add(hdr, [[_SZ_COPY]] * k, "plain", "7z.false-positive.encoded-header", f"{k} copy-coded folders, header {label}", fs=many, solid=False, header_pack=pack)
        for pos in range(k):
            folders = [[_SZ_COPY]] * k
            folders[pos] = [rng.choice([_SZ_LZMA2, _SZ_BCJ]), rng.choice(aes_ids)]
            add(hdr, folders, "encrypted", "7z.missed.aes-data-folder.encoded-header",
                f"header {label} (readable), {k} folders, AES chain in folder {pos}, copy elsewhere", fs=many, solid=False, header_pack=pack)

    add(None, None, "plain", "7z.false-positive.copy", "copy coder, plain header")
    add([_SZ_COPY], None, "plain", "7z.false-positive.encoded-header-copy", "copy coder, header wrapped in a copy-coded EncodedHeader")
    for a in aes_ids:
        add(None, [[a]], "encrypted", "7z.missed.aes-data-folder", f"data folder coder {a.hex()}")
        add(None, [[rng.choice([_SZ_LZMA2, _SZ_LZMA, _SZ_BCJ]), a]], "encrypted", "7z.missed.aes-data-folder", f"data folder coders [compress, {a.hex()}]")
        add(None, [[a, _SZ_LZMA2]], "encrypted", "7z.missed.aes-data-folder", f"data folder coders [{a.hex()}, lzma2]")
        add([a], None, "encrypted", "7z.missed.encrypted-header", f"EncodedHeader folder coder {a.hex()} (7z -mhe=on)")
        add([_SZ_COPY, a], None, "encrypted", "7z.missed.encrypted-header", f"EncodedHeader folder coders [copy, {a.hex()}]")
        add([_SZ_BCJ, a], [[_SZ_LZMA2, a]], "encrypted", "7z.missed.encrypted-header", "both header and data AES")
    # several folders (non-solid archive: one folder per member): the AES coder in ONE folder, at every folder position —
    # members before it are plain and would be returned if the archive were not rejected up front
    for k in (2, 3) + ((5,) if ctx.thorough else ()):
        many = [(f"m{i}.txt", (f"{_TOKEN} member {i} " * (i + 1)).encode()) for i in range(k)]
        add(None, [[_SZ_COPY]] * k, "plain", "7z.false-positive.copy", f"{k} copy-coded folders", fs=many, solid=False)
        for pos in range(k):
            for chain in ([_SZ_AES], [rng.choice([_SZ_LZMA2, _SZ_BCJ]), rng.choice(aes_ids)]):
                folders = [[_SZ_COPY]] * k
                folders[pos] = chain
                add(None, folders, "encrypted", "7z.missed.aes-data-folder.later-folder" if pos else "7z.missed.aes-data-folder",
                    f"{k} folders, coders {[c.hex() for c in chain]} in folder {pos}, copy elsewhere", fs=many, solid=False)
    for nr in near:
        add(None, [[nr]], "plain", "7z.false-positive.near-miss-coder-id", f"data folder coder {nr.hex()} (not the AES family)")
        add([nr], None, None, "7z.synthetic", f"header folder coder {nr.hex()}")
    add([_SZ_LZMA], None, None, "7z.synthetic", "header folder LZMA over non-LZMA bytes")
    add([_SZ_AES, _SZ_LZMA2], None, None, "7z.synthetic", "header folder [aes, lzma2]: lzma2 is applied first and fails")
    return cases


def _manifest_variants(rng, kind):
    """[(manifest bytes | None, truth, key, why, extra members)]"""
    out = []
    base = ["content.xml", "styles.xml", "meta.xml"]
    M = B.odf_manifest
    out.append((M(kind, base), "plain", "odf.false-positive.plain", "plain manifest", []))
    out.append((None, "plain", "odf.false-positive.no-manifest", "package without META-INF/manifest.xml", []))
    for prefix in ("manifest", "m", ""):
        out.append((M(kind, base, prefix=prefix, enc_for=["content.xml"]), "encrypted", "odf.missed.encryption-data-element",
                    f"content.xml entry carries encryption-data (prefix {prefix!r})", []))
        out.append((M(kind, base, prefix=prefix, enc_for=["styles.xml", "meta.xml"]), "encrypted", "odf.missed.encryption-data-element",
                    f"two entries carry encryption-data (prefix {prefix!r})", []))
    # HOW the member is encrypted (ODF 1.0 Blowfish, ODF 1.2 AES-256, ODF 1.3 OpenPGP / AES-GCM, a bare element, no checksum,
    # an algorithm nobody knows) must not matter: the package is encrypted all the same
    for style in B.ODF_ENC_STYLES:
        if style == "blowfish":
            continue
        for which in (["content.xml"], ["meta.xml"], ["content.xml", "styles.xml", "meta.xml"]):
            out.append((M(kind, base, enc_for=which, enc_style=style, prefix=rng.choice(["manifest", "m", ""])), "encrypted",
                        f"odf.missed.encryption-data-element.{style}", f"{which} carry encryption-data in the {style!r} spelling", []))
    for nm in ("Pictures/encryption-data.png", "encryption-data", "Object 1/manifest:algorithm.bin", "notes/manifest:encrypted.txt",
               "Pictures/my-encryption-data-chart.svg"):
        out.append((M(kind, base + [nm]), "plain", "odf.false-positive.member-name", f"plain package with a member named {nm!r}", [(nm, b"\x89PNG\r\n")]))
    out.append((M(kind, base, extra_attr=' manifest:comment="no encryption-data here"'), "plain", "odf.false-positive.attribute-value",
                "plain manifest with the marker text inside an attribute value", []))
    out.append((M(kind, base).replace(b"<manifest:manifest ", b"<!-- manifest:algorithm manifest:encrypted encryption-data --><manifest:manifest "),
                "plain", "odf.false-positive.comment", "plain manifest with the marker text inside a comment", []))
    out.append((M(kind, base, prefix="x", ns="urn:example:not-the-manifest-namespace", enc_for=["content.xml"]), None, "odf.synthetic",
                "encryption-data element in a foreign namespace", []))
    out.append((M(kind, base, enc_for=["content.xml"])[:-20], None, "odf.synthetic", "truncated (not well-formed) manifest with the marker text", []))
    out.append((M(kind, base)[:-20], None, "odf.synthetic", "truncated (not well-formed) manifest without marker text", []))
    out.append((bytes(rng.randrange(256) for _ in range(80)), None, "odf.synthetic", "random bytes as manifest", []))
    return out


def gen_odf_cases(ctx):
    rng = ctx.rng
    cases = []
    kinds = ["odt", "ods", "odp", "odg", "odf"]
    for kind in kinds:
        for man, truth, key, why, extra in _manifest_variants(rng, kind):
            cases.append(Case("odf", kind, B.odf_package(kind, _TOKEN, man, extra=extra), truth, key, f"{kind}: {why}"))
    cases.append(Case("odf", "odt", b"not a zip at all", None, "odf.synthetic", "not a ZIP"))
    # THE SAME MANIFEST, OTHER BYTES: every legal physical serialisation (UTF-16 either byte order / with and without declaration,
    # UTF-8 with BOM, no declaration, ISO-8859-1, US-ASCII, comments / PIs / line breaks) of encrypted and plain manifests — the
    # tree the parser builds is the same, the byte string has nothing in common with the UTF-8 one (no ASCII name occurs in it)
    M = B.odf_manifest
    base = ["content.xml", "styles.xml", "meta.xml"]
    for kind in (kinds if ctx.thorough else [kinds[ctx.seed % len(kinds)], kinds[(ctx.seed + 2) % len(kinds)]]):
        srcs = [(M(kind, base), "plain", "odf.false-positive.plain.serialisation", "plain manifest"),
                (M(kind, base + ["Pictures/encryption-data.png"]), "plain", "odf.false-positive.member-name.serialisation", "plain manifest listing 'Pictures/encryption-data.png'"),
                (M(kind, base, prefix=rng.choice(["manifest", "m", ""]), enc_for=["content.xml"]), "encrypted", "odf.missed.encryption-data-element.serialisation", "content.xml carries encryption-data"),
                (M(kind, base, enc_for=["styles.xml", "meta.xml"], enc_style=rng.choice(B.ODF_ENC_STYLES)), "encrypted", "odf.missed.encryption-data-element.serialisation", "two entries carry encryption-data")]
        for man, truth, key, why in srcs:
            for label, raw in B.xml_physical_variants(man):
                extra = [("Pictures/encryption-data.png", b"\x89PNG\r\n")] if "member-name" in key else []
                cases.append(Case("odf", kind, B.odf_package(kind, _TOKEN, raw, extra=extra), truth, key, f"{kind}: {why}; manifest serialised as {label}"))
    return cases


def gen_epub_cases(ctx):
    rng = ctx.rng
    cases = []
    E = B.epub_encryption_xml
    cases.append(Case("epub", "epub", B.epub_package(_TOKEN), "plain", "epub.false-positive.plain", "plain EPUB"))
    cases.append(Case("epub", "epub", B.epub_package(_TOKEN, encryption_xml=E(0)), "plain", "epub.false-positive.empty-encryption-xml", "encryption.xml without EncryptedData"))
    for n in (1, 3):
        for depth in (0, 1, 3):
            for prefix in ("enc", "", "e"):
                cases.append(Case("epub", "epub", B.epub_package(_TOKEN, encryption_xml=E(n, depth=depth, prefix=prefix)), "encrypted",
                                  "epub.missed.encrypted-data", f"encryption.xml with {n} EncryptedData at depth {depth + 1} (prefix {prefix!r})"))
    # WHAT the entries of encryption.xml say.  ground truth by construction: at least one resource is enciphered with a real
    # cipher (a key the reader does not have) => DRM-protected, whatever else the file declares — font-obfuscation entries
    # before / after / between, key information, compression properties, an unknown or absent EncryptionMethod.
    # encryption.xml with font-obfuscation entries ONLY: the fonts are mangled, the text is not — no claim either way
    # (the code counts it as DRM; see manifest note).
    real, font = B.EPUB_ALG_REAL, B.EPUB_ALG_FONT

    def ent(alg, i=0, **kw):
        d = {"alg": alg, "uri": f"OEBPS/fonts/f{i}.otf" if alg in font else ("OEBPS/c1.xhtml" if i == 0 else f"OEBPS/img{i}.jpg")}
        d.update(kw)
        return d

    def addx(entries, truth, key, why, **kw):
        cases.append(Case("epub", "epub", B.epub_package(_TOKEN, encryption_xml=B.epub_encryption_entries(entries, **kw)), truth, key, why))

    for a in real:
        addx([ent(a)], "encrypted", "epub.missed.encrypted-data.method", f"one EncryptedData, EncryptionMethod {a!r}")
    for f in font:
        addx([ent(f)], None, "epub.synthetic.font-obfuscation-only", f"font obfuscation only ({f})")
        for a in (real[0], rng.choice(real[1:])):
            for order, es in (("font first", [ent(f), ent(a)]), ("font last", [ent(a), ent(f, 1)]),
                              ("font between", [ent(a), ent(f, 1), ent(rng.choice(real), 2)])):
                addx(es, "encrypted", "epub.missed.encrypted-data.mixed-with-font-obfuscation",
                     f"DRM entries ({a!r}) and a font-obfuscation entry ({f}), {order}")
    addx([ent(font[0]), ent(font[1], 1), ent(real[0])], "encrypted", "epub.missed.encrypted-data.mixed-with-font-obfuscation",
         "both font-obfuscation methods and one AES entry")
    for _ in range(ctx.n(12, 120)):
        k = rng.randint(1, 5)
        es = [ent(rng.choice(real + font + font), i, keyinfo=rng.choice([None, "name", "key", "retrieval"]), compression=rng.random() < 0.3,
                  wrap=rng.random() < 0.15) for i in range(k)]
        any_real = any(e["alg"] not in font for e in es)
        pre, cpre = rng.choice([("enc", ""), ("", "ocf"), ("e", "c"), ("xenc", "")])
        addx(es, "encrypted" if any_real else None,
             "epub.missed.encrypted-data.mixed-with-font-obfuscation" if any_real and any(e["alg"] in font for e in es) else
             "epub.missed.encrypted-data.method" if any_real else "epub.synthetic.font-obfuscation-only",
             "encryption.xml entries " + ", ".join(f"[{e['alg']} key={e.get('keyinfo')}{' compressed' if e.get('compression') else ''}"
                                                   f"{' nested' if e.get('wrap') else ''}]" for e in es), prefix=pre, container_prefix=cpre)
    # the same encryption.xml in a package that ALSO has rights.xml / whose encryption.xml is a decoy outside META-INF
    addx([ent(font[0]), ent(real[0])], "encrypted", "epub.missed.encrypted-data.mixed-with-font-obfuscation", "font + AES, prefix-less EncryptedData",
         prefix="", container_prefix="c")
    cases.append(Case("epub", "epub", B.epub_package(_TOKEN, encryption_xml=B.epub_encryption_entries([ent(font[0])]), rights_xml=b"<rights/>"),
                      "encrypted", "epub.missed.rights-xml", "font-obfuscation-only encryption.xml next to META-INF/rights.xml"))
    cases.append(Case("epub", "epub", B.epub_package(_TOKEN, rights_xml=b"<rights/>"), "encrypted", "epub.missed.rights-xml", "META-INF/rights.xml present"))
    cases.append(Case("epub", "epub", B.epub_package(_TOKEN, rights_xml=b""), "encrypted", "epub.missed.rights-xml", "empty META-INF/rights.xml present"))
    cases.append(Case("epub", "epub", B.epub_package(_TOKEN, encryption_xml=E(0), rights_xml=b"<r/>"), "encrypted", "epub.missed.rights-xml", "rights.xml and empty encryption.xml"))
    cases.append(Case("epub", "epub", B.epub_package(_TOKEN, encryption_xml=E(1, ns="http://www.w3.org/2001/04/xmlenc")), "plain",
                      "epub.false-positive.other-namespace", "EncryptedData in a different namespace"))
    cases.append(Case("epub", "epub", B.epub_package(_TOKEN, encryption_xml=E(1, local="EncryptedKey")), "plain",
                      "epub.false-positive.other-element", "only EncryptedKey elements"))
    cases.append(Case("epub", "epub", B.epub_package(_TOKEN, extra=[("OEBPS/rights.xml", b"<r/>"), ("meta-inf/encryption.xml", E(1))]), "plain",
                      "epub.false-positive.other-path", "rights.xml / encryption.xml outside META-INF/"))
    cases.append(Case("epub", "epub", B.epub_package(_TOKEN, encryption_xml=E(1)[:-9]), None, "epub.synthetic", "encryption.xml not well-formed"))
    # the same encryption.xml, other bytes (see gen_odf_cases)
    for src, truth, key, why in ((E(0), "plain", "epub.false-positive.empty-encryption-xml.serialisation", "encryption.xml without EncryptedData"),
                                 (E(1, local="EncryptedKey"), "plain", "epub.false-positive.other-element.serialisation", "only EncryptedKey elements"),
                                 (E(2, depth=rng.choice([0, 1]), prefix=rng.choice(["enc", ""])), "encrypted", "epub.missed.encrypted-data.serialisation", "two EncryptedData"),
                                 (B.epub_encryption_entries([ent(font[0]), ent(rng.choice(real[:-1]), 1)]), "encrypted", "epub.missed.encrypted-data.serialisation", "font obfuscation + DRM entry")):
        for label, raw in B.xml_physical_variants(src):
            cases.append(Case("epub", "epub", B.epub_package(_TOKEN, encryption_xml=raw), truth, key, f"{why}; encryption.xml serialised as {label}"))
    one = f'<?xml version="1.0"?><enc:EncryptedData xmlns:enc="{B.XMLENC}"/>'.encode()
    cases.append(Case("epub", "epub", B.epub_package(_TOKEN, encryption_xml=one), None, "epub.synthetic", "EncryptedData is the root element itself"))
    return cases


# (user password, owner password) combinations.  The owner password decides WHICH outcome pypdf's decrypt('') reports for a
# file that the empty password opens: pypdf (like the specification's authentication order in qpdf / Acrobat) tries the owner
# password first, so user '' + owner '' (what `PdfWriter.encrypt("")` and `qpdf --encrypt "" ""` write: an absent owner password
# is replaced by the user password) reports OWNER_PASSWORD, user '' + another owner password reports USER_PASSWORD.
_PDF_OWNER_SECRET = "owner-secret"


def _pdf_password_combos(rng, alg, thorough):
    """[(user, owner, truth, key, why)]"""
    pw = rng.choice(["pw123", "x", "ü-pass"])
    out = [("", None, "plain", f"pdf.false-positive.empty-password.owner-empty.{alg}",
            f"{alg}, empty user password, no owner password (PdfWriter.encrypt(''): owner := user = '')"),
           ("", _PDF_OWNER_SECRET, "plain", f"pdf.false-positive.empty-password.{alg}", f"{alg}, empty user password, owner password set"),
           (pw, _PDF_OWNER_SECRET, "encrypted", f"pdf.missed.password.{alg}", f"{alg}, user password {pw!r}, owner password set")]
    if alg != "AES-256":            # R6 key derivation costs ~5 s per password check with the pure-python AES
        out += [("", "", "plain", f"pdf.false-positive.empty-password.owner-empty.{alg}", f"{alg}, empty user password, empty owner password"),
                (pw, None, "encrypted", f"pdf.missed.password.owner-equals-user.{alg}", f"{alg}, user password {pw!r} which is the owner password too"),
                # an empty owner password next to a real user password is "no owner password" for the writers: no claim
                (pw, "", None, "pdf.synthetic", f"{alg}, user password {pw!r}, owner password ''")]
    return out


def gen_pdf_cases(ctx):
    rng = ctx.rng
    cases = []
    texts = [[f"{_TOKEN} alpha (1)", f"second {_TOKEN} page"], [f"{_TOKEN} single"]]
    algs = ["RC4-40", "RC4-128", "AES-128", "AES-256-R5"] + (["AES-256"] if ctx.thorough else [])
    with _aes_for_writing():
        for ti, tx in enumerate(texts[: ctx.n(1, 2)]):
            # all variants of one original carry the original's permanent file identifier (/ID[0]), as encrypted /
            # re-saved copies of a real document do
            doc_id = bytes(rng.randrange(256) for _ in range(16))
            plain = B.pdf_plain(tx, doc_id)
            cases.append(Case("pdf", "pdf", plain, "plain", "pdf.false-positive.unencrypted", f"unencrypted {len(tx)}-page PDF", {"original": _b64(plain)}))
            for alg in algs:
                if alg == "AES-256" and ti > 0:
                    continue
                for user, owner, truth, key, why in _pdf_password_combos(rng, alg, ctx.thorough):
                    data = B.pdf_encrypt(plain, user, owner, alg, doc_id)
                    cases.append(Case("pdf", "pdf", data, truth, key, why, {"original": _b64(plain)} if truth == "plain" else None))
    return cases


# ---- crypt-filter dictionaries (PDF 32000-1 §7.6.5).  The name of a filter in /CF is free, /StmF /StrF /EFF select by name,
# /Identity is predefined and the default, /CF may hold filters nobody uses.  A library that decides anything by looking at a
# filter called /StdCF (what the common writers emit) is wrong on every other legal layout.
def _pdf_shapes(rng, thorough):
    """[(pypdf algorithm, shape, label)]: deterministic core + (quick: a sample of / thorough: all of) the product
    /StmF method x /StrF method x naming scheme for V4, the AES / Identity layouts for V5, stray /CF below V4"""
    other = rng.choice(["DocCF", "MyFilter", "CF1", "stdcf", "StdCF2", "Std", "X"])
    other2 = other + "b"

    def v4(stm, st, naming, eff=None, indirect=False):
        used = [m for m in (stm, st) if m in ("aes", "rc4")]
        names = {}
        if naming == "std":
            pool = ["StdCF", other]
        elif naming == "swap":
            pool = [other, "StdCF"]
        else:
            pool = [other, other2]
        for m in used:
            if m not in names:
                names[m] = pool[len(names)]
        cf = [(n, m) for m, n in names.items()]
        if naming == "decoy":      # an unused filter called /StdCF with the OTHER method, first in the dictionary
            cf.insert(0, ("StdCF", "rc4" if stm == "aes" or st == "aes" else "aes"))
        sh = {"cf": cf, "stmf": names.get(stm, stm), "strf": names.get(st, st)}
        if eff == "unused-aes":
            if "aes" not in names:
                sh["cf"] = sh["cf"] + [("EmbCF", "aes")]
                sh["eff"] = "EmbCF"
            else:
                sh["eff"] = names["aes"]
        if indirect:
            sh["indirect_cf"] = True
        return sh

    core = [
        ("AES-128", v4("aes", "aes", "other"), "aes/aes other-name"),
        ("AES-128", v4("aes", "aes", "std"), "aes/aes StdCF"),
        ("AES-128", v4("aes", "rc4", "swap"), "stm aes (other name) / str rc4 named StdCF"),
        ("AES-128", v4("rc4", "aes", "std"), "stm rc4 named StdCF / str aes (other name)"),
        ("AES-128", v4("Identity", "aes", "other"), "stm Identity / str aes"),
        ("AES-128", v4("aes", None, "other"), "stm aes / StrF absent"),
        ("AES-128", v4("aes", "aes", "decoy"), "aes/aes other-name + unused /StdCF rc4"),
        ("AES-128", v4("rc4", "rc4", "decoy"), "rc4/rc4 other-name + unused /StdCF aes"),
        ("AES-128", v4("rc4", "rc4", "std"), "V4 rc4/rc4 StdCF"),
        ("AES-128", v4("aes", "aes", "other", indirect=True), "aes/aes other-name, indirect /CF"),
        ("AES-128", v4("rc4", "rc4", "other", eff="unused-aes"), "rc4/rc4, /EFF aes"),
        ("AES-128", v4(None, None, "other"), "V4 without filters (all Identity)"),
        ("AES-256-R5", {"cf": [(other, "aes")], "stmf": other, "strf": other}, "V5 aes/aes other-name"),
        ("AES-256-R5", {"cf": [(other, "aes")], "stmf": "Identity", "strf": other}, "V5 stm Identity / str aes"),
        ("RC4-128", {"cf": [("StdCF", "aes")], "stray_cf": True}, "V2 with a stray /CF"),
        ("RC4-40", {"cf": [("StdCF", "aes")], "stray_cf": True}, "V1 with a stray /CF"),
    ]
    prod = []
    for stm in ("aes", "rc4", "Identity", None):
        for st in ("aes", "rc4", "Identity", None):
            for naming in ("std", "other", "swap", "decoy"):
                if naming == "swap" and len({m for m in (stm, st) if m in ("aes", "rc4")}) < 2:
                    continue
                for eff in (None, "unused-aes"):
                    prod.append(("AES-128", v4(stm, st, naming, eff=eff, indirect=rng.random() < 0.2),
                                 f"V4 stm={stm} str={st} naming={naming} eff={eff}"))
    for stm in ("aes", "Identity", None):
        for st in ("aes", "Identity", None):
            for name in ("StdCF", other):
                prod.append(("AES-256-R5", {"cf": [(name, "aes")] if "aes" in (stm, st) else [],
                                            "stmf": name if stm == "aes" else stm, "strf": name if st == "aes" else st},
                             f"V5 stm={stm} str={st} name={name}"))
    if not thorough:
        prod = rng.sample(prod, 10)
    else:
        prod.append(("AES-256", {"cf": [(other, "aes")], "stmf": other, "strf": other}, "V5/R6 aes/aes other-name"))
    return core + prod


def gen_pdf_shape_cases(ctx):
    rng = ctx.rng
    cases = []
    pw = rng.choice(["pw123", "x", "ü-pass"])
    with _aes_for_writing():
        doc_id = bytes(rng.randrange(256) for _ in range(16))
        plain = B.pdf_plain_with_strings([f"{_TOKEN} shaped (1)", f"second {_TOKEN} page"], doc_id)
        cases.append(Case("pdf", "pdf", plain, "plain", "pdf.false-positive.unencrypted", "unencrypted 2-page PDF with strings in the page dictionaries",
                          {"original": _b64(plain)}))
        seen = set()
        for alg, shape, label in _pdf_shapes(rng, ctx.thorough):
            fp = (alg, repr(sorted(shape.items())))
            if fp in seen:
                continue
            seen.add(fp)
            v = "V5" if alg.startswith("AES-256") else "V4" if alg == "AES-128" else "V1-2"
            for user, truth in (("", "plain"), (pw, "encrypted")):
                if alg == "AES-256" and user:
                    continue
                data = B.pdf_encrypt_shaped(plain, user, _PDF_OWNER_SECRET, alg, shape, doc_id)
                key = (f"pdf.false-positive.empty-password.crypt-filter-shape.{v}" if truth == "plain" else f"pdf.missed.password.crypt-filter-shape.{v}")
                why = (f"{alg} PDF, {'EMPTY' if not user else repr(user)} user password, /Encrypt with /CF {shape['cf']!r} /StmF {shape.get('stmf')!r} "
                       f"/StrF {shape.get('strf')!r} /EFF {shape.get('eff')!r}{' (indirect /CF)' if shape.get('indirect_cf') else ''} [{label}]")
                f = {"shape": shape, "alg": alg}
                if truth == "plain":
                    f["original"] = _b64(plain)
                cases.append(Case("pdf", "pdf", data, truth, key, why, f))
    return cases


# ---- object LENGTHS.  Every string / stream of an AES document goes through the CryptAES.decrypt the library patches into pypdf
# (IV split, CBC, PKCS#7 unpadding): a plaintext of 16k bytes carries a whole padding block, one shorter than a block sits in a
# single block, an empty one is padding only.  Glue that is right for "most" lengths corrupts exactly those objects, and only an
# UNCOMPRESSED stream shows it (zlib ignores trailing garbage).  One page per content-stream length: nothing, less than a block,
# one block, every residue mod 16 around 3 blocks, larger multiples — closed by a newline and closed by the operator itself.
_PDF_LENGTHS = [0, 1, 3, 15, 16, 17, 31, 32] + list(range(48, 64)) + [64, 80, 96, 112, 256]


def gen_pdf_length_cases(ctx):
    rng = ctx.rng
    cases = []
    algs = ["RC4-128", "AES-128", "AES-256-R5"] + (["AES-256"] if ctx.thorough else [])
    pw = rng.choice(["pw123", "x"])
    with _aes_for_writing():
        for tail, tl in ((b"\n", "newline-terminated"), (b"", "operator-terminated")):
            doc_id = bytes(rng.randrange(256) for _ in range(16))
            lengths = _PDF_LENGTHS if tail else [n for n in _PDF_LENGTHS if n >= 48]
            plain = B.pdf_plain_lengths(lengths, doc_id, tail=tail)
            cases.append(Case("pdf", "pdf", plain, "plain", "pdf.false-positive.unencrypted",
                              f"unencrypted PDF, {len(lengths)} pages with unfiltered content streams of {lengths} bytes ({tl})", {"original": _b64(plain)}))
            for alg in algs:
                if alg == "AES-256" and not tail:
                    continue
                data = B.pdf_encrypt(plain, "", _PDF_OWNER_SECRET, alg, doc_id)
                cases.append(Case("pdf", "pdf", data, "plain", f"pdf.false-positive.empty-password.content-length.{alg}",
                                  f"{alg}, EMPTY user password, {len(lengths)} pages whose unfiltered content streams are {lengths} bytes long ({tl})",
                                  {"original": _b64(plain)}))
            data = B.pdf_encrypt(plain, pw, _PDF_OWNER_SECRET, "AES-128", doc_id)
            cases.append(Case("pdf", "pdf", data, "encrypted", "pdf.missed.password.content-length.AES-128",
                              f"AES-128, user password {pw!r}, pages with unfiltered content streams of {lengths} bytes ({tl})"))
    return cases


def gen_fixture_cases(ctx):
    cases = []
    for fn, ext, data in _protected_fixtures():
        kind = {"docx": "ooxml", "xlsx": "ooxml", "pptx": "ooxml", "doc": "doc", "xls": "xls", "ppt": "ppt", "odt": "odf", "ods": "odf",
                "odp": "odf", "pdf": "pdf", "zip": "zip", "7z": "7z", "epub": "epub"}.get(ext)
        if kind:
            cases.append(Case(kind, ext, data, "encrypted", f"{kind}.missed.protected-fixture", f"fixture {fn}"))
    for ext, kind in (("docx", "ooxml"), ("xlsx", "ooxml"), ("pptx", "ooxml"), ("doc", "doc"), ("xls", "xls"), ("ppt", "ppt"), ("odt", "odf"),
                      ("ods", "odf"), ("odp", "odf"), ("pdf", "pdf"), ("zip", "zip"), ("7z", "7z"), ("epub", "epub")):
        d = _first_fixture(ext)
        if d is not None:
            cases.append(Case(kind, ext, d, "plain", f"{kind}.false-positive.plain-fixture", f"smallest unprotected .{ext} fixture"))
    return cases


def gen_malformed(ctx, cases):
    """container-level damage of generated inputs: no truth claim, correspondence only"""
    rng = ctx.rng
    out = []
    pool = [c for c in cases if c.kind in ("ooxml", "ppt", "xls", "doc", "zip", "odf", "epub") and len(c.data) < 200_000]
    for _ in range(ctx.n(300, 3000)):
        c = rng.choice(pool)
        d = bytearray(c.data)
        how = rng.choice(["truncate", "flip", "zero", "random"])
        if how == "truncate":
            d = d[: rng.randrange(len(d))]
        elif how == "flip":
            for _ in range(rng.choice([1, 1, 4, 16])):
                d[rng.randrange(len(d))] ^= 1 << rng.randrange(8)
        elif how == "zero":
            a = rng.randrange(len(d))
            d[a: a + rng.choice([4, 64, 512])] = bytes(min(len(d) - a, rng.choice([4, 64, 512])))
        else:
            d = bytearray(rng.randrange(256) for _ in range(rng.choice([0, 3, 64, 700])))
        out.append(Case(c.kind, c.ext, bytes(d), None, "malformed", f"{how} of: {c.why}"))
    return out


# ----------------------------------------------------------------------------- correspondence: model vs. real detectors
def _real_bool(fn, data):
    try:
        return "true" if fn(io.BytesIO(data)) else "false"
    except Exception as e:  # noqa
        return "raised:" + type(e).__name__


def _doc_real(data):
    from sharepoint2text.parsing.extractors.ms_legacy.doc_extractor import read_doc
    n, e = _consume(read_doc, data, "case.doc")
    c = _cls(e)
    if c == "encrypted":
        return "encrypted"
    cause = e
    msg = str(e) if e is not None else ""
    if "No WordDocument Stream" in msg:
        return "noStream"
    if "File too small" in msg:
        return "tooSmall"
    if "Not a valid .doc file" in msg:
        return "badMagic"
    return "proceed"


def _archive_real(fname, data, path):
    from sharepoint2text.parsing.extractors import archive_extractor as A
    X = _lib()
    fn = getattr(A, fname)
    n, e = _consume(fn, data, path)
    if e is None:
        return n, "done"
    if isinstance(e, X.ExtractionFileEncryptedError):
        return n, "encrypted"
    if isinstance(e, X.ExtractionFailedError):
        return n, "failed"
    return n, "other"


def _model_requests(case):
    """(request dict for the driver, real answer) or None when the container cannot be abstracted"""
    from sharepoint2text.parsing.extractors.util import encryption as E
    k = case.kind
    if k in ("ooxml", "ppt", "xls"):
        try:
            ole = abs_ole(case.data)
        except Exception:
            return None
        if ole is not None and not all(_ascii_case_safe(e["name"]) for e in ole):
            return None
        fn = {"ooxml": E.is_ooxml_encrypted, "ppt": E.is_ppt_encrypted, "xls": E.is_xls_encrypted}[k]
        real = _real_bool(fn, case.data)
        if real.startswith("raised:"):
            real = "openFailed" if k == "xls" and ole is not None else real
        return {"op": "c08.ole", "kind": k, "ole": ole}, {"ans": real}, (k, "not-ole" if ole is None else tuple(sorted((e["name"].lower(), e["data"] is None, (e["data"] or "")[:64]) for e in ole)))
    if k == "doc":
        try:
            ole = abs_ole(case.data)
        except Exception:
            return None
        if ole is None:
            return None
        wds = [e for e in ole if e["name"].lower() == "worddocument"]
        if wds and wds[0]["data"] is None:
            return None
        wd = wds[0]["data"] if wds else None
        return {"op": "c08.doc", "wd": wd}, {"ans": _doc_real(case.data)}, (k, None if wd is None else (len(wd), wd[:24]))
    if k == "zip":
        try:
            infos = abs_zip(case.data, "case.zip")
        except Exception:
            return None
        n, end = _archive_real("_extract_from_zip_optimized", case.data, "case.zip")
        return {"op": "c08.zip", "infos": infos}, {"yields": n, "end": end}, (k, None if infos is None else tuple((i["dir"], i["flags"], i["skip"], i["read"], i["yields"]) for i in infos))
    if k == "7z":
        if case.facts is None or "folders" not in case.facts:
            return None
        n, end = _archive_real("_extract_from_7z_optimized", case.data, "case.7z")
        # model `done` = "not stopped at the encryption checks; extraction proper starts" (it may still fail later)
        return dict({"op": "c08.sz"}, **case.facts), {"end": end}, (k, repr(case.facts)), (lambda o: o.get("end") == "done" and end in ("done", "failed"))
    if k == "odf":
        try:
            a = abs_odf(case.data)
        except Exception:
            return None
        real = _real_bool(E.is_odf_encrypted, case.data)
        if real.startswith("raised:"):
            return None
        return dict({"op": "c08.odf"}, **a), {"enc": real == "true"}, (k, repr(a)[:3000])
    if k == "epub":
        from sharepoint2text.parsing.extractors import epub_extractor as EP
        try:
            a = abs_epub(case.data)
            ctx_ = EP._EpubContext(io.BytesIO(case.data))
        except Exception:
            return None
        try:
            real = bool(EP._is_epub_encrypted(ctx_))
        finally:
            ctx_.close()
        realans = {"enc": real}
        if a["enc"] is not None:     # the abstraction itself: the Algorithm attributes the model reads are those ElementTree shows
            def _algs(n):
                return [v for k_, v in n["a"] if k_ == "Algorithm"] + [x for c_ in n["c"] for x in _algs(c_)]
            realans["algs"] = _algs(a["enc"])
        return dict({"op": "c08.epub"}, **a), realans, (k, repr(a)[:3000])
    if k == "pdf":
        from sharepoint2text.parsing.extractors.pdf.pdf_extractor import read_pdf
        _reset_pypdf_aes()
        if case.truth is not None:
            _note_pdf(case)
        n, e = _consume(read_pdf, case.data, "case.pdf")     # first: lets the library patch AES in by itself
        try:
            a = abs_pdf(case.data)
        except Exception:
            return None
        _PDF_OUTCOMES_SEEN.add("unencrypted" if not a["isEnc"] else _pdf_outcome_name(a["dec"]))
        return dict({"op": "c08.pdf"}, **a), {"rej": _cls(e) == "encrypted"}, (k, repr(a), len(case.data))
    return None


# ----------------------------------------------------------------------------- PDF: AES provisioning (S2T.Model.PdfCrypt)
def _aes_installed() -> bool:
    """does pypdf (as the process stands) have a working AES behind every entry point it holds?  Judged by behaviour
    (FIPS-197 vector / no DependencyError), not by the identity of the functions"""
    from pypdf.errors import DependencyError
    fb, providers, enc = _pypdf_mods()
    z16 = bytes(16)
    try:
        for m in (fb, providers, enc):
            if hasattr(m, "aes_ecb_encrypt") and m.aes_ecb_encrypt(z16, z16).hex() != "66e94bd4ef8a2c3b884cfa59ca342b2e":
                return False
            if hasattr(m, "aes_ecb_decrypt") and m.aes_ecb_decrypt(z16, bytes.fromhex("66e94bd4ef8a2c3b884cfa59ca342b2e")) != z16:
                return False
            if hasattr(m, "aes_cbc_encrypt"):
                m.aes_cbc_encrypt(z16, z16, z16)
            if hasattr(m, "aes_cbc_decrypt"):
                m.aes_cbc_decrypt(z16, z16, z16)
            if hasattr(m, "CryptAES"):
                c = m.CryptAES(z16)
                if c.decrypt(c.encrypt(b"probe")) != b"probe":
                    return False
    except DependencyError:
        return False
    return True


def _pypdf_alone(data: bytes):
    """pypdf WITHOUT the library (pristine fallback provider): 'ok' | 'dependency' (AES missing) | 'other:<type>'"""
    from pypdf import PdfReader
    from pypdf.errors import DependencyError
    _reset_pypdf_aes()
    try:
        r = PdfReader(io.BytesIO(data))
        if r.is_encrypted:
            r.decrypt("")
        for pg in r.pages:
            pg.extract_text()
        return "ok"
    except DependencyError:
        return "dependency"
    except Exception as e:  # noqa
        return "other:" + type(e).__name__


def _pdf_open_correspondence(ctx, pdfs):
    """model of `_open_pdf_reader` (generated guard / handler / binding facts) against the real function: for every generated
    PDF, in a process without and with AES already patched in — does it return, and is AES installed afterwards?  Plus the
    model's reading of the crypt-filter dictionary (which of stream / string method is AES) against pypdf on its own."""
    from pypdf.errors import DependencyError
    from sharepoint2text.parsing.extractors.pdf import _pypdf_aes_fallback as F
    from sharepoint2text.parsing.extractors.pdf import pdf_extractor as P
    broken, reqs, reals, metas = [], [], [], []
    seen = set()
    # the patch function itself, on pypdf as a fresh process has it: afterwards every AES entry point pypdf holds works
    _reset_pypdf_aes()
    F.patch_pypdf_fallback_aes()
    if not _aes_installed():
        broken.append(Broken("correspondence", "c08.pdfopen.patch", "patch_pypdf_fallback_aes() called on pristine pypdf bindings does not leave "
                                                                    "pypdf with a working AES behind every binding it holds"))
    for c in pdfs:
        if c.data in seen:
            continue
        seen.add(c.data)
        try:
            facts = B.pdf_crypt_facts(c.data)
        except Exception:
            ctx.count("pdfopen/not-abstractable")
            continue
        alone = _pypdf_alone(c.data) if c.truth == "plain" and facts is not None else None
        for state in (False, True):
            _reset_pypdf_aes()
            if state:
                _install_writer_aes()
            try:
                P._open_pdf_reader(io.BytesIO(c.data))
                ok = True
            except (DependencyError, NotImplementedError):
                ok = False
            except Exception:
                ctx.count("pdfopen/not-abstractable")
                continue
            real = {"ok": ok}
            if ok:
                real["aes"] = _aes_installed()
            if alone is not None and not state and not alone.startswith("other:"):
                real["_alone"] = alone
            reqs.append({"op": "c08.pdfopen", "doc": facts, "aes": state})
            reals.append(real)
            metas.append(c)
    _reset_pypdf_aes()
    outs = ctx.drive(reqs)
    bad = 0
    for c, req, real, o in zip(metas, reqs, reals, outs):
        ctx.case(("pdfopen", repr(req["doc"]), req["aes"]), nontrivial=req["doc"] is not None)
        ctx.count(f"pdfopen/{'unencrypted' if req['doc'] is None else 'V%d' % req['doc']['v']}/aes-before={req['aes']}/" + "/".join(f"{k}={v}" for k, v in sorted(real.items())))
        if "drv_error" in o:
            broken.append(Broken("correspondence", "driver", o["drv_error"], case=c.replay()))
            continue
        msgs = [f"{k}: impl={v} model={o.get(k)}" for k, v in real.items() if not k.startswith("_") and o.get(k) != v]
        if "_alone" in real:
            want = "dependency" if (o.get("stmAes") or o.get("strAes")) else "ok"
            if real["_alone"] != want:
                msgs.append(f"pypdf on its own (no AES): {real['_alone']}, model reads the dictionary as stmAes={o.get('stmAes')} strAes={o.get('strAes')}")
        if msgs:
            bad += 1
            if bad <= 6:
                broken.append(Broken("correspondence", "c08.pdfopen", "; ".join(msgs) + f" :: aes-before={req['aes']} :: {c.why}", case=c.replay()))
    ctx.coverage["pdfopen_mismatches"] = bad
    return broken


def _pdf_glue_correspondence(ctx):
    """the CryptAES pypdf ends up with after the library patched it, on objects of EVERY length: ciphertexts written by the harness
    (IV || CBC(PKCS#7(m)) with the AES primitives, PDF 32000-1 §7.6.2) must decrypt to m (spec), and as the Lean model of the glue
    (S2T.Aes.cryptAesDecrypt, driver op c20.crypt) says.  Lengths 0..80 and around 256; messages whose own tail looks like padding."""
    from sharepoint2text.parsing.extractors.pdf import _pypdf_aes_fallback as F
    rng = ctx.rng
    broken = []
    _reset_pypdf_aes()
    try:
        F.patch_pypdf_fallback_aes()
        fb, providers, enc = _pypdf_mods()
        cls = enc.CryptAES if hasattr(enc, "CryptAES") else fb.CryptAES
        msgs = []
        for n in list(range(0, 81)) + [255, 256, 257]:
            msgs.append(bytes(rng.randrange(256) for _ in range(n)))
            if n:
                k = rng.choice([1, 2, 15, 16, n % 16 or 16])
                msgs.append((bytes(rng.randrange(256) for _ in range(n)) + bytes([k]) * k)[-n:])      # pad-like tail
        reqs, gots = [], []
        for m in msgs:
            key = bytes(rng.randrange(256) for _ in range(rng.choice([16, 32])))
            iv = bytes(rng.randrange(256) for _ in range(16))
            pad = 16 - len(m) % 16
            c = iv + F.aes_cbc_encrypt(key, iv, m + bytes([pad]) * pad)
            try:
                got = bytes(cls(key).decrypt(c))
                ans = {"ok": list(got)}
            except Exception as e:  # noqa
                got, ans = None, {"err": type(e).__name__}
            ctx.case(("pdfglue", len(m), m[-1:].hex()))
            ctx.count(f"pdfglue/len%16={len(m) % 16}")
            if got != m and len(broken) < 3:
                broken.append(Broken("correspondence", "c08.pdfaes.glue",
                                     f"CryptAES.decrypt (as patched into pypdf) of IV || CBC(PKCS#7(m)) for a message of {len(m)} bytes gives "
                                     f"{'%d bytes ending in %s' % (len(got), got[-20:].hex()) if got is not None else ans} instead of m (tail {m[-8:].hex()})"))
            reqs.append({"op": "c20.crypt", "enc": False, "key": list(key), "data": list(c)})
            gots.append(ans)
        outs = ctx.drive(reqs)
        bad = [(r, g, o) for r, g, o in zip(reqs, gots, outs) if ("ok" in g) != ("ok" in o) or g.get("ok") != o.get("ok")]
        if bad:
            r, g, o = bad[0]
            broken.append(Broken("correspondence", "c08.pdfaes.glue-model",
                                 f"{len(bad)} of {len(reqs)} ciphertexts: CryptAES.decrypt and the Lean model of the glue disagree, first on a stored object of "
                                 f"{len(r['data'])} bytes: impl={str(g)[:120]} model={str(o)[:120]}"))
        ctx.coverage["pdf_glue_lengths"] = len(msgs)
    finally:
        _reset_pypdf_aes()
    return broken


# ---- every PDF verdict in a FRESH interpreter.  The library's AES support is a process-wide, sticky patch (and a change may add
# state of its own that `_reset_pypdf_aes` knows nothing about), so a verdict taken in this long-lived process — after dozens of
# other PDFs — is evidence only if a fresh process gives the same one.
_ENTRY_ORDERS = [["direct", "read_file", "cli"], ["read_file", "cli", "direct"], ["cli", "direct", "read_file"]]


def _fresh_replays_parallel(reps, workers=4):
    """[True | False | None] per replay payload, `workers` interpreters at a time"""
    from concurrent.futures import ThreadPoolExecutor
    with ThreadPoolExecutor(max_workers=workers) as ex:
        return list(ex.map(_fresh_replay, reps))


def _pdf_fresh_oracle(ctx, pdfs, inprocess_failed_keys=()):
    """the property statement on every claimed PDF, each in its own interpreter (all three entry points, the first one —
    the one that meets the untouched process — rotating over the cases)"""
    out, todo, seen = [], [], set()
    for c in pdfs:
        if c.truth is None or c.data in seen:
            continue
        if ".AES-256" in c.key + "." and not c.key.endswith("AES-256-R5") and not ctx.thorough:
            continue
        seen.add(c.data)
        c.entries = _ENTRY_ORDERS[len(todo) % 3]
        todo.append(c)
    res = _fresh_replays_parallel([c.replay(c.entries[0]) for c in todo])
    keys = set()
    for c, r in zip(todo, res):
        ctx.count(f"oracle/fresh-process/{c.truth}/{'holds' if r else 'FAILS' if r is False else 'no-answer'}")
        if r is False and c.key not in keys:
            keys.add(c.key)
            out.append(Violation(c.key, f"in a fresh interpreter (entry points in the order {c.entries}) the property fails on this input although "
                                        f"{'it also fails' if c.key in inprocess_failed_keys else 'it holds'} in the long-lived checking process — input: {c.why}",
                                 c.replay(c.entries[0])))
    ctx.coverage["pdf_fresh_process_verdicts"] = len(todo)
    return out


_PDF_OUTCOMES_SEEN = set()


def _pdf_outcome_coverage(ctx):
    """closed-world check of the generator itself: every outcome pypdf's decrypt('') can report (the PasswordType
    inventory the Lean theorem C08_pdf_password_types quantifies over) was produced by a generated PDF in this run"""
    from pypdf._encryption import PasswordType
    want = {m.name for m in PasswordType} | {"unencrypted"}
    missing = sorted(want - _PDF_OUTCOMES_SEEN)
    ctx.coverage["pdf_decrypt_outcomes"] = sorted(_PDF_OUTCOMES_SEEN)
    if missing:
        return [Broken("correspondence", "c08.pdf.outcome-coverage",
                       f"no generated PDF makes decrypt('') report {missing} (generated: {sorted(_PDF_OUTCOMES_SEEN)})")]
    return []


def _validate_builders():
    """the reference writers against third-party readers (not against the library)"""
    import olefile
    broken = []
    blob = B.ole2([("A", b"a" * 10), ("Big", b"b" * 9000), ("St/Inner", b"c" * 100), ("St/Deep/Er", b"d" * 4096)])
    try:
        with olefile.OleFileIO(io.BytesIO(blob)) as ole:
            got = {"/".join(p): ole.openstream(p).read() for p in ole.listdir()}
        if got != {"A": b"a" * 10, "Big": b"b" * 9000, "St/Inner": b"c" * 100, "St/Deep/Er": b"d" * 4096}:
            broken.append(Broken("correspondence", "builder:ole2", "olefile reads back different streams"))
    except Exception as e:
        broken.append(Broken("correspondence", "builder:ole2", repr(e)))
    z = B.zip_members([{"name": "a.txt", "data": b"x", "flags": 1}, {"name": "d/", "data": b""}, {"name": "b", "data": b"yy", "method": 9}])
    with zipfile.ZipFile(io.BytesIO(z)) as zf:
        il = zf.infolist()
        if [(i.filename, i.flag_bits & 1, i.compress_type) for i in il] != [("a.txt", 1, 0), ("d/", 0, 0), ("b", 0, 9)]:
            broken.append(Broken("correspondence", "builder:zip", "zipfile sees other flags / methods"))
    # every physical variant of an XML description is the SAME document for the XML parser (expat via xml.etree, no library code)
    import xml.etree.ElementTree as PET

    def canon(e):
        return (e.tag, sorted(e.attrib.items()), (e.text or "").strip(), [canon(c) for c in e])

    for src in (B.odf_manifest("odt", ["content.xml", "a b.xml"], enc_for=["content.xml"]), B.epub_encryption_xml(2, depth=1)):
        want = canon(PET.fromstring(src))
        for label, raw in B.xml_physical_variants(src):
            try:
                if canon(PET.fromstring(raw)) != want:
                    broken.append(Broken("correspondence", "builder:xml-variant", f"{label}: parses to another tree"))
            except Exception as e:
                broken.append(Broken("correspondence", "builder:xml-variant", f"{label}: {e!r}"))
            if raw == src:
                broken.append(Broken("correspondence", "builder:xml-variant", f"{label}: identical bytes"))
    return broken


def _all_cases(ctx):
    cases = []
    for g in (gen_fixture_cases, gen_ole_cases, gen_xls_cases, gen_doc_cases, gen_zip_cases, gen_sz_cases, gen_odf_cases, gen_epub_cases, gen_pdf_cases, gen_pdf_shape_cases, gen_pdf_length_cases):
        cases += g(ctx)
    return cases


def correspondence(ctx):
    broken = _validate_builders()
    violations = []
    cases = _all_cases(ctx)
    cases += gen_malformed(ctx, cases)
    reqs, reals, metas, accept = [], [], [], []
    for c in cases:
        try:
            r = _model_requests(c)
        except corpus.Timeout:
            r = None
        if r is None:
            ctx.count(f"{c.kind}/not-abstractable")
            continue
        req, real, fp = r[:3]
        accept.append(r[3] if len(r) > 3 else None)
        reqs.append(req)
        reals.append(real)
        metas.append((c, fp))
    outs = ctx.drive(reqs)
    bad = 0
    for (c, fp), real, o, acc in zip(metas, reals, outs, accept):
        nontrivial = not (fp[1] in (None, "not-ole"))
        ctx.case(fp, nontrivial=nontrivial)
        ctx.count(f"{c.kind}/{c.truth or 'no-claim'}/" + "/".join(f"{k}={v}" for k, v in sorted(real.items()) if k != "yields"))
        if "drv_error" in o:
            broken.append(Broken("correspondence", "driver", o["drv_error"], case=c.replay()))
            continue
        if any(o.get(k) != v for k, v in real.items()) and not (acc and acc(o)):
            bad += 1
            if bad <= 12:
                broken.append(Broken("correspondence", "c08." + c.kind, f"impl={real} model={o} :: {c.why}", case=c.replay()))
    for i in (0, len(metas) // 3, 2 * len(metas) // 3):
        if metas:
            ctx.sample({"kind": metas[i][0].kind, "why": metas[i][0].why[:160], "impl": reals[i], "model": outs[i]})
    ctx.coverage["mismatches"] = bad
    broken += _pdf_outcome_coverage(ctx)
    # the property statement itself on the real code, for the structured pairs (cheap entry points here; all of them in `search`)
    claimed = [c for c in cases if c.truth is not None]
    violations += _oracle(ctx, claimed, entries=("direct",), cli_every=0)
    sub = [c for i, c in enumerate(claimed) if i % ctx.n(6, 2) == 0 or "fixture" in c.key]
    violations += _oracle(ctx, sub, entries=("read_file",), cli_every=ctx.n(5, 2))
    violations += _pdf_sequence_oracle(ctx, [c for c in claimed if c.kind == "pdf"])
    broken += _pdf_open_correspondence(ctx, [c for c in cases if c.kind == "pdf" and c.key != "malformed"])
    broken += _pdf_glue_correspondence(ctx)
    failed = {v.key for v in violations}
    violations += [v for v in _pdf_fresh_oracle(ctx, [c for c in claimed if c.kind == "pdf"], failed) if v.key not in failed]
    return {"broken": broken, "violations": violations}


# ----------------------------------------------------------------------------- oracle: the property statement on the real code
def _pdf_texts(results):
    return [[p.text for p in r.pages] for r in results]


def _collect(fn, data, path):
    res = []
    try:
        for r in fn(io.BytesIO(data), path):
            res.append(r)
        return res, None
    except Exception as e:  # noqa
        return res, e


def _cli_once(argv):
    from sharepoint2text import cli
    out, err = io.StringIO(), io.StringIO()
    with contextlib.redirect_stdout(out), contextlib.redirect_stderr(err):
        try:
            rc = cli.main(argv)
        except SystemExit as e:
            rc = f"SystemExit:{e.code}"
        except BaseException as e:  # noqa
            rc = f"RAISED:{type(e).__name__}"
    return rc, out.getvalue(), err.getvalue()


# ---- process history of the PDF path.  The library keeps state between calls (pypdf bindings it patches, whatever a change
# adds); this process resets only what it knows about (_reset_pypdf_aes).  So a PDF verdict observed here may depend on the
# PDFs read before: every failing PDF case is re-judged in a FRESH interpreter (the replay command), alone and after the
# recorded history, and reported with the replay that actually fails there.
_PDF_HISTORY: list = []
_PDF_HISTORY_SEEN: set = set()


def _note_pdf(c):
    import hashlib
    h = hashlib.blake2b(c.data, digest_size=12).digest()
    if h not in _PDF_HISTORY_SEEN:
        _PDF_HISTORY_SEEN.add(h)
        _PDF_HISTORY.append(c)


def _fresh_replay(rep: dict):
    """run `run.py C08 --replay` on the payload in a new interpreter: True = holds, False = fails, None = no answer"""
    import json
    import subprocess
    import sys
    import run as R
    with tempfile.TemporaryDirectory(prefix="s2t_c08_") as td:
        fn = os.path.join(td, "replay.json")
        with open(fn, "w") as fh:
            json.dump({"property": "C08", "replay": rep}, fh)
        try:
            p = subprocess.run([sys.executable, os.path.join(R.HERE, "run.py"), "C08", "--replay", fn], capture_output=True, text=True,
                               timeout=600, env=dict(os.environ, S2T_REPO=R.REPO))
        except subprocess.TimeoutExpired:
            return None
    if p.stdout.startswith("REPLAY-HOLDS"):
        return True
    if p.stdout.startswith("REPLAY-FAILS"):
        return False
    return None


def _seq_replay(steps, entry):
    return {"kind": "pdf-sequence", "key": steps[-1].key, "entry": entry, "steps": [x.replay(entry) for x in steps]}


def _explain_pdf_failure(c: Case, entry: str, msg: str, history=None) -> Violation:
    """the violation to report for a PDF case that failed in this process, with a replay that fails in a fresh one"""
    single = Violation(c.key, f"{msg} — input: {c.why}", c.replay(entry))
    if _fresh_replay(c.replay(entry)) is False:
        return single
    hist = [h for h in (list(_PDF_HISTORY) if history is None else history) if h.data != c.data]
    key = "pdf.history-dependent." + c.key.split(".", 1)[1]
    if hist and _fresh_replay(_seq_replay(hist + [c], entry)) is False:
        steps = hist + [c]
        for h in list(reversed(hist))[:16]:                  # is one predecessor enough?
            if _fresh_replay(_seq_replay([h, c], entry)) is False:
                steps = [h, c]
                break
        return Violation(key, f"{msg} — only after the process has read {len(steps) - 1} other PDF(s) (last: {steps[-2].why}); "
                              f"alone, in a fresh process, the same input is handled correctly; input: {c.why}", _seq_replay(steps, entry))
    # not reproducible in a fresh interpreter from what was recorded: say so, keep the observation
    return Violation(key, f"{msg} — observed in the checking process only (not reproduced in a fresh interpreter, neither alone nor "
                          f"after the {len(hist)} PDFs read before); input: {c.why}", _seq_replay(hist + [c], entry))


def _check_case(c: Case, entry: str, td: str, fresh: bool = True):
    """None when the property holds for this case through this entry point, else a message.
    fresh=False: keep the process state (pypdf AES bindings) earlier calls left behind"""
    import sharepoint2text
    X = _lib()
    path = os.path.join(td, "case." + c.ext)
    if c.kind == "pdf":
        _note_pdf(c)
        if fresh:
            _reset_pypdf_aes()
    if entry == "direct":
        res, e = _collect(_extractor_for(c.ext), c.data, "case." + c.ext)
    else:
        with open(path, "wb") as fh:
            fh.write(c.data)
        if entry == "read_file":
            res, e = [], None
            try:
                for r in sharepoint2text.read_file(path):
                    res.append(r)
            except Exception as ex:  # noqa
                e = ex
        else:  # cli
            rc, out, err = _cli_once([path])
            if c.truth == "encrypted":
                if rc != 1 or out != "":
                    return f"CLI on an encrypted input: exit {rc}, {len(out)} chars on stdout (wanted exit 1, empty stdout)"
                low = err.lower()
                if not ("encrypted" in low or "password" in low or "drm" in low):
                    return f"CLI on an encrypted input does not report it as encrypted: {err.strip()[:120]!r}"
            else:
                low = err.lower()
                if rc != 0 and ("is encrypted" in low or "password-protected" in low or "drm-protected" in low):
                    return f"CLI rejects a plain input as encrypted: {err.strip()[:120]!r}"
            return None
    enc = isinstance(e, X.ExtractionFileEncryptedError)
    if c.truth == "encrypted":
        if not enc:
            got = f"{len(res)} result(s)" if e is None else f"{type(e).__name__}: {str(e)[:100]}"
            return f"encrypted input not rejected with ExtractionFileEncryptedError via {entry}: got {got}"
        if res:
            return f"{len(res)} result(s) were returned before the encrypted error via {entry}"
    else:
        if enc:
            return f"plain input rejected as encrypted via {entry}: {str(e)[:100]}"
        if c.kind == "pdf" and c.facts and "original" in c.facts and c.key.startswith("pdf.false-positive.empty-password"):
            from sharepoint2text.parsing.extractors.pdf.pdf_extractor import read_pdf
            odata = base64.b64decode(c.facts["original"])
            _note_pdf(Case("pdf", "pdf", odata, "plain", "pdf.false-positive.unencrypted", "unencrypted original", {"original": c.facts["original"]}))
            orig, e0 = _collect(read_pdf, odata, "case.pdf")
            if e is not None or e0 is not None:
                return f"empty-password PDF does not extract ({type(e).__name__ if e else None}) although the original does ({type(e0).__name__ if e0 else 'ok'})"
            if _pdf_texts(res) != _pdf_texts(orig):
                a, b = _pdf_texts(res), _pdf_texts(orig)
                if len(a) == len(b) == 1 and len(a[0]) == len(b[0]) > 2:
                    diff = [i for i, (x, y) in enumerate(zip(a[0], b[0])) if x != y]
                    return (f"empty-password PDF extracts other text than its unencrypted original on page(s) {[i + 1 for i in diff][:20]} of {len(b[0])}: "
                            f"page {diff[0] + 1} gives {a[0][diff[0]][:80]!r}, the original {b[0][diff[0]][:80]!r}")
                return f"empty-password PDF extracts {a!r}, its unencrypted original {b!r}"
            if [[p.tables for p in r.pages] for r in res] != [[p.tables for p in r.pages] for r in orig]:
                return "empty-password PDF yields other tables than its unencrypted original"
            if [[len(p.images) for p in r.pages] for r in res] != [[len(p.images) for p in r.pages] for r in orig]:
                return "empty-password PDF yields another number of images per page than its unencrypted original"
    return None


def _shrink_lengths(c: Case, entry: str, td: str):
    """a failing many-page content-length document -> (case, message) of the first ONE-page document (one stream length) that fails too"""
    alg = c.key.rsplit(".content-length.", 1)[1]
    tail = b"" if "operator-terminated" in c.why else b"\n"
    for n in _PDF_LENGTHS:
        try:
            with _aes_for_writing():
                plain = B.pdf_plain_lengths([n], None, tail=tail)
                data = B.pdf_encrypt(plain, "", _PDF_OWNER_SECRET, alg, None)
            one = Case("pdf", "pdf", data, "plain", c.key, f"{alg}, EMPTY user password, ONE page whose unfiltered content stream is {n} bytes long "
                                                          f"({n} mod 16 = {n % 16}; {'operator' if not tail else 'newline'}-terminated)", {"original": _b64(plain)})
            m = _check_case(one, entry, td)
        except Exception:  # noqa
            continue
        if m:
            return one, m
    return None


def _oracle(ctx, cases, entries=("direct", "read_file"), cli_every=3):
    out = []
    seen = set()
    with tempfile.TemporaryDirectory(prefix="s2t_c08_") as td:
        for i, c in enumerate(cases):
            if c.truth is None:
                continue
            es = list(entries) + (["cli"] if cli_every and i % cli_every == 0 else [])
            for entry in es:
                try:
                    msg = _check_case(c, entry, td)
                except corpus.Timeout:
                    msg = None
                ctx.count(f"oracle/{entry}/{c.truth}")
                if msg and c.key not in seen:
                    seen.add(c.key)
                    if c.kind == "pdf" and entry != "cli" and ".content-length." in c.key and c.truth == "plain":
                        sm = _shrink_lengths(c, entry, td)
                        if sm:
                            c, msg = sm
                    if c.kind == "pdf" and entry != "cli":
                        out.append(_explain_pdf_failure(c, entry, msg))
                    else:
                        out.append(Violation(c.key, f"{msg} — input: {c.why}", c.replay(entry)))
    return out


def _run_sequence(steps, td, entry="direct"):
    """the cases one after the other in ONE process state (fresh at the start); (index, message) of the first step for
    which the property fails, or None"""
    _reset_pypdf_aes()
    for i, c in enumerate(steps):
        msg = _check_case(c, entry, td, fresh=False)
        if msg:
            return i, msg
    return None


def _pdf_sequence_oracle(ctx, pdfs):
    """process histories: the verdict on a PDF must not depend on which PDFs (other algorithm, other password outcome, the
    unencrypted or the protected version of the same document) the process read before.  The generated PDFs are read as
    shuffled sequences without resetting anything in between; a failing step is re-judged in a fresh interpreter."""
    out = []
    pdfs = [c for c in pdfs if ".AES-256" not in c.key + "." or c.key.endswith("AES-256-R5")]   # R6: ~5 s per check
    if len(pdfs) < 2:
        return out
    rng = ctx.rng
    with tempfile.TemporaryDirectory(prefix="s2t_c08_") as td:
        for rnd in range(ctx.n(2, 6)):
            order = list(pdfs)
            rng.shuffle(order)
            if rnd % 2:     # each file twice in a row as well (state left by the file itself)
                order = [c for c in order for _ in (0, 1)]
            try:
                r = _run_sequence(order, td)
            except corpus.Timeout:
                r = None
            ctx.count("oracle/pdf-sequence/steps", len(order))
            if r is not None:
                i, msg = r
                out.append(_explain_pdf_failure(order[i], "direct", msg))
                break
    return out


# the four legacy defects (repaired by the fix patches); their witnesses are re-run on the real code every run
def _legacy_witnesses():
    man = B.odf_manifest("odt", ["content.xml", "styles.xml", "meta.xml", "Pictures/encryption-data.png"])
    w1 = Case("odf", "odt", B.odf_package("odt", _TOKEN, man, extra=[("Pictures/encryption-data.png", b"\x89PNG\r\n")]), "plain",
              "odf.false-positive.member-name", "plain ODT whose manifest lists a member named 'Pictures/encryption-data.png'")
    w2 = Case("zip", "zip", B.zip_members([{"name": "a.txt", "data": b"TOKEN first member"}, {"name": "b.txt", "data": b"TOKEN second", "method": 9}]),
              "plain", "zip.false-positive.unsupported-method", "plain ZIP whose second member is marked deflate64 (method 9)")
    w3 = Case("7z", "7z", B.sevenzip([("a.txt", b"TOKEN seven")], encode_header=[(B.AES_CODER, b"\x53\x07" + bytes(16))]), "encrypted",
              "7z.missed.encrypted-header", "7z archive whose header is wrapped in an AES-coded EncodedHeader (7z -mhe=on)")
    with _aes_for_writing():
        plain = B.pdf_plain([f"{_TOKEN} alpha (1)", f"second {_TOKEN} page"])
        w4 = Case("pdf", "pdf", B.pdf_encrypt(plain, "", "owner-secret", "AES-128"), "plain", "pdf.false-positive.empty-password.AES-128",
                  "AES-128 (V4/R4) PDF with the empty user password, read in a process where nothing patched AES into pypdf yet",
                  {"original": _b64(plain)})
    return [w1, w2, w3, w4]


def known_witnesses(ctx):
    return _oracle(ctx, _legacy_witnesses(), entries=("direct", "read_file"), cli_every=1)


def search(ctx, broken):
    cases = []
    for b in broken:
        if b.case and "data_b64" in b.case and b.case.get("truth"):
            cases.append(Case(b.case["kind"], b.case["ext"], base64.b64decode(b.case["data_b64"]), b.case["truth"], b.case["key"], b.case["why"]))
    cases += _legacy_witnesses()
    cases += [c for c in _all_cases(ctx) if c.truth is not None]
    out = _oracle(ctx, cases, entries=("direct", "read_file"), cli_every=3)
    failed = {v.key for v in out}
    out += [v for v in _pdf_fresh_oracle(ctx, [c for c in cases if c.kind == "pdf"], failed) if v.key not in failed]
    return out


def replay(ctx, payload):
    rep = payload.get("replay", {})
    if rep.get("kind") == "pdf-sequence":
        steps = []
        for st in rep["steps"]:
            c = Case(st["kind"], st["ext"], base64.b64decode(st["data_b64"]), st["truth"], st["key"], st["why"])
            c.facts = st.get("facts")
            steps.append(c)
        with tempfile.TemporaryDirectory(prefix="s2t_c08_") as td:
            r = _run_sequence(steps, td, rep.get("entry", "direct"))
        if r is None:
            return True, f"property holds on every step of the recorded sequence of {len(steps)} PDFs"
        return False, f"step {r[0] + 1} of {len(steps)} ({steps[r[0]].why}): {r[1]}"
    if "data_b64" not in rep:
        return False, "replay names a broken obligation, not an input: " + payload.get("what", "")
    c = Case(rep["kind"], rep["ext"], base64.b64decode(rep["data_b64"]), rep["truth"], rep["key"], rep["why"])
    if rep.get("facts"):
        c.facts = rep["facts"]
    msgs = []
    with tempfile.TemporaryDirectory(prefix="s2t_c08_") as td:
        for entry in (rep.get("entries") or ("direct", "read_file", "cli")):
            m = _check_case(c, entry, td)
            if m:
                msgs.append(m)
    return (not msgs), "; ".join(msgs) or f"property holds on the recorded input ({c.why})"
