"""C02 (part 'plain') — main-text fidelity of plain-text FILES (txt / csv / tsv / md / json) from their bytes, for files
of VARIED SIZE: sizes just below / at / just above every power of two 2^9 … 2^18 (thorough: … 2^20), with the text
that distinguishes a faithful extraction (non-ASCII words: Latin-1 range, dashes / euro sign, CJK, astral) placed
EARLY (second line), LATE (last line), or STRADDLING the power-of-two byte offset (a multi-byte character whose bytes
lie on both sides of it), in every self-identifying encoding (ASCII, UTF-8, UTF-8 with signature, UTF-16 / UTF-32 with
BOM, big- and little-endian) plus Latin-1 / cp1252 for the correspondence.

Correspondence (every run): the abstract file (segments = line template x repeat count, newline convention, encoding)
is expanded here; the Lean driver writes it with the writer the theorems of Props/C02_Plain.lean are about
(`renderText`) - its bytes must equal Python's `str.encode` - and reads it back through the model
`S2T.Plain.detectAndDecode`, whose detector parameter is instantiated with what charset_normalizer says about the
COMPLETE content (asked here, independently of the library).  The real extractor - obtained from the library's router
for the file name - runs on the same bytes; full text and reported encoding must be equal.  A second stream feeds
arbitrary / malformed byte strings (overlong forms, surrogates, truncated sequences, stray continuation bytes) to both
sides and to Python's strict UTF-8 codec.

Oracle (every file of every run, the search, the replays): the property statement on the real code, independent of the
Lean model: get_full_text().split() of the real extractor must equal text.split() of the text that was written - same
multiplicity, order, separation; nothing replaced, nothing invented.  It judges only files whose encoding is
identified by the file itself (pure ASCII, UTF-8 with multi-byte characters, BOM-marked UTF-8/16/32); 8-bit legacy
code pages are ambiguous by nature and only take part in the correspondence.  Failing files are shrunk (repeat counts
halved while the same failure remains) and recorded as the abstract file, so a replay is a few hundred bytes.
"""
from __future__ import annotations

import io

from run import Broken, Violation
from props.c02_odf import diagnose

GEN = ["C02Plain", "C02Odf"]
RULE = ("plain-text files = header line + ASCII filler rows (unique counter tokens) sized so that the encoded file has "
        "2^k + d bytes (k = 9..18, thorough ..20; d in {-1, 0, +1, small random}), a distinguishing non-ASCII line "
        "(Latin-1 words / dash + euro sign / CJK / astral) early, late or with a multi-byte character straddling byte "
        "offset 2^k, LF / CRLF / the whole file one blank-separated line, extension txt / csv / tsv / md / json, encodings ascii, utf-8, utf-8-sig, utf-16 (BOM, LE/BE), "
        "utf-32 (BOM), latin-1, cp1252; plus malformed byte strings.  distinct = distinct (abstract file); non-trivial = "
        "the file carries at least one token")
ASSUMPTIONS = [
    "charset_normalizer is a parameter of the model: the harness asks it about the complete content and hands the verdict "
    "(codec, signature length) to the model; verdicts naming a codec the model has no decoder for (UTF-16/32, code pages) "
    "are judged by the property oracle only (counted in the distribution as plain/unmodelled-verdict)",
    "Python's strict utf-8 / latin-1 / ascii codecs = Lean core's ByteArray.utf8Decode? / the byte-to-code-point maps "
    "(compared on every generated and every malformed byte string of every run)",
    "the errors='replace' fallback is a parameter of the model (reached only without a verdict)",
]
TRUSTED = ["S2T/Model/C02Plain.lean renderText (used both by the theorems and, through the driver, by this correspondence; "
           "its bytes are compared with Python's str.encode on every file)"]

KNOWN_KEYS = {"plain.bom-kept-as-text", "plain.charset-misdetected"}
PART = "c02_plain"

SPECIALS = {"latin": "Grüße_Köln_café", "punct": "12,50€–naïve", "cjk": "東京都庁", "astral": "😀ok𝔘"}
EXTS = ["txt", "csv", "tsv", "md", "json"]
# name -> (python codec for the text, signature bytes written in front, lean codec or None, self-identifying)
ENCS = {
    "ascii": ("ascii", b"", "ascii", True),
    "utf-8": ("utf-8", b"", "utf_8", True),
    "utf-8-sig": ("utf-8", b"\xef\xbb\xbf", "utf_8", True),
    "utf-16": ("utf-16-le", b"\xff\xfe", None, True),
    "utf-16-be": ("utf-16-be", b"\xfe\xff", None, True),
    "utf-32": ("utf-32-le", b"\xff\xfe\x00\x00", None, True),
    "latin-1": ("latin-1", b"", "latin_1", False),
    "cp1252": ("cp1252", b"", None, False),
}
FAMILY = {"ascii": {"ascii", "utf_8"}, "utf-8": {"utf_8", "ascii"}, "utf-8-sig": {"utf_8"}, "utf-16": {"utf_16", "utf_16_le"},
          "utf-16-be": {"utf_16", "utf_16_be"}, "utf-32": {"utf_32", "utf_32_le"}}
MODEL_CODECS = {"ascii": "ascii", "utf_8": "utf_8", "latin_1": "latin_1"}


def _quiet():
    import logging
    logging.disable(logging.CRITICAL)


# ----------------------------------------------------------------------------- abstract file -> text -> bytes
def expand(doc) -> str:
    lines = []
    for seg in doc["segs"]:
        tpl, start = seg["tpl"], seg.get("start", 0)
        for j in range(min(int(seg.get("n", 1)), 200000)):
            lines.append(tpl.replace("{i}", str(start + j).zfill(5)))
    return doc.get("nl", "\n").join(lines) + (doc.get("nl", "\n") if doc.get("trail", True) else "")


def encode_doc(doc):
    codec, sig, _, _ = ENCS[doc["enc"]]
    return sig + expand(doc).encode(codec)


def real_extract(data: bytes, ext: str):
    """('ok', full text, detected encoding) | ('err', exception name, None) - through the library's router"""
    _quiet()
    from sharepoint2text.parsing.router import get_extractor
    name = "file." + ext
    try:
        c = next(get_extractor(name)(io.BytesIO(data), name))
        return "ok", c.get_full_text(), c.get_metadata().detected_encoding
    except Exception as e:
        return "err", type(e).__name__, None


def _window(exp, got, cap=60):
    """common prefix / suffix removed (keeps one token of context), capped: diagnose() is quadratic"""
    i = 0
    while i < len(exp) and i < len(got) and exp[i] == got[i]:
        i += 1
    j = 0
    while j < len(exp) - i and j < len(got) - i and exp[len(exp) - 1 - j] == got[len(got) - 1 - j]:
        j += 1
    return exp[i:len(exp) - j][:cap], got[i:len(got) - j][:cap], i


def oracle(doc):
    """the property on the real code for one abstract file -> [Violation]"""
    if not ENCS[doc["enc"]][3]:
        return []
    text = expand(doc)
    try:
        data = encode_doc(doc)
    except UnicodeEncodeError:
        return []
    exp = text.split()
    kind, got_text, enc = real_extract(data, doc.get("ext", "txt"))
    rep = {"fmt": "plainfile", "doc": doc, "part": PART}
    where = f"{doc.get('ext', 'txt')} file of {len(data)} bytes written as {doc['enc']}"
    if kind != "ok":
        return [Violation("plainfile.extraction-fails", f"plain-text extractor raised {got_text} on a {where}", rep)]
    got = got_text.split()
    if got == exp:
        return []
    # mechanisms of the two open findings: the failure is explained by charset_normalizer's verdict on the COMPLETE content
    # (asked here, independently) and the library reports exactly that verdict
    ver = _verdict(data)
    if ver is not None and ver[0] == enc:
        if ver[0] not in FAMILY[doc["enc"]]:
            return [Violation("plain.charset-misdetected", f"{where}: charset_normalizer takes the complete content for {enc} and the extractor "
                              f"follows it: {len([t for t in exp if t not in set(got)])} of {len(exp)} tokens are lost / garbled, e.g. "
                              f"{next((t for t in exp if t not in set(got)), '')!r}", rep)]
        if exp and got and got[0] == "\ufeff" + exp[0] and got[1:] == exp[1:] and ver[1] == 0:
            return [Violation("plain.bom-kept-as-text", f"{where} (reported encoding {enc}): the byte-order mark comes out as text, "
                              f"glued to the first token: {got[0]!r}", rep)]
    we, wg, at = _window(exp, got)
    dg = diagnose("plainfile", we, wg, []) or ("changed", "token sequence differs")
    return [Violation(f"plainfile.{dg[0]}", f"{where} (reported encoding {enc}), around token #{at}: {dg[1]}", rep)]


def shrink(doc, key, budget=24):
    """halve repeat counts / drop segments while the same failure remains"""
    best = doc

    def fails(d):
        nonlocal budget
        budget -= 1
        try:
            return any(v.key == key for v in oracle(d))
        except Exception:
            return False

    changed = True
    while changed and budget > 0:
        changed = False
        for idx in range(len(best["segs"])):
            seg = best["segs"][idx]
            n = int(seg.get("n", 1))
            for m in ([n // 2, (3 * n) // 4, n - n // 8, n - 1] if n > 1 else []):
                if budget <= 0 or m >= n or m < 1:
                    continue
                cand = dict(best, segs=[dict(s) for s in best["segs"]])
                cand["segs"][idx]["n"] = m
                if fails(cand):
                    best, changed = cand, True
                    break
        for idx in range(len(best["segs"]) - 1, -1, -1):
            if budget <= 0 or len(best["segs"]) <= 1:
                break
            cand = dict(best, segs=[dict(s) for i, s in enumerate(best["segs"]) if i != idx])
            if fails(cand):
                best, changed = cand, True
    return best


# ----------------------------------------------------------------------------- generation
FILLER = {"csv": "{i};row{i};TOKa{i}x;plain value", "tsv": "{i}\trow{i}\tTOKa{i}x\tplain value", "txt": "line {i} TOKa{i}x of plain text",
          "md": "* item {i} TOKa{i}x plain", "json": '{"id": "{i}", "token": "TOKa{i}x", "note": "plain value"},'}
HEADER = {"csv": "id;name;token;note", "tsv": "id\tname\ttoken\tnote", "txt": "TITLE0 plain text file", "md": "# Heading0 TOKh0", "json": "["}


def _blen(s: str, enc: str) -> int:
    return len(s.encode(ENCS[enc][0]))


def gen_doc(rng, k: int, pos: str, enc: str, delta: int, special: str | None, ext: str, nl: str):
    """abstract file whose encoded size is 2^k + delta (pos early / late / none) resp. which has a multi-byte
    character across byte offset 2^k (pos straddle)"""
    target = (1 << k) + delta
    sp = SPECIALS.get(special or "", "")
    head = HEADER[ext]
    fill = FILLER[ext]
    sline = f"S9;TOKsp1{sp};end{sp}z" if sp else "S9;TOKsp1;endz"
    siglen = len(ENCS[enc][1])
    nlb = _blen(nl, enc)
    per = _blen(fill.replace("{i}", "00000"), enc) + nlb
    used = siglen + _blen(head, enc) + nlb
    segs = [{"tpl": head, "n": 1}]
    if pos == "early":
        segs.append({"tpl": sline, "n": 1})
        used += _blen(sline, enc) + nlb
    if pos == "straddle":
        # bytes before the special character = 2^k - 1: filler rows, then a pad line, then the special line starts with it
        room = (1 << k) - 1 - used
        n = max(0, (room - nlb - 1) // per)
        pad = room - n * per - nlb
        if n > 0 and pad < 1:
            n -= 1
            pad += per
        unit = _blen("P", enc)
        padc = max(1, pad // unit)
        segs.append({"tpl": fill, "n": n})
        segs.append({"tpl": "P" * padc, "n": 1})
        lead = next((c for c in sp if ord(c) > 127), "x")  # the character whose bytes lie on both sides of offset 2^k
        segs.append({"tpl": lead + sp + " " + sline, "n": 1})
        segs.append({"tpl": fill, "n": max(1, n // 2), "start": n})
        segs = [s for s in segs if s["n"] > 0]
        return {"ext": ext, "enc": enc, "nl": nl, "segs": segs, "k": k, "pos": pos}
    tail = (_blen(sline, enc) + nlb) if pos == "late" else 0
    room = target - used - tail
    n = max(0, (room - nlb - 1) // per)
    pad = room - n * per - nlb
    if n > 0 and pad < 1:
        n -= 1
        pad += per
    unit = _blen("P", enc)
    segs.append({"tpl": fill, "n": n})
    if pad >= unit:
        segs.append({"tpl": "P" * (pad // unit), "n": 1})
    if pos == "late":
        segs.append({"tpl": sline, "n": 1})
    segs = [s for s in segs if s["n"] > 0]
    return {"ext": ext, "enc": enc, "nl": nl, "segs": segs, "k": k, "pos": pos}


def gen_docs(ctx, rng, ks, per_cell: int):
    """for every k and every position: UTF-8 always, plus `per_cell` further encodings"""
    docs = []
    others = [e for e in ENCS if e != "utf-8"]
    for k in ks:
        for pos in ("early", "late", "straddle", "none"):
            encs = ["utf-8"] + rng.sample(others, per_cell)
            for enc in encs:
                delta = rng.choice([-1, 0, 1, 1, rng.randint(2, 40), -rng.randint(2, 40)])
                special = None if pos == "none" else rng.choice(list(SPECIALS))
                if enc == "ascii":
                    special = None
                if enc in ("latin-1",) and special not in (None, "latin"):
                    special = "latin"
                if enc == "cp1252" and special not in (None, "latin", "punct"):
                    special = "punct"
                if pos == "straddle" and special is None:
                    continue
                docs.append(gen_doc(rng, k, pos, enc, delta, special, rng.choice(EXTS), rng.choice(["\n", "\n", "\r\n"])))
        # the whole file ONE line of 2^k bytes (minified export): tokens separated by blanks, distinguishing text at the end
        docs.append(gen_doc(rng, k, "late", "utf-8", rng.choice([0, 1, 7]), rng.choice(list(SPECIALS)), rng.choice(["txt", "json"]), " "))
    return docs


def _verdict(data: bytes):
    """what charset_normalizer says about the COMPLETE content: (encoding name, signature length) or None"""
    from charset_normalizer import from_bytes
    if not data:
        return None
    best = from_bytes(data).best()
    if best is None:
        return None
    sig = 0
    if best.bom:
        for s in (b"\xef\xbb\xbf", b"\xff\xfe\x00\x00", b"\x00\x00\xfe\xff", b"\xff\xfe", b"\xfe\xff"):
            if data.startswith(s):
                sig = len(s)
                break
    return best.encoding, sig


def _malformed(rng, n):
    good = ["A1 ", "Köln ", "€ ", "東京 ", "😀 ", "\n", "B2;C3 ", "x" * 40 + " "]
    bad = [b"\xc0\xaf", b"\xed\xa0\x80", b"\xf4\x90\x80\x80", b"\xe2\x82", b"\x80", b"\xff", b"\xfe", b"\xf0\x9f\x98", b"\xc3", b"\xe0\x80\xaf", b"\xf8\x88\x80\x80\x80"]
    out = []
    for _ in range(n):
        b = b""
        for _ in range(rng.randint(1, 30)):
            b += rng.choice(good).encode("utf-8") if rng.random() < 0.85 else rng.choice(bad)
        if rng.random() < 0.15:
            b = b"\xef\xbb\xbf" + b
        out.append(b)
    return out


# ----------------------------------------------------------------------------- correspondence
def correspondence(ctx):
    rng = ctx.rng
    broken, violations = [], []
    seen_keys = set()

    def report(vs):
        for v in vs:
            if v.key in seen_keys:
                continue
            seen_keys.add(v.key)
            if v.key not in KNOWN_KEYS:
                d = shrink(v.replay["doc"], v.key)
                v = ([w for w in oracle(d) if w.key == v.key] or [v])[0]
            violations.append(v)

    ks = list(range(9, ctx.n(19, 21)))
    docs = gen_docs(ctx, rng, ks, ctx.n(1, 3))
    reqs, meta = [], []
    for d in docs:
        text = expand(d)
        try:
            data = encode_doc(d)
        except UnicodeEncodeError:
            continue
        ctx.case(("plainfile", repr(d)), nontrivial=bool(text.split()))
        ctx.count(f"plain/2^{d['k']}")
        ctx.count(f"plain/pos={d['pos']}")
        ctx.count(f"plain/enc={d['enc']}")
        if len(data) < 4096:
            ctx.sample({"plainfile": {k: v for k, v in d.items()}, "bytes": len(data)})
        # (c) the property on the real code
        report(oracle(d))
        # (b) model vs. real code
        ver = _verdict(data)
        kind, real_text, real_enc = real_extract(data, d["ext"])
        det = None
        if ver is not None and ver[0] in MODEL_CODECS:
            det = {"codec": MODEL_CODECS[ver[0]], "sig_len": ver[1]}
        elif ver is not None:
            ctx.count("plain/unmodelled-verdict")
            continue
        lean_codec = ENCS[d["enc"]][2]
        if lean_codec is not None:
            reqs.append({"op": "c02plain.file", "text": text, "codec": lean_codec, "sig": bool(ENCS[d["enc"]][1]), "det": det})
        else:
            reqs.append({"op": "c02plain.bytes", "hex": data.hex(), "det": det})
        meta.append((d, data, kind, real_text, real_enc, ver))
    mal = _malformed(rng, ctx.n(150, 2000))
    for b in mal:
        ver = _verdict(b)
        det = {"codec": MODEL_CODECS[ver[0]], "sig_len": ver[1]} if ver is not None and ver[0] in MODEL_CODECS else None
        if ver is not None and det is None:
            ctx.count("plain/unmodelled-verdict")
            det = "skip"
        reqs.append({"op": "c02plain.bytes", "hex": b.hex(), "det": None if det == "skip" else det})
        meta.append(("mal", b, det))
        # Python's strict UTF-8 codec vs. Lean core's, independent of the library
        reqs.append({"op": "c02plain.bytes", "hex": b.hex(), "det": {"codec": "utf_8", "sig_len": 0}})
        meta.append(("codec", b, None))
    outs = ctx.drive(reqs)
    for m, o in zip(meta, outs):
        if "drv_error" in o:
            broken.append(Broken("correspondence", "driver", o["drv_error"], case={"fmt": "plainfile"}))
            continue
        if m[0] == "codec":
            b = m[1]
            try:
                py = b.decode("utf-8")
            except UnicodeDecodeError:
                py = None
            if b and ((py is None) != bool(o.get("fallback")) or (py is not None and py.split() != o.get("tokens"))):
                broken.append(Broken("correspondence", "c02plain.utf8-codec", f"bytes {b.hex()}: Python strict utf-8 -> {py!r}, Lean -> {o!r}", case={"fmt": "plainbytes", "hex": b.hex()}))
            ctx.case(("codec", b), nontrivial=False)
            continue
        if m[0] == "mal":
            b, det = m[1], m[2]
            ctx.case(("plainbytes", b))
            ctx.count("plain/malformed")
            if det == "skip":
                continue
            kind, real_text, real_enc = real_extract(b, "txt")
            if o.get("fallback"):
                exp_text = b.decode("utf-8", errors="replace").strip()
                if kind != "ok" or real_text != exp_text:
                    broken.append(Broken("correspondence", "c02plain.bytes", f"bytes {b.hex()}: model takes the utf-8/replace fallback ({exp_text!r}), read_plain_text -> {kind} {real_text!r}", case={"fmt": "plainbytes", "hex": b.hex()}))
            elif kind != "ok" or real_text != o.get("text") or real_enc != o.get("encoding"):
                broken.append(Broken("correspondence", "c02plain.bytes", f"bytes {b.hex()}: model {o.get('text')!r} ({o.get('encoding')}), read_plain_text -> {kind} {real_text!r} ({real_enc})", case={"fmt": "plainbytes", "hex": b.hex()}))
            continue
        d, data, kind, real_text, real_enc, ver = m
        case = {"fmt": "plainfile", "doc": d}
        if o.get("unrepresentable"):
            broken.append(Broken("correspondence", "c02plain.file", "the Lean writer cannot represent a text Python could encode", case=case))
            continue
        if "hex" in o and o["hex"] != data.hex():
            broken.append(Broken("correspondence", "c02plain.writer", f"renderText and str.encode differ for a {d['enc']} file of {len(data)} bytes", case=case))
            continue
        if o.get("fallback"):
            exp_text, exp_enc = data.decode("utf-8", errors="replace").strip(), "utf-8"
        else:
            exp_text, exp_enc = o.get("text"), o.get("encoding")
        if kind != "ok" or real_text != exp_text or real_enc != exp_enc:
            i = next((i for i, (a, b) in enumerate(zip(real_text or "", exp_text or "")) if a != b), min(len(real_text or ""), len(exp_text or "")))
            broken.append(Broken("correspondence", "c02plain.file",
                                 f"{d['enc']} file of {len(data)} bytes (2^{d['k']}, {d['pos']}): the model (verdict {ver}) gives {len(exp_text or '')} characters ({exp_enc}), "
                                 f"read_plain_text {kind} {len(real_text or '')} characters ({real_enc}); first difference at character {i}: "
                                 f"model {(exp_text or '')[i:i + 30]!r} / real {(real_text or '')[i:i + 30]!r}", case=case))
    return {"broken": broken, "violations": violations}


# ----------------------------------------------------------------------------- search / replay / known findings
def search(ctx, broken):
    rng = ctx.rng
    found = []

    def add(vs):
        for v in vs:
            if v.key not in KNOWN_KEYS and not any(f.key == v.key for f in found):
                d = shrink(v.replay["doc"], v.key)
                found.append(([w for w in oracle(d) if w.key == v.key] or [v])[0])

    for b in broken:
        c = b.case if isinstance(b.case, dict) else {}
        if c.get("fmt") == "plainfile" and "doc" in c:
            add(oracle(c["doc"]))
    if not found:
        for d in gen_docs(ctx, rng, list(range(9, 19)), 3):
            add(oracle(d))
            if len(found) >= 3:
                break
    return found


W_BOM = {"ext": "csv", "enc": "utf-16", "nl": "\n", "segs": [{"tpl": "a;b", "n": 1}, {"tpl": "S1;TOK😀ok;end😀okz", "n": 1},
                                                              {"tpl": "{i};row{i};TOK{i}x;plain value", "n": 40}]}


W_MISDET = {"ext": "json", "enc": "utf-8", "nl": "\n", "segs": [
    {"tpl": "S9;TOKsp1😀ok𝔘;end😀ok𝔘z", "n": 1}, {"tpl": "{\"id\": \"{i}\", \"token\": \"TOKa{i}x\", \"note\": \"plain value\"},", "n": 7},
    {"tpl": "P" * 34, "n": 1}]}
WITNESSES = {
    "plain-bom": ("plain.bom-kept-as-text", W_BOM, "plain text: a BOM-marked UTF-16 / UTF-32 file for which charset_normalizer prefers the endian-specific "
                  "codec (utf_16_le / utf_32_le) over the BOM-aware one keeps U+FEFF as the first character of the text: "),
    "plain-misdetected": ("plain.charset-misdetected", W_MISDET, "plain text: a valid UTF-8 file of 511 bytes (510 bytes: fine) with astral characters in its "
                          "first line is decoded with a legacy code page: "),
}


def known_witnesses(ctx):
    out = []
    for name, (key, doc, what) in WITNESSES.items():
        vs = [v for v in oracle(doc) if v.key == key]
        if vs:
            out.append(Violation(key, what + vs[0].what, {"witness": name, "part": PART}))
        else:
            ctx.notes.append(f"known finding {key}: the committed witness no longer fails on this tree")
    return out


def replay(ctx, payload):
    rep = payload.get("replay", {})
    if rep.get("witness") in WITNESSES:
        key, doc, _ = WITNESSES[rep["witness"]]
        vs = [v for v in oracle(doc) if v.key == key]
        return (not vs), "; ".join(v.what for v in vs) or "the witness no longer fails"
    if rep.get("fmt") == "plainfile" and "doc" in rep:
        vs = oracle(rep["doc"])
        return (not vs), "; ".join(v.what for v in vs) or "property holds on the recorded file"
    return False, "replay names a broken obligation, not an input: " + payload.get("what", "")
