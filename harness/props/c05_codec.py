"""C05 helper — binary payloads of every SIZE CLASS (part of harness/props/c05.py, not a property of its own).

The type-directed instances and the fixtures carry payloads of a few bytes to a few hundred KiB.  A codec that treats
payloads differently by size (slices, thresholds, line lengths, buffers) or by content (leading / trailing bytes,
characters '+' '/' '=') is invisible there.  This module supplies

* payload descriptions `"@<pattern>:<seed>:<length>[:<hex of a short header in front>]"` — a few characters in a replay stand for up to 12 MiB of bytes
  (deterministic: `random.Random(seed)`), with a registry so that `enc()` of c05.py writes a generated payload found
  anywhere inside an object (an attachment an extractor delivered, an image) back as its description;
* the size classes: every power of two from 16 B to 8 MiB and every integer constant of serialization.py / cli.py
  (literals, folded constant expressions such as `1 << 22`, integer module globals at runtime), each as b-1, b, b+1,
  MIME / base64 line lengths (57, 76), 3-alignment residues, one random size above 8 MiB;
* the 3-aligned windows of a payload at which the real text is compared with the model's `b64enc` (theorems
  `C05_codec_window`, `C05_codec_suffix`, `C05_codec_length` make the windows stand for the whole text): across every
  power of two and every source constant and their small multiples, random ones, the head and the tail;
* path helpers to put a payload at a binary leaf of an instance and to find it again in the JSON.
"""
from __future__ import annotations

import ast
import dataclasses
import hashlib
import io
import os
import random

MAX_PAYLOAD = 12 * 2 ** 20          # hard cap of a generated payload (safety: shared machine)
PATTERNS = ("rand", "zero", "ff", "hi", "ws", "edge")
_REGISTRY: dict = {}
_CACHE: dict = {}


def is_desc(s) -> bool:
    return isinstance(s, str) and s.startswith("@")


def desc(pattern: str, seed: int, length: int) -> str:
    return f"@{pattern}:{int(seed)}:{int(length)}"


def _digest(b) -> tuple:
    return len(b), hashlib.blake2b(b, digest_size=12).hexdigest()


def payload(d: str) -> bytes:
    """the bytes a description stands for (registered, so that `lookup` finds them again)"""
    if d in _CACHE:
        return _CACHE[d]
    pat, seed, n, *pre = d[1:].split(":")
    seed, n = int(seed), int(n)
    if pre:                 # "@pattern:seed:length:<hex>" = these bytes in front of the described ones (an image header)
        b = bytes.fromhex(pre[0]) + payload(desc(pat, seed, n))
        _CACHE[d] = b
        return b
    if not 0 <= n <= MAX_PAYLOAD or pat not in PATTERNS:
        raise ValueError(f"payload description out of bounds: {d}")
    r = random.Random(seed * 2654435761 + n)
    if pat == "rand":
        b = r.randbytes(n)
    elif pat == "zero":
        b = bytes(n)
    elif pat == "ff":
        b = b"\xff" * n
    elif pat == "hi":       # texts full of '+' and '/'
        b = (b"\xfb\xef\xff\xff\xbf\xfe" * (n // 6 + 1))[:n]
    elif pat == "ws":       # bytes a text-minded codec might strip, fold or take for padding
        unit = b" \n\r\t\x00=\x0c\x0b\x1c\x85\xa0" + b"\r\n" + b"=="
        k = seed % len(unit)
        b = ((unit[k:] + unit[:k]) * (n // len(unit) + 1))[:n]
    else:                   # edge: random body, special first / last bytes
        body = bytearray(r.randbytes(n))
        sp = [0x00, 0x0A, 0x0D, 0x20, 0x3D, 0xFF, 0x2B, 0x2F]
        for i in range(min(2, n)):
            body[i] = r.choice(sp)
            body[n - 1 - i] = r.choice(sp)
        b = bytes(body)
    if len(_CACHE) > 6:
        _CACHE.pop(next(iter(_CACHE)))
    _CACHE[d] = b
    if n > 256:
        _REGISTRY[_digest(b)] = d
    return b


def lookup(b) -> str | None:
    """description of a generated payload met again inside an object (None: not one of ours)"""
    if len(b) <= 256 or not _REGISTRY:
        return None
    for (n, dig), d in list(_REGISTRY.items()):
        if n == len(b) and _digest(bytes(b)) == (n, dig):
            return d
        if n < len(b) <= n + 64 and d.count(":") == 2:       # a generated payload behind a short header (picture of a generated document)
            raw = bytes(b)
            if _digest(raw[len(raw) - n:]) == (n, dig):
                return d + ":" + raw[:len(raw) - n].hex()
    return None


# ----------------------------------------------------------------------------------------------- size classes
def _fold(e):
    """value of an integer constant expression (literals combined by arithmetic / shifts), else None"""
    if isinstance(e, ast.Constant) and isinstance(e.value, int) and not isinstance(e.value, bool):
        return e.value
    if isinstance(e, ast.BinOp):
        a, b = _fold(e.left), _fold(e.right)
        if a is None or b is None:
            return None
        try:
            if isinstance(e.op, ast.LShift) and 0 <= b < 40:
                return a << b
            if isinstance(e.op, ast.Mult):
                return a * b
            if isinstance(e.op, ast.Pow) and 0 <= b < 40 and abs(a) <= 1024:
                return a ** b
            if isinstance(e.op, ast.Add):
                return a + b
            if isinstance(e.op, ast.Sub):
                return a - b
            if isinstance(e.op, ast.FloorDiv) and b:
                return a // b
        except Exception:
            return None
    return None


def source_constants(repo: str) -> list:
    """integer constants of the serialiser and the CLI that could act as a size threshold"""
    out = set()
    for rel in ("sharepoint2text/parsing/extractors/serialization.py", "sharepoint2text/cli.py"):
        try:
            with open(os.path.join(repo, rel), encoding="utf-8") as fh:
                tree = ast.parse(fh.read())
        except (OSError, SyntaxError):
            continue
        for n in ast.walk(tree):
            v = _fold(n) if isinstance(n, (ast.Constant, ast.BinOp)) else None
            if v is not None:
                out.add(v)
    try:
        import sharepoint2text.cli as C
        from sharepoint2text.parsing.extractors import serialization as S
        for m in (S, C):
            for v in vars(m).values():
                if isinstance(v, int) and not isinstance(v, bool):
                    out.add(v)
                elif isinstance(v, (tuple, list, frozenset, set)) and len(v) < 32:
                    out.update(x for x in v if isinstance(x, int) and not isinstance(x, bool))
    except Exception:
        pass
    return sorted(v for v in out if 8 <= v <= MAX_PAYLOAD)


SMALL_BOUNDS = [16, 32, 48, 57, 64, 76, 128, 255, 256, 512, 1000, 1024, 4096, 8192, 16384, 32768, 65535, 65536]
LARGE_POWERS = [2 ** k for k in range(17, 24)]


def size_classes(rng, consts, thorough=False):
    """(small sizes, large sizes): every boundary as b-1, b, b+1 below 64 KiB; above, b+1 of every power of two,
    b-1 / b / b+1 / 2b+1 / 3b+2 of every source constant, and one random size above 8 MiB"""
    small = {0, 1, 2, 3, 4, 5}
    for b in SMALL_BOUNDS + [c for c in consts if c <= 65536]:
        small.update((b - 1, b, b + 1))
    small.update(rng.randrange(6, 70000) for _ in range(6))
    large = set()
    for b in LARGE_POWERS:
        large.add(b + 1)
        if thorough:
            large.update((b - 1, b, 3 * (b // 2) + 1))
    for c in consts:
        if c > 65536:
            large.update(x for x in (c - 1, c, c + 1, 2 * c + 1, 3 * c + 2) if x <= MAX_PAYLOAD)
            t = c * 3 // 4                  # the constant as a bound on the length of the TEXT (4 characters per 3 bytes)
            large.update(x for x in (t - 1, t, t + 1, t + 2, t + 3) if x <= MAX_PAYLOAD)
    large.add(rng.randrange(2 ** 23 + 2, MAX_PAYLOAD))
    large.add(rng.randrange(70000, 2 ** 23))
    return sorted(x for x in small if x >= 0), sorted(x for x in large if x <= MAX_PAYLOAD)


def windows(n: int, rng, consts, width=48, n_random=6):
    """3-aligned windows (offset, width) of a payload of n bytes + the offset of the 3-aligned tail"""
    out = set()
    bounds = {2 ** k for k in range(3, 24)} | {c for c in consts if c >= 8}
    marks = set()
    for b in bounds:
        for m in (1, 2, 3):
            if m * b < n:
                marks.add(m * b)
        if b < n:          # the last multiple before the end (a final short slice starts here)
            marks.add((n - 1) // b * b)
    for mk in marks:
        o = max(0, (mk - width // 2) // 3 * 3)
        out.add((o, min(width, (n - o) // 3 * 3)))
    out.add((0, min(width, n // 3 * 3)))
    for _ in range(n_random):
        if n > 3 * width:
            o = rng.randrange(0, n - 2 * width) // 3 * 3
            out.add((o, 2 * width))
    tail = max(0, n - rng.choice([1, 2, 3, 40, 41, 42])) // 3 * 3
    return sorted((o, w) for o, w in out if w > 0), tail


# ----------------------------------------------------------------------------------------------- paths
def leaves(x, path=()):
    """[(path, leaf)] of the bytes / bytearray / BytesIO leaves that can be replaced in place (reached through dataclass
    fields, lists and dicts only); path items as the serialiser names them (field, str(key), index)"""
    out = []
    if isinstance(x, (bytes, bytearray, io.BytesIO)):
        out.append((path, x))
    elif dataclasses.is_dataclass(x) and not isinstance(x, type):
        for f in dataclasses.fields(x):
            out += leaves(getattr(x, f.name, None), path + (f.name,))
    elif isinstance(x, dict):
        names = [str(k) for k in x]
        for k, v in x.items():
            if names.count(str(k)) == 1:
                out += leaves(v, path + (str(k),))
    elif isinstance(x, list):
        for i, v in enumerate(x):
            out += leaves(v, path + (i,))
    return out


def get_at(x, path):
    for p in path:
        if dataclasses.is_dataclass(x) and not isinstance(x, type):
            x = getattr(x, p)
        elif isinstance(x, dict):
            x = x[p] if p in x else next(v for k, v in x.items() if str(k) == p)
        else:
            x = x[p]
    return x


def set_at(x, path, val):
    """x[path] = val in place (x is the harness's own object)"""
    parent = get_at(x, path[:-1])
    p = path[-1]
    if dataclasses.is_dataclass(parent) and not isinstance(parent, type):
        object.__setattr__(parent, p, val)
    elif isinstance(parent, dict):
        key = p if p in parent else next(k for k in parent if str(k) == p)
        parent[key] = val
    else:
        parent[p] = val


def subst_json(j, path, val):
    """copy of JSON value j with j[path] = val (shallow copies along the path only)"""
    if not path:
        return val
    c = dict(j) if isinstance(j, dict) else list(j)
    c[path[0]] = subst_json(j[path[0]], path[1:], val)
    return c


def like(leaf, data: bytes, cursor=None):
    """a leaf of the same Python type as `leaf` holding `data`"""
    if isinstance(leaf, io.BytesIO):
        b = io.BytesIO(data)
        b.seek(min(len(data), leaf.tell() if cursor is None else cursor))
        return b
    if isinstance(leaf, bytearray):
        return bytearray(data)
    return data
