"""C18 — SharePoint listing.  A fake Graph server behind `urllib.request.urlopen` (as the client module
sees it), random document libraries, every fault kind at every request index followed by a healthy retry.

* correspondence: the REAL client (sharepoint2text.sharepoint_io.client) and the Lean model (ops c18.run /
  c18.match / c18.parse / c18.quote) on the same libraries, page sizes, filters, START FOLDERS (folder_paths) and
  fault schedules; exact comparison of results (order included), of what the generator list_files_filtered
  DELIVERED BEFORE an exception, of the by-path request URLs, error class / status / URL, opened / closed
  counters and request counts.  The driver receives RAW items (members present, facet shapes); what an item is, is
  decided by the Lean model (`classify`, Model/SharePointRaw.lean).  Folder names include literal percent-escape
  look-alikes (with / without a sibling of the decoded name); optional members of items and answers are varied
  independently of the library's real content (`fx` / `opt` / `ropt`).
* search / replay / known_witnesses: an oracle of the PROPERTY STATEMENT on the real client that does not
  use the Lean model: reference tree walk, reference filter (exact rational timestamps), open/close
  accounting of every response object, error family, status + URL of the failed request, healthy retry.
"""
from __future__ import annotations

import fnmatch
import io
import json
import random
import re
from collections import Counter
from datetime import datetime, timedelta, timezone
from fractions import Fraction
from urllib.error import HTTPError, URLError
from urllib.parse import quote as _ref_quote
from urllib.parse import unquote

from run import Broken, Violation

GEN = ["SharePoint", "PyClient", "SharePointItems"]
RULE = ("library = random folder tree (depth<=4, 0..7 items per folder: files / folders / facet-less items / non-dict "
        "entries; names with spaces, %, #, +, &, non-ASCII; optional fields missing; Graph timestamps with 0..7 "
        "fraction digits, offsets, missing or junk) x page size 1..N x call (list_all_files | list_files_filtered "
        "with date bounds placed on/next to file timestamps, extensions in mixed case, glob patterns) x fault "
        "(none | every request index k x {HTTPError 4xx/5xx, URLError, invalid JSON, non-object JSON, non-2xx "
        "response}) then a fault-free retry on the same client. distinct = distinct (library, page size, call, "
        "fault); non-trivial = at least one file below the root or a fault or an active filter. "
        "45% of the filtered calls carry folder_paths: 1..4 start folders drawn from the library's folders at any depth (names needing "
        "quoting), decorated with outer slashes, missing folders, paths of files, string-prefix siblings; 80% mutually unrelated, "
        "20% nested / repeated / '' (known finding folder_paths.duplicate). list_files_filtered is consumed item by item, so the "
        "files delivered before an exception are compared, too. ~650 (quick) start-folder strings over the library alphabet and "
        "arbitrary code points go through _get_folder_by_path alone (request URL vs. model vs. RFC 3986 reference). "
        "ESCAPE LOOK-ALIKES: half of the folder names come from a pool with names containing a literal %XY (Rates %2B fees, "
        "Growth 100%25, Q%31, %41rchive, a%2Fb, %2525, caf%C3%A9 ...), half of these beside a SIBLING that carries the decoded name; "
        "the quote stream adds strings built from %XY / % / hex digits. OPTIONAL MEMBERS: every folder and file item carries an "
        "option word chosen independently of its content: folder facet {childCount} (truthful) | {} | {childCount, view} | {view}, "
        "size missing / 0 / n, dates, webUrl, parentReference (truthful), fileSystemInfo (with other timestamps), unrelated facets, "
        "file facet {} / mimeType / hashes; answers with / without @odata.context, @odata.count, `value` on empty pages. "
        "20% of the filtered calls go through list_files_modified_since / list_files_created_since. The driver receives RAW items; "
        "what an item is, is decided by the Lean model (classify). IDENTITY: in ~40% of the libraries 60-90% of the FILE items "
        "come without `id`, in ~25% half of the files are copies (name, dates) of a file in another folder. FULL FNMATCH SYNTAX: "
        "45% of the pattern filters (and all of the directed stream c18.run/glob) are written for files in sub-folders with "
        "character classes [seq] / [!seq] / ranges / ? / * anywhere (folder part, before the first wildcard), 20% near misses")
ASSUMPTIONS = [
    "file timestamps carry a zone (Graph emits ...Z); filter bounds are timezone-aware datetimes (a naive bound makes "
    "Python raise TypeError inside FileFilter.matches; not part of the property's quantifier)",
    "folder ids are unique and non-empty (WellAddressed in the theorems)",
    "datetime.fromisoformat / str.lower / fnmatch.fnmatch are parameters of the filter theorems; the driver uses a strict "
    "ISO parser, ASCII lower-casing and a */? glob, and the generators stay inside the domain where these agree with CPython",
    "start folders are canonical paths: components separated by single slashes, any number of outer slashes, '' = whole drive; "
    "'a//b' and '/' (only slashes) are outside the quantifier (what Graph answers for them is the server's business; the fake "
    "server ignores empty segments and answers 404 for the empty path)",
    "the healthy server resolves root:/{path} by splitting the request path at literal slashes and percent-decoding every "
    "segment (RFC 3986; an encoded %2F is data), first child with that name that is a file or a folder; names are unique per folder",
    "a 404 at the by-path lookup of a start folder is reported as known finding fault.not-raised.folder-lookup-404, not as a fault "
    "the call must raise; consumers that abandon the generator early (close()) are not modelled",
    "a failure while reading the body of a 2xx response (socket timeout in read()) is not among the property's fault kinds",
    "the JSON -> abstract page conversion of the harness (value missing = [], falsy nextLink = none, ...) mirrors dict.get",
    "optional members are MISSING or present with truthful values (childCount = number of children, parentReference.path = the "
    "parent's path); facets are JSON objects (a null / non-object facet is malformed, not an optional member missing)",
]
TRUSTED = ["fake Graph transport + JSON->abstract conversion in harness/props/c18.py",
           "model S2T/Model/SharePoint.lean of client.py (_send, _get_json, fetch_access_token, get_site_id, "
           "_list_items_paginated, _get_folders_from_url, _walk_drive_items, FileFilter.matches, _parse_iso_datetime, "
           "list_files_filtered / _walk_and_filter / _get_folder_by_path as generators, str.strip('/'), urllib.parse.quote(safe='/'))"]

SITE_URL = "https://contoso.sharepoint.com/sites/Verif"      # same values as tools/gen/sharepoint.py
TENANT = "tenant-0001"
SRV_SITE = "contoso.sharepoint.com,5a58bb09-1fba-41c1-8125-69da264370a0,9f2ec1da-0be4-4a74-9254-973f0add78fd"
BASE = "https://graph.microsoft.com/v1.0"
EPOCH = datetime(1970, 1, 1, tzinfo=timezone.utc)

FAULT_KINDS = ["http4xx", "http5xx", "url", "badjson", "nonobj", "non2xx"]


def _mods():
    from sharepoint2text.sharepoint_io import client as C
    from sharepoint2text.sharepoint_io import exceptions as E
    return C, E


# ============================================================================ library generator
_NAME_STEMS = ["r%2Bd", "100%25", "%41", "report", "Annual Report", "q1 100%", "a#b", "x+y", "r&d", "übersicht", "résumé", "日本語", "a.b",
               "notes (final)", "it's", "v1.2", "UPPER", "MiXed", "data=1", "semi;colon", "tilde~", "at@x", "comma,s", "_", "-"]
_EXTS = [".pdf", ".PDF", ".Pdf", ".docx", ".DOCX", ".txt", ".xlsx", ".tar.gz", "", ".md", ".pdf.bak", ".p"]
_FOLDERS = ["Documents", "Reports", "2024-Q1", "2024-Q2", "General", "My Folder", "50% done", "A#1", "ünï", "x+y", "a.b", "Archive"]
# ESCAPE LOOK-ALIKES: folder names that contain a literal '%' + two hex digits (data, not an escape) -> the name a
# percent-decoding would turn them into.  Both occur as folder names; half of the time the partner is a SIBLING.
_LOOKALIKE = {"Rates %2B fees": "Rates + fees", "Growth 100%25": "Growth 100%", "Q%31": "Q1", "%41rchive": "Archive",
              "50%25 done": "50% done", "x%2By": "x+y", "a%2Fb": "a", "caf%C3%A9": "café", "%2525": "%25", "My%20Folder": "My Folder",
              "q%3f": "q?", "%7e": "~"}
_FOLDER_POOL = _FOLDERS + list(_LOOKALIKE) + ["Rates + fees", "Growth 100%", "Q1", "café", "cafe\u0301", "%25"]


def _ts(rng, base_s):
    """(string, exact value in units of 100ns or None, raw)"""
    r = rng.random()
    if r < 0.06:
        return None
    if r < 0.10:
        return rng.choice(["", "not-a-date", "2024-13-01T00:00:00Z", "2024-01-15TZ", "yesterday", "2024-01-15T10:00:00.1x3Z",
                           "2024-02-30T10:00:00Z", "2024-01-15T25:00:00Z"])
    secs = base_s + rng.randint(-400, 400) * rng.choice([1, 1, 60, 3600, 86400])
    dt = EPOCH + timedelta(seconds=secs)
    nd = rng.choice([0, 0, 1, 2, 3, 3, 6, 7, 7])
    frac = "".join(rng.choice("0123456789") for _ in range(nd))
    if nd and rng.random() < 0.3:
        frac = rng.choice(["9", "5", "0", "999999", "000001", "9999999", "5000000", "4999999"])
    z = rng.random()
    if z < 0.8:
        s = dt.strftime("%Y-%m-%dT%H:%M:%S") + ("." + frac if frac else "") + "Z"
    else:
        oh, om = rng.choice([(0, 0), (2, 0), (5, 30), (-5, 0), (-9, -30), (13, 45)])
        off = timedelta(hours=oh, minutes=om)
        loc = dt + off
        sign = "+" if off >= timedelta(0) else "-"
        a = abs(oh), abs(om)
        s = loc.strftime("%Y-%m-%dT%H:%M:%S") + ("." + frac if frac else "") + f"{sign}{a[0]:02d}:{a[1]:02d}"
    return s


def gen_lib(rng, max_depth=4, max_items=7, budget=None):
    """nested list of nodes; ids unique"""
    counter = [0]
    base_s = 1705312800 + rng.randint(-5, 5) * 86400
    budget = budget or [rng.choice([3, 8, 20, 45])]
    # IDENTITY of the items: `id` is an optional member of a FILE item (a folder needs it to be listed); in ~1/4 of
    # the libraries most files come without it, and in ~1/4 files are copies (same name, same dates) of a file in
    # another folder: whatever a listing keys on (id, name, dates), several files agree on it
    p_noid = rng.choice([0.0, 0.0, 0.0, 0.6, 0.9])
    p_copy = rng.choice([0.0, 0.0, 0.0, 0.5])
    made = []

    def new_id():
        counter[0] += 1
        return "01" + "".join(rng.choice("ABCDEFGHJKLMNPQRSTUVWXYZ234567") for _ in range(10)) + f"{counter[0]:03d}"

    def folder(depth):
        nodes = []
        n = rng.choice([0, 1, 2, 3, 5, max_items]) if depth else rng.randint(1, max_items)
        used = set()
        for _ in range(n):
            if budget[0] <= 0:
                break
            budget[0] -= 1
            r = rng.random()
            if r < 0.55:
                nm = rng.choice(_NAME_STEMS) + rng.choice(_EXTS)
                src = rng.choice(made) if made and p_copy and rng.random() < p_copy else None
                if src is not None and src["name"] not in used:
                    nm = src["name"]
                while nm in used:
                    nm = "c" + nm
                used.add(nm)
                fid = new_id()
                node = {"k": "file", "name": nm, "id": None if p_noid and rng.random() < p_noid else fid,
                        "created": _ts(rng, base_s), "modified": _ts(rng, base_s),
                        "opt": rng.randint(0, 15) | (rng.choice([0, 0, rng.randint(0, 31)]) << 4)}
                if src is not None and nm == src["name"]:
                    node["created"], node["modified"] = src["created"], src["modified"]
                made.append(node)
                if rng.random() < 0.02:
                    node["name"] = None      # `name` key missing
                nodes.append(node)
            elif r < 0.85 and depth < max_depth:
                nm = rng.choice(_FOLDER_POOL if rng.random() < 0.5 else _FOLDERS)
                while nm in used:
                    nm = nm + "_"
                used.add(nm)
                # `fx`: which optional members the folder item carries, INDEPENDENTLY of its real content (see item_json)
                nodes.append({"k": "folder", "name": nm, "id": new_id(), "fx": rng.choice([0, rng.randint(0, 1023), rng.randint(0, 1023)]),
                              "children": folder(depth + 1)})
                twin = _LOOKALIKE.get(nm)
                if twin and twin not in used and "/" not in twin and rng.random() < 0.5:
                    used.add(twin)                     # the sibling that carries the DECODED name
                    nodes.insert(rng.randrange(len(nodes) + 1), {"k": "folder", "name": twin, "id": new_id(), "fx": rng.randint(0, 1023),
                                                                 "children": folder(max(depth + 1, max_depth - 1))})
            elif r < 0.95:
                nodes.append({"k": "other", "name": rng.choice(["Notebook", "pkg"]), "id": new_id()})
            else:
                nodes.append({"k": "junk", "value": rng.choice([None, "str", 5, [1]])})
        return nodes

    return folder(0)


def lib_size(nodes):
    return sum(1 + (lib_size(n["children"]) if n["k"] == "folder" else 0) for n in nodes)


_FSI = {"createdDateTime": "2001-01-01T00:00:00Z", "lastModifiedDateTime": "2031-01-01T00:00:00Z"}


def _parent_ref(parent, pid):
    """truthful `parentReference` (Graph percent-encodes the path)"""
    return {"driveId": "b!drive", "driveType": "documentLibrary", "id": pid or "ROOT",
            "path": "/drive/root:" + ("/" + _ref_quote(parent, safe="/") if parent else "")}


def item_json(n, parent="", pid=None):
    """the Graph driveItem of a node.  OPTIONAL MEMBERS are chosen by the node's option word (`fx` for folders, `opt`
    for files) independently of what the node really is / contains: childCount present or not (truthful when
    present), facet an empty object or with other members, size missing / 0 / n, dates, webUrl, parentReference,
    fileSystemInfo (with timestamps that differ from the item's own), unrelated facets."""
    if n["k"] == "junk":
        return n["value"]
    if n["k"] == "other":
        return {"id": n["id"], "name": n["name"], "package": {"type": "oneNote"}}
    if n["k"] == "folder":
        fx = n.get("fx")
        if fx is None:          # legacy rendering (committed cases / replays written before `fx` existed)
            return {"id": n["id"], "name": n["name"], "folder": {"childCount": len(n["children"])},
                    "webUrl": "https://contoso.sharepoint.com/x", "size": 0,
                    "createdDateTime": "2024-01-01T00:00:00Z", "lastModifiedDateTime": "2024-01-01T00:00:00Z"}
        facet = [{"childCount": len(n["children"])}, {}, {"childCount": len(n["children"]), "view": {"sortBy": "name", "viewType": "thumbnails"}},
                 {"view": {"sortBy": "name"}}][fx & 3]
        d = {"id": n["id"], "name": n["name"], "folder": facet}
        if fx & 4:
            d["size"] = 0 if fx & 64 else 4096 * (1 + len(n["children"]))
        if fx & 8:
            d["createdDateTime"], d["lastModifiedDateTime"] = "2024-01-01T00:00:00Z", "2024-01-01T00:00:00Z"
        if fx & 16:
            d["webUrl"] = "https://contoso.sharepoint.com/x"
        if fx & 32:
            d["parentReference"] = _parent_ref(parent, pid)
        if fx & 128:
            d["specialFolder" if fx & 512 else "shared"] = {"name": "documents"} if fx & 512 else {"scope": "users"}
        if fx & 256:
            d["fileSystemInfo"] = dict(_FSI)
        return d
    o = n.get("opt", 15)
    facet = {"mimeType": "application/octet-stream"} if o & 1 else {}
    if o & 256:
        facet["hashes"] = {"quickXorHash": "AAAA"}
    d = {"id": n["id"], "file": facet}
    if n["id"] is None:
        del d["id"]              # optional member missing
    if n["name"] is not None:
        d["name"] = n["name"]
    if n["created"] is not None:
        d["createdDateTime"] = n["created"]
    if n["modified"] is not None:
        d["lastModifiedDateTime"] = n["modified"]
    if o & 2:
        d["size"] = 0 if o & 16 else 1234
    if o & 4:
        d["webUrl"] = "https://contoso.sharepoint.com/sites/Verif/Shared%20Documents/x"
        d["@microsoft.graph.downloadUrl"] = "https://dl/x"
    if o & 8:
        d["listItem"] = {"fields": {"Title": "t", "Custom": 1, "@odata.etag": "x"}}
    if o & 32:
        d["parentReference"] = _parent_ref(parent, pid)
    if o & 64:
        d["fileSystemInfo"] = dict(_FSI)
    if o & 128:
        d["shared" if o & 16 else "image"] = {"scope": "users"} if o & 16 else {}
    return d


# ============================================================================ fake Graph transport
class FakeResponse:
    def __init__(self, book, status, body):
        self.status, self._body, self.n_close = status, body, 0
        book.append(self)

    def read(self):
        return self._body

    def getcode(self):
        return self.status

    def close(self):
        self.n_close += 1


class FakeFp(io.BytesIO):
    def __init__(self, book, body):
        super().__init__(body)
        self.n_close = 0
        book.append(self)

    def close(self):
        self.n_close += 1
        super().close()


class FakeGraph:
    """healthy server for one library; `faults` = {request index: fault spec}; counts every response object"""

    def __init__(self, lib, page_size, link_style=0, split=0, ropt=0):
        self.lib, self.n, self.link_style = lib, max(1, page_size), link_style
        # `ropt`: optional members of the ANSWERS: 1 = no @odata.context, 2 = an empty page has no `value` member,
        # 4 = @odata.count present, 8 = token / site answers carry their required member only
        self.ropt = ropt
        self.folders = {None: lib}
        self.where = {None: ("", None)}      # folder id -> (its path, its id): for truthful parentReference members
        self._index(lib)
        # page plan per folder: list of (start, end); split=0 -> regular pages of `page_size`;
        # otherwise irregular pages of 0..page_size items (Graph may return short and even empty pages)
        self.plan = {}
        prng = random.Random(split)
        for fid in sorted(self.folders, key=lambda x: x or ""):
            kids, cuts, off, zeros = self.folders[fid], [], 0, 0
            while True:
                if split:
                    size = prng.randint(0 if zeros < 2 else 1, self.n)
                    zeros = zeros + 1 if size == 0 else 0
                else:
                    size = self.n
                cuts.append((off, min(off + size, len(kids))))
                off += size
                if off >= len(kids):
                    break
            self.plan[fid] = cuts
        self.book = []            # every response / HTTPError body object handed out
        self.urls = []            # request log (full_url)
        self.faults = {}
        self.token_url = f"https://login.microsoftonline.com/{TENANT}/oauth2/v2.0/token"
        self.site_url = f"{BASE}/sites/contoso.sharepoint.com:/sites/Verif"

    def _index(self, nodes, parent=""):
        for n in nodes:
            if n["k"] == "folder":
                self.folders[n["id"]] = n["children"]
                path = f"{parent}/{n['name']}" if parent else n["name"]
                self.where.setdefault(n["id"], (path, n["id"]))
                self._index(n["children"], path)

    # ---- healthy answers: (status, bytes) or ("http", code)
    def _children_url(self, fid, pg):
        head = f"{BASE}/sites/{SRV_SITE}/drive/" + ("root" if fid is None else f"items/{fid}") + "/children?$expand=listItem($expand=fields)"
        if pg == 0:
            return head
        if self.link_style == 1:
            return f"{BASE}/$page/{'root' if fid is None else fid}/{pg}?sig=a%20b"
        return head + f"&$skiptoken=Paged%3DTRUE%26p_ID%3D{pg}"

    def _page(self, fid, pg):
        kids = self.folders.get(fid)
        if kids is None or pg >= len(self.plan[fid]):
            return ("http", 404)
        a, b = self.plan[fid][pg]
        here, hid = self.where.get(fid, ("", None))
        d = {"@odata.context": "ctx", "value": [item_json(k, here, hid) for k in kids[a:b]]}
        if self.ropt & 1:
            del d["@odata.context"]
        if self.ropt & 2 and not d["value"]:
            del d["value"]
        if self.ropt & 4:
            d["@odata.count"] = len(kids)
        if pg + 1 < len(self.plan[fid]):
            d["@odata.nextLink"] = self._children_url(fid, pg + 1)
        elif self.link_style == 1:
            d["@odata.nextLink"] = None if a % 2 else ""      # falsy links end the chain
        return (200, json.dumps(d, ensure_ascii=False).encode("utf-8"))

    def _by_path(self, enc):
        """path addressing: the request path is split at literal slashes, then every segment is percent-decoded
        (RFC 3986: an encoded %2F is data, not a delimiter)"""
        nodes = self.lib
        node = None
        parent, pid = "", None
        for part in [unquote(p) for p in enc.split("/") if p]:
            if node is not None:
                parent, pid = (f"{parent}/{node['name']}" if parent else node["name"]), node["id"]
            node = next((n for n in nodes if n["k"] in ("folder", "file") and n.get("name") == part), None)
            if node is None:
                return ("http", 404)
            nodes = node["children"] if node["k"] == "folder" else []
        if node is None:
            return ("http", 404)
        return (200, json.dumps(item_json(node, parent, pid), ensure_ascii=False).encode("utf-8"))

    def healthy(self, url):
        if url == self.token_url:
            if self.ropt & 8:       # only the required member
                return (200, b'{"access_token": "eyJ0.tok"}')
            return (200, b'{"token_type": "Bearer", "expires_in": 3599, "access_token": "eyJ0.tok"}')
        if url == self.site_url:
            if self.ropt & 8:
                return (200, json.dumps({"id": SRV_SITE}).encode())
            return (200, json.dumps({"id": SRV_SITE, "name": "Verif", "webUrl": SITE_URL}).encode())
        pre = f"{BASE}/sites/{SRV_SITE}/drive/"
        if url.startswith(pre):
            rest = url[len(pre):]
            m = re.fullmatch(r"(root|items/([^/?]+))/children\?\$expand=listItem\(\$expand=fields\)(&\$skiptoken=Paged%3DTRUE%26p_ID%3D(\d+))?", rest)
            if m:
                fid = None if m.group(1) == "root" else m.group(2)
                return self._page(fid, int(m.group(4) or 0))
            if rest.startswith("root:/"):
                return self._by_path(rest[len("root:/"):])
        m = re.fullmatch(re.escape(BASE) + r"/\$page/([^/]+)/(\d+)\?sig=a%20b", url)
        if m and self.link_style == 1:
            return self._page(None if m.group(1) == "root" else m.group(1), int(m.group(2)))
        return ("http", 404)

    def all_listing_urls(self):
        urls = [self.token_url, self.site_url]
        for fid in self.folders:
            urls += [self._children_url(fid, pg) for pg in range(len(self.plan[fid]))]
        return urls

    # ---- the urlopen replacement
    def __call__(self, request, timeout=None, **kw):
        url = request.full_url
        k = len(self.urls)
        self.urls.append(url)
        f = self.faults.get(k)
        if f is not None:
            kind = f["kind"]
            if kind in ("http4xx", "http5xx"):
                raise HTTPError(url, f["code"], "fault", {}, FakeFp(self.book, f.get("body", "").encode()))
            if kind == "url":
                raise URLError("connection refused")
            if kind in ("badjson", "nonobj", "emptyobj"):
                return FakeResponse(self.book, 200, f["body"].encode(f.get("enc", "utf-8")))
            if kind == "non2xx":
                return FakeResponse(self.book, f["code"], f.get("body", "").encode())
            raise AssertionError(kind)
        h = self.healthy(url)
        if h[0] == "http":
            raise HTTPError(url, h[1], "not found", {}, FakeFp(self.book, b'{"error": {"code": "itemNotFound"}}'))
        return FakeResponse(self.book, h[0], h[1])

    def open_count(self):
        return len(self.book), sum(1 for r in self.book if r.n_close > 0)


def gen_fault(rng, k, kind=None):
    kind = kind or rng.choice(FAULT_KINDS + (["emptyobj"] if k <= 1 else []))
    if kind == "emptyobj":
        # a well-formed JSON object that lacks what the token / site request needs (only meaningful for k <= 1:
        # for a listing request an empty object is indistinguishable from an empty folder)
        return {"k": k, "kind": kind, "body": rng.choice(["{}", '{"error": {"code": "x"}}', '{"access_token": "", "id": 5}', '{"id": null}'])}
    if kind == "http4xx":
        return {"k": k, "kind": kind, "code": rng.choice([400, 401, 403, 404, 409, 429]), "body": rng.choice(["", '{"error": {"code": "x"}}'])}
    if kind == "http5xx":
        return {"k": k, "kind": kind, "code": rng.choice([500, 502, 503, 504]), "body": rng.choice(["", "<html>bad gateway</html>"])}
    if kind == "url":
        return {"k": k, "kind": kind}
    if kind == "badjson":
        if rng.random() < 0.35:
            # bytes that are not valid UTF-8: an undecoded gzip payload, a body cut inside a multi-byte character
            return {"k": k, "kind": kind, "enc": "latin-1",
                    "body": rng.choice(["\x1f\x8b\x08\x00\x00\x00", '{"value": [{"name": "caf\xc3', "\xff\xfe{\x00}\x00", '{"a": "\xe2\x82'])}
        return {"k": k, "kind": kind, "body": rng.choice(["", "<html>login</html>", '{"value": [', "{'a': 1}", "\ufeff{}x"])}
    if kind == "nonobj":
        return {"k": k, "kind": kind, "body": rng.choice(["[1, 2]", '"x"', "null", "5", "[]", "true"])}
    return {"k": k, "kind": "non2xx", "code": rng.choice([100, 199, 300, 302, 304, 404, 500, 503]),
            "body": rng.choice(["", "{}", '{"value": []}', "moved"])}


# ============================================================================ filters
def dt_to_us(dt):
    return (dt - EPOCH) // timedelta(microseconds=1)


def us_to_dt(us, off_min=0):
    return (EPOCH + timedelta(microseconds=us)).astimezone(timezone(timedelta(minutes=off_min)))


_TS_RE = re.compile(r"(\d{4})-(\d\d)-(\d\d)T(\d\d):(\d\d):(\d\d)(?:\.(\d*))?(Z|[+-]\d\d:\d\d)")


def ref_ticks(s):
    """exact value of a Graph timestamp as a Fraction of microseconds, or None (reference parser, regex based)"""
    if not isinstance(s, str):
        return None
    m = _TS_RE.fullmatch(s)
    if not m:
        return None
    y, mo, d, h, mi, se = (int(m.group(i)) for i in range(1, 7))
    try:
        dt = datetime(y, mo, d, h, mi, se, tzinfo=timezone.utc)
    except ValueError:
        return None
    z = m.group(8)
    off = 0
    if z != "Z":
        oh, om = int(z[1:3]), int(z[4:6])
        if oh > 23 or om > 59:
            return None
        off = (oh * 60 + om) * (1 if z[0] == "+" else -1)
    frac = m.group(7) or ""
    if frac and not frac.isascii():
        return None
    us = Fraction(dt_to_us(dt) - off * 60 * 10**6)
    if frac:
        us += Fraction(int(frac), 10 ** len(frac)) * 10**6
    return us


def all_files(lib, parent=""):
    out = []
    for n in lib:
        if n["k"] == "file":
            out.append((n["name"] if n["name"] is not None else "", n["id"] if n["id"] is not None else "", n["created"], n["modified"], parent))
        elif n["k"] == "folder":
            out += all_files(n["children"], f"{parent}/{n['name']}" if parent else n["name"])
    return out


_CLASS_OK = "ABCDEFGHIJKLMNOPQRSTUVWXYZabcdefghijklmnopqrstuvwxyz0123456789"


def glob_from_path(rng, full, hit=True):
    """an fnmatch pattern written FOR the path `full` in the full fnmatch syntax: literal text, `?`, `*` (which spans
    '/') and character classes `[seq]`, `[!seq]`, `[a-z]` placed anywhere - also in the folder part and before the
    first `*` / `?`.  `hit`: every replacement accepts the character it replaces (the pattern matches `full`);
    otherwise one class is turned against its character (the pattern is a near miss).  Classes are written only
    for ASCII letters / digits and contain only such characters (no `]`, `\\`, `^`, `-` as members)."""
    cand = [i for i, ch in enumerate(full) if ch in _CLASS_OK]
    if not cand:
        return full
    spoil = None if hit else rng.choice(cand)
    n_cls = rng.choice([1, 1, 2, 3])
    at = set(rng.sample(cand, min(n_cls, len(cand)))) | ({spoil} if spoil is not None else set())
    star = rng.random() < 0.6
    cut = rng.randrange(len(full) + 1) if star else None       # `*` replaces a stretch starting here
    cut_len = rng.choice([0, 1, 3, len(full)]) if star else 0
    out = []
    i = 0
    while i < len(full):
        ch = full[i]
        if cut is not None and i == cut:
            out.append("*")
            if cut_len and not any(cut <= j < cut + cut_len for j in at):
                i += cut_len
                continue
        if i in at:
            others = "".join(rng.sample([c for c in _CLASS_OK if c != ch], rng.randint(0, 3)))
            bad = (i == spoil)
            form = rng.randrange(4)
            if form == 0:                                   # [seq] with / without the character
                mem = list(others + ("" if bad else ch)) or ["0" if ch != "0" else "1"]
                rng.shuffle(mem)
                out.append("[" + "".join(mem) + "]")
            elif form == 1:                                 # [!seq]
                mem = list((others or ("z" if ch != "z" else "y")) + (ch if bad else ""))
                rng.shuffle(mem)
                out.append("[!" + "".join(mem) + "]")
            elif form == 2:                                 # range
                lo, hi = ("a", "z") if ch.islower() else ("A", "Z") if ch.isupper() else ("0", "9")
                if bad:
                    lo, hi = ("A", "Z") if ch.islower() else ("a", "z")
                out.append(f"[{lo}-{hi}]" if rng.random() < 0.6 else f"[_{lo}-{hi}{others}]")
            else:                                           # both cases of a letter / a digit class
                mem = (ch.lower() + ch.upper()) if ch.isalpha() else "0123456789"
                if bad:
                    mem = "".join(c for c in mem if c != ch) or "Q"
                out.append("[" + mem + "]")
        elif ch in _CLASS_OK and rng.random() < 0.05:
            out.append("?")
        else:
            out.append(ch)
        i += 1
    if cut is not None and cut == len(full):
        out.append("*")
    return "".join(out)


def gen_filter(rng, lib, focus=None):
    files = all_files(lib)
    stamps = [t for f in files for t in (ref_ticks(f[2]), ref_ticks(f[3])) if t is not None]

    def bound():
        if stamps and rng.random() < 0.85:
            t = rng.choice(stamps)
            base = int(t)  # floor to µs
            return base + rng.choice([0, 0, 0, 1, -1, 500000, -500000, -(base % 10**6), 10**6 - (base % 10**6), 86400 * 10**6])
        return 1705312800 * 10**6 + rng.randint(-10**12, 10**12)

    f = {"ca": None, "cb": None, "ma": None, "mb": None, "pats": [], "exts": [], "offs": rng.choice([0, 0, 120, -330])}
    r = rng.random()
    for key in ("ca", "cb", "ma", "mb"):
        if rng.random() < (0.35 if r < 0.8 else 0.0):
            f[key] = bound()
    if rng.random() < 0.35:
        f["exts"] = rng.sample([".pdf", ".PDF", ".docx", ".Docx", ".txt", ".gz", ".tar.gz", "pdf", ".p", ".bak", ".MD", "f"], rng.randint(1, 3))
    if rng.random() < 0.35 or focus == "glob":
        pats = ["*", "*.pdf", "*.PDF", "*/*", "*/*/*", "Reports/*", "Documents/*.docx", "2024-*/*", "?eport*", "*report*", "*.t?t",
                "*/Annual Report*", "Archive/*/*", "*%*", "*#*", "a.b/*", "*/a.b*", "report.pdf", "*ü*", "*日本*", "", "*/"]
        if files and rng.random() < 0.5:
            nm, _, _, _, par = rng.choice(files)
            full = f"{par}/{nm}" if par else nm
            if "[" not in full:
                pats += [full, nm, par + "/*" if par else "*", full[:-1] + "?", "*" + full[len(full) // 2:]]
        f["pats"] = rng.sample(pats, rng.randint(1, 2))
        deep = [m for m in files if m[4] and not any(c in (m[4] + m[0]) for c in "[]*?")]
        if deep and (rng.random() < 0.45 or focus == "glob"):
            # the full fnmatch syntax, written for files that lie in SUB-FOLDERS (the deeper the better): classes
            # in the folder part, before the first `*`; alone or next to an unrelated pattern; sometimes a near miss
            deep.sort(key=lambda m: m[4].count("/"))
            nm, _, _, _, par = rng.choice(deep[len(deep) // 2:] if rng.random() < 0.6 else deep)
            own = [glob_from_path(rng, f"{par}/{nm}", hit=rng.random() < 0.8) for _ in range(rng.choice([1, 1, 2]))]
            if rng.random() < 0.5:
                own[0] = glob_from_path(rng, par, hit=rng.random() < 0.85) + rng.choice(["/*", "/*", "/*" + nm[-3:], "*"])
            f["pats"] = own + (rng.sample(f["pats"], 1) if rng.random() < 0.3 else [])
    return f


def all_folders(lib, parent=""):
    out = []
    for n in lib:
        if n["k"] == "folder":
            p = f"{parent}/{n['name']}" if parent else n["name"]
            out.append(p)
            out += all_folders(n["children"], p)
    return out


def _related(a, b):
    """a is b, an ancestor of b or a descendant of b (component-wise; '' is the drive root)"""
    ca, cb = [x for x in a.strip("/").split("/") if x], [x for x in b.strip("/").split("/") if x]
    k = min(len(ca), len(cb))
    return ca[:k] == cb[:k]


def gen_folders(rng, lib, independent=None):
    """start folders: existing folders at any depth (names needing quoting included), decorated with outer slashes,
    missing folders, paths of files, string-prefix siblings; mostly mutually unrelated, sometimes nested / repeated
    (known finding folder_paths.duplicate).  Canonical paths only: no empty inner component, not only slashes."""
    paths = all_folders(lib)
    files = [(f"{m[4]}/{m[0]}" if m[4] else m[0]) for m in all_files(lib) if m[0] and "/" not in m[0]]
    independent = rng.random() < 0.8 if independent is None else independent
    out = []
    for _ in range(rng.choice([1, 1, 2, 2, 3, 4])):
        r = rng.random()
        if paths and r < 0.7:
            p = rng.choice(paths)
        elif r < 0.8:
            p = (rng.choice(paths) + rng.choice(["x", "-old", " 2", "_"])) if paths else "Nope"
        elif r < 0.88 and files:
            p = rng.choice(files)
        elif r < 0.94:
            p = rng.choice(["Missing", "Documents/None", "ünï/none", "a b/c%d"])
        elif r < 0.97 and not independent:
            p = ""                                   # falsy entry: the whole drive
        else:
            p = rng.choice(paths) if paths else "Nope"
        if p:
            d = rng.random()
            p = ("/" if d < 0.12 else "//" if d < 0.15 else "") + p + ("/" if 0.08 < d < 0.2 else "")
        if independent and any(_related(p, q) for q in out):
            continue
        out.append(p)
    return out or [rng.choice(paths) if paths else "Nope"]


def build_filter(C, f):
    kw = {}
    for key, name in (("ca", "created_after"), ("cb", "created_before"), ("ma", "modified_after"), ("mb", "modified_before")):
        if f.get(key) is not None:
            kw[name] = us_to_dt(f[key], f.get("offs", 0))
    return C.FileFilter(path_patterns=list(f.get("pats", [])), extensions=list(f.get("exts", [])),
                        folder_paths=list(f.get("folders", [])), **kw)


def ref_matches(f, meta):
    """the documented meaning of a filter, independent of client.py and of the Lean model"""
    name, _id, created, modified, parent = meta
    for raw, a, b in ((created, f.get("ca"), f.get("cb")), (modified, f.get("ma"), f.get("mb"))):
        if a is None and b is None:
            continue
        t = ref_ticks(raw)
        if t is None:
            return False
        if a is not None and not (t >= a):       # inclusive after
            return False
        if b is not None and not (t < b):        # exclusive before
            return False
    if f.get("exts") and not any(name.lower().endswith(e.lower()) for e in f["exts"]):
        return False
    if f.get("pats"):
        full = f"{parent}/{name}" if parent else name
        if not any(fnmatch.fnmatchcase(full, p) for p in f["pats"]):
            return False
    return True


# ============================================================================ running the real client
class patched_urlopen:
    def __init__(self, fake):
        self.fake = fake

    def __enter__(self):
        C, _ = _mods()
        self.C, self.saved = C, C.urlopen
        C.urlopen = self.fake
        return self

    def __exit__(self, *a):
        self.C.urlopen = self.saved
        return False


def new_client():
    C, _ = _mods()
    return C.SharePointRestClient(SITE_URL, C.EntraIDAppCredentials(TENANT, "client-id", "secret"))


def meta_tuple(m):
    return (m.name, m.id, m.created, m.last_modified, m.parent_path or "")


def do_call(client, call):
    """('ok', [meta tuples]) | ('err', exception)"""
    C, E = _mods()
    got = []
    try:
        if call["kind"] == "all":
            got = [meta_tuple(m) for m in client.list_all_files()]
        else:
            # list_files_filtered is a generator: keep what it delivered before an exception
            for m in _filtered_iter(C, client, call):
                got.append(meta_tuple(m))
        return ("ok", got, [])
    except Exception as e:  # noqa: BLE001 - the property is about which exceptions may escape
        return ("err", e, got)


def _filtered_iter(C, client, call):
    """list_files_filtered, or one of its two convenience wrappers (`via`) with the same meaning"""
    f = call["filter"]
    via = call.get("via")
    if via in ("modified_since", "created_since"):
        key = "ma" if via == "modified_since" else "ca"
        assert all(f.get(k) is None for k in ("ca", "cb", "ma", "mb") if k != key) and not f.get("pats") and f.get(key) is not None
        fn = client.list_files_modified_since if via == "modified_since" else client.list_files_created_since
        return fn(us_to_dt(f[key], f.get("offs", 0)), folder_paths=list(f.get("folders") or []) or None,
                  extensions=list(f.get("exts") or []) or None)
    return client.list_files_filtered(build_filter(C, f))


def run_real(case):
    """runs case['calls'] on one client; fault (if any) applies to absolute request index k.
    returns list of dicts {res, files|exc..., opened, closed, reqs, urls}"""
    _, E = _mods()
    fake = FakeGraph(case["lib"], case["page"], case.get("link", 0), case.get("split", 0), case.get("ropt", 0))
    if case.get("fault"):
        fake.faults[case["fault"]["k"]] = case["fault"]
    outs = []
    with patched_urlopen(fake):
        client = new_client()
        for call in case["calls"]:
            kind, val, part = do_call(client, call)
            opened, closed = fake.open_count()     # looked at while `val` (the exception) is still alive
            o = {"opened": opened, "closed": closed, "reqs": len(fake.urls), "last": fake.urls[-1] if fake.urls else None,
                 "partial": part, "paths": [u for u in fake.urls if "/drive/root:/" in u]}
            if kind == "ok":
                o.update(res="ok", files=val)
            else:
                e = val
                o["res"] = "err"
                o["exc"] = type(e).__name__
                if isinstance(e, E.SharePointRequestError):
                    o.update(kind="request", status=e.status_code, url=e.url)
                elif isinstance(e, E.SharePointAuthError):
                    o.update(kind="auth")
                elif isinstance(e, E.SharePointError):
                    o.update(kind="family:" + type(e).__name__)
                else:
                    o.update(kind="other:" + type(e).__name__)
            outs.append(o)
            del val
    return outs, fake


# ============================================================================ abstract (driver) view
def _raw_facet(x, key):
    if key not in x:
        return None
    v = x[key]
    if not isinstance(v, dict):
        raise AssertionError(f"non-object {key} facet: outside what the fake Graph emits")
    return {"cc": v.get("childCount"), "extra": bool(set(v) - {"childCount"})}


def abs_item(x):
    """a RAW item for the driver: which members are present and what shape the facets have.  What the item IS
    (folder / file / neither) is decided by the Lean model (`classify`), not here."""
    if not isinstance(x, dict):
        return {"t": "raw", "dict": False}
    return {"t": "raw", "dict": True, "name": x.get("name"), "hasId": "id" in x, "id": x.get("id"),
            "folder": _raw_facet(x, "folder"), "file": _raw_facet(x, "file"),
            "created": x.get("createdDateTime"), "modified": x.get("lastModifiedDateTime"),
            "opt": {"size": x.get("size"), "webUrl": "webUrl" in x, "downloadUrl": "@microsoft.graph.downloadUrl" in x,
                    "parentRef": "parentReference" in x, "fileSystemInfo": "fileSystemInfo" in x, "listItem": "listItem" in x,
                    "extraFacet": any(k in x for k in ("shared", "image", "specialFolder", "package"))}}


def abs_body(b):
    try:
        data = json.loads(b.decode("utf-8", errors="replace"))
    except json.JSONDecodeError:
        return {"t": "notjson"}
    if not isinstance(data, dict):
        return {"t": "nonobj"}
    tok, sid = data.get("access_token"), data.get("id")
    return {"t": "obj", "token": tok if (isinstance(tok, str) and tok) else None, "id": sid if isinstance(sid, str) else None,
            "value": [abs_item(x) for x in data.get("value", [])], "next": data.get("@odata.nextLink") or None,
            "folder": "folder" in data}


def abs_outcome(h):
    if h[0] == "http":
        return {"t": "http", "code": h[1]}
    return {"t": "resp", "status": h[0], "body": abs_body(h[1])}


def abs_fault(f):
    if f["kind"] in ("http4xx", "http5xx"):
        return {"t": "http", "code": f["code"]}
    if f["kind"] == "url":
        return {"t": "url"}
    if f["kind"] in ("badjson", "nonobj", "emptyobj"):
        return {"t": "resp", "status": 200, "body": abs_body(f["body"].encode(f.get("enc", "utf-8")))}
    return {"t": "resp", "status": f["code"], "body": abs_body(f.get("body", "").encode())}


def by_path_url(folder_path):
    """the request the healthy server expects for a start folder: RFC 3986 percent-encoding of the UTF-8 bytes of the
    path without its outer slashes, `/` kept (reference spelling, independent of client.py)"""
    return f"{BASE}/sites/{SRV_SITE}/drive/root:/" + _ref_quote(folder_path.strip("/"), safe="/")


def driver_request(case):
    fake = FakeGraph(case["lib"], case["page"], case.get("link", 0), case.get("split", 0), case.get("ropt", 0))
    urls = fake.all_listing_urls()
    for c in case["calls"]:
        for fp in (c.get("filter", {}).get("folders") or []) if c["kind"] == "filtered" else []:
            u = by_path_url(fp)
            if u not in urls:
                urls.append(u)
    table = [[u, abs_outcome(fake.healthy(u))] for u in urls]
    faults = [[case["fault"]["k"], abs_fault(case["fault"])]] if case.get("fault") else []
    calls = []
    for c in case["calls"]:
        if c["kind"] == "all":
            calls.append({"kind": "all"})
        else:
            f = c["filter"]
            calls.append({"kind": "filtered", "filter": {k: f.get(k) for k in ("ca", "cb", "ma", "mb")}
                          | {"pats": f["pats"], "exts": f["exts"], "folders": list(f.get("folders") or [])}})
    return {"op": "c18.run", "table": table, "faults": faults, "calls": calls, "fuel": 3 * lib_size(case["lib"]) + 12}


def compare(real, model):
    """list of differences between the real client's run and the model's"""
    diffs = []
    if "drv_error" in model:
        return ["driver: " + model["drv_error"]]
    for i, (r, m) in enumerate(zip(real, model["calls"])):
        for key in ("opened", "closed", "reqs"):
            if r[key] != m[key]:
                diffs.append(f"call {i}: {key} impl={r[key]} model={m[key]}")
        if r["paths"] != m.get("paths"):
            diffs.append(f"call {i}: start-folder requests impl={r['paths']} model={m.get('paths')}")
        if r["res"] != m["res"]:
            diffs.append(f"call {i}: impl={r['res']}:{r.get('exc', '')}:{r.get('kind', '')} model={m['res']}:{m.get('kind', '')}")
            continue
        mp = [(f["name"], f["id"], f["created"], f["modified"], f["parent"]) for f in m.get("partial", [])]
        if r["partial"] != mp:
            diffs.append(f"call {i}: delivered before the error impl={r['partial'][:4]} ({len(r['partial'])}) model={mp[:4]} ({len(mp)})")
        if r["res"] == "ok":
            mf = [(f["name"], f["id"], f["created"], f["modified"], f["parent"]) for f in m["files"]]
            if r["files"] != mf:
                only_r = [x for x in r["files"] if x not in mf][:3]
                only_m = [x for x in mf if x not in r["files"]][:3]
                diffs.append(f"call {i}: listings differ (impl {len(r['files'])} files, model {len(mf)}); only impl={only_r} only model={only_m}"
                             + ("" if only_r or only_m else " [order]"))
        else:
            if r["kind"] != m["kind"]:
                diffs.append(f"call {i}: error impl={r['kind']} model={m['kind']}")
            elif r["kind"] == "request" and (r["status"] != m["status"] or r["url"] != m["url"]):
                diffs.append(f"call {i}: request error impl=({r['status']},{r['url']}) model=({m['status']},{m['url']})")
    return diffs


# ============================================================================ the property oracle (real code only)
def oracle_case(case):
    """Violations of the property statement on the real client for one case (independent of the Lean model)."""
    out = []

    def add(key, what):
        if not any(v.key == key for v in out):
            out.append(Violation(key, what, {"case": case}))

    real, fake = run_real(case)
    spec = all_files(case["lib"])
    fault = case.get("fault")
    for i, (call, r) in enumerate(zip(case["calls"], real)):
        first_req = 0 if i == 0 else real[i - 1]["reqs"]
        hit = fault is not None and first_req <= fault["k"] < r["reqs"]
        if call["kind"] == "all":
            want = spec
        else:
            f = call["filter"]
            if f.get("folders"):
                want = [m for m in spec if _under(m[4], f["folders"]) and ref_matches(f, m)]
            else:
                want = [m for m in spec if ref_matches(f, m)]
        what_call = "list_all_files" if call["kind"] == "all" else f"list_files_{call.get('via') or 'filtered'}({_fdesc(call['filter'])})"
        if r["opened"] != r["closed"]:
            add("fault.response-not-closed" if hit else "listing.response-not-closed",
                f"{what_call}: {r['opened']} responses opened, {r['closed']} closed after the call"
                + (f" (fault {fault['kind']} at request {fault['k']})" if hit else ""))
        if r.get("partial"):
            # delivered before the exception: nothing wrong, nothing twice (sub-multiset of the expected listing)
            extra = list((Counter(r["partial"]) - Counter(want)).elements())[:3]
            if extra:
                dup = all(x in want for x in extra)
                key = ("folder_paths." if call["kind"] == "filtered" and call["filter"].get("folders") else "lazy.") + ("duplicate" if dup else "mismatch")
                add(key, f"{what_call} page_size={case['page']}: delivered before the error ({r.get('exc')}): "
                    f"{'twice' if dup else 'not part of the listing'}: {extra}")
        if hit:
            if r["res"] == "ok":
                url_k = fake.urls[fault["k"]]
                lookup404 = "/drive/root:/" in url_k and fault.get("code") == 404
                add("fault.not-raised.folder-lookup-404" if lookup404 else "fault.not-raised",
                    f"{what_call}: request {fault['k']} ({url_k.split('/drive/')[-1]}) failed ({fault['kind']}"
                    f"{' ' + str(fault['code']) if 'code' in fault else ''}) but the call returned {len(r['files'])} files without raising")
                continue
            if not r["kind"].startswith(("request", "auth", "family")):
                add("fault.foreign-exception", f"{what_call}: {fault['kind']} fault (body {fault.get('body')!r}) at request {fault['k']} "
                    f"escaped as {r['exc']} (not a SharePointError)")
                continue
            url_k = fake.urls[fault["k"]]
            if fault["kind"] in ("http4xx", "http5xx", "non2xx"):
                if r["kind"] != "request" or r["status"] != fault["code"] or r["url"] != url_k:
                    add("fault.status-url", f"{what_call}: {fault['kind']} {fault['code']} at request {fault['k']} ({url_k}) raised "
                        f"{r['exc']} status={r.get('status')} url={r.get('url')}")
            elif fault["kind"] == "url":
                if r["kind"] != "request" or r["status"] is not None or r["url"] != url_k:
                    add("fault.status-url", f"{what_call}: URLError at request {fault['k']} ({url_k}) raised {r['exc']} "
                        f"status={r.get('status')} url={r.get('url')}")
            continue
        # no fault hit in this call: it must return exactly the matching files, once each, with parent paths
        if r["res"] != "ok":
            add("listing.raises-on-healthy-transport", f"{what_call} on a healthy transport raised {r['exc']} {r.get('status')} {r.get('url')}"
                + (" (retry after a fault)" if fault and fault["k"] < first_req else ""))
            continue
        got, exp = Counter(r["files"]), Counter(want)
        if got != exp:
            missing = list((exp - got).elements())[:3]
            extra = list((got - exp).elements())[:3]
            kind = "listing" if call["kind"] == "all" else "filter"
            sub = "duplicate" if (not missing and all(x in exp for x in extra)) else ("missing" if missing and not extra else "mismatch")
            key = f"{kind}.{sub}"
            if kind == "filter" and call["filter"].get("folders"):
                key = "folder_paths." + sub
            add(key, f"{what_call} page_size={case['page']}: expected {sum(exp.values())} files, got {sum(got.values())}; "
                f"missing={missing} unexpected/duplicated={extra}")
    return out


def _under(parent, folders):
    """the file's parent folder is one of the start folders or below one ('' = falsy entry = the drive root)"""
    return any(fp == "" or parent == fp.strip("/") or parent.startswith(fp.strip("/") + "/") for fp in folders)


def _fdesc(f):
    parts = []
    for key, name in (("ca", "created_after"), ("cb", "created_before"), ("ma", "modified_after"), ("mb", "modified_before")):
        if f.get(key) is not None:
            parts.append(f"{name}={us_to_dt(f[key], f.get('offs', 0)).isoformat()}")
    for key in ("exts", "pats", "folders"):
        if f.get(key):
            parts.append(f"{key}={f[key]}")
    return ", ".join(parts)


# ============================================================================ case streams
def gen_case(rng, with_fault=None, filtered=None, focus=None):
    """`focus`='glob': a filtered call whose patterns use the full fnmatch syntax and are written for files in
    sub-folders of a library that has some (directed stream: the patterns alone decide what is listed)"""
    lib = gen_lib(rng) if focus is None else gen_lib(rng, budget=[rng.choice([8, 20, 45])])
    page = rng.choice([1, 1, 2, 3, 5, 100])
    filtered = rng.random() < 0.5 if filtered is None else filtered
    call = {"kind": "filtered", "filter": gen_filter(rng, lib, focus)} if filtered else {"kind": "all"}
    if focus == "glob":
        call["filter"].update(ca=None, cb=None, ma=None, mb=None, exts=[])
        if rng.random() < 0.25:
            # start folders that are ancestors of the files the patterns were written for
            anc = sorted({"/".join(p.split("/")[:k]) for p in all_folders(lib) for k in range(1, p.count("/") + 2)})
            if anc:
                call["filter"]["folders"] = [rng.choice(anc)]
    elif filtered and rng.random() < 0.45:
        call["filter"]["folders"] = gen_folders(rng, lib)
        if rng.random() < 0.5:                       # mostly look at the start folders themselves
            call["filter"].update(ca=None, cb=None, ma=None, mb=None, pats=[], exts=[])
    if filtered and focus is None and rng.random() < 0.2:
        # the convenience wrappers list_files_modified_since / list_files_created_since (also "filtered listings"):
        # one inclusive lower bound, optional extensions and start folders
        f = call["filter"]
        key = rng.choice(["ma", "ca"])
        since = f.get(key) if f.get(key) is not None else gen_filter(rng, lib).get(key)
        if since is None:
            since = 1705312800 * 10**6
        f.update(ca=None, cb=None, ma=None, mb=None, pats=[])
        f[key] = since
        call["via"] = "modified_since" if key == "ma" else "created_since"
    case = {"lib": lib, "page": page, "link": rng.choice([0, 0, 1]), "split": rng.choice([0, 0, rng.randint(1, 10**6)]),
            "ropt": rng.choice([0, 0, rng.randint(0, 15)]), "calls": [call]}
    if with_fault is None:
        with_fault = rng.random() < 0.6
    if with_fault:
        real, _ = run_real(case)
        total = real[0]["reqs"]
        case["fault"] = gen_fault(rng, rng.randrange(total))
        case["calls"] = [call, {"kind": "all"}] if rng.random() < 0.7 else [call, call]
    elif rng.random() < 0.3:
        case["calls"] = [call, {"kind": "all"}]          # second call on warm caches
    return case


def fingerprint(case):
    return json.dumps(case, sort_keys=True, ensure_ascii=True)


def every_fault_cases(rng, lib, page, call):
    """fault at EVERY request index of the run x every kind, each followed by a healthy retry"""
    base = {"lib": lib, "page": page, "link": 0, "calls": [call]}
    real, _ = run_real(base)
    for k in range(real[0]["reqs"]):
        for kind in FAULT_KINDS + (["emptyobj"] if k <= 1 else []):
            c = dict(base)
            c["fault"] = gen_fault(rng, k, kind)
            c["calls"] = [call, {"kind": "all"}]
            yield c


# hand-written regression cases: the three repaired defects, boundaries
def fixed_cases():
    f = lambda nm, c, m: {"k": "file", "name": nm, "id": "ID" + nm, "created": c, "modified": m, "opt": 15}  # noqa: E731
    lib = [f("a.txt", "2024-01-15T10:00:00.9Z", "2024-01-15T10:00:00.9Z"),
           {"k": "folder", "name": "Q 1", "id": "F1", "children": [
               f("b.PDF", "2024-01-15T10:00:00Z", "2024-01-15T10:00:00.5Z"),
               {"k": "other", "name": "nb", "id": "O1"},
               {"k": "folder", "name": "deep", "id": "F2", "children": [f("c.docx", "2024-01-15T12:00:00.0000001+02:00", None)]}]},
           f("z.txt", "2024-01-15T09:59:59.999999Z", "2024-01-15T10:00:00.4999999Z")]
    t = 1705312800 * 10**6
    cases = []
    for flt in ({"ma": t + 500000}, {"mb": t + 500000}, {"ca": t + 900000, "cb": t + 900001}, {"ca": t, "cb": t + 1},
                {"exts": [".pdf"]}, {"pats": ["Q 1/*"]}, {"pats": ["*.docx"]}, {"ma": t + 499999, "mb": t + 500000}):
        full = {"ca": None, "cb": None, "ma": None, "mb": None, "pats": [], "exts": [], "offs": 0}
        full.update(flt)
        cases.append({"lib": lib, "page": 1, "link": 0, "calls": [{"kind": "filtered", "filter": full}]})
    for k, flt in ((2, {"k": 2, "kind": "http5xx", "code": 503, "body": "x"}), (4, {"k": 4, "kind": "nonobj", "body": "[1, 2]"}),
                   (0, {"k": 0, "kind": "nonobj", "body": "[1, 2]"}), (1, {"k": 1, "kind": "non2xx", "code": 302, "body": ""}),
                   (7, {"k": 7, "kind": "url"}), (3, {"k": 3, "kind": "badjson", "body": "<html>"}), (0, {"k": 0, "kind": "badjson", "body": ""}),
                   (1, {"k": 1, "kind": "emptyobj", "body": "{}"}), (0, {"k": 0, "kind": "emptyobj", "body": "{}"})):
        cases.append({"lib": lib, "page": 1, "link": 0, "calls": [{"kind": "all"}, {"kind": "all"}], "fault": flt})
    return cases


# ============================================================================ harness entry points
def _walk_folders(lib):
    for n in lib:
        if n["k"] == "folder":
            yield n, lib
            yield from _walk_folders(n["children"])


def _lib_stats(ctx, lib):
    look = twin = nocount = 0
    for n, sibs in _walk_folders(lib):
        if re.search(r"%[0-9A-Fa-f]{2}", n["name"]):
            look += 1
            if any(m["k"] == "folder" and m is not n and m["name"] == unquote(n["name"]) for m in sibs):
                twin += 1
        if n.get("fx") is not None and n["fx"] & 1 and n["children"]:
            nocount += 1
    if look:
        ctx.count("names/escape look-alike folder" + ("/with decoded sibling" if twin else ""))
    if nocount:
        ctx.count("facets/non-empty folder without childCount")


def _case_stats(ctx, case, real):
    ctx.count("call/" + case["calls"][0]["kind"] + ("/" + case["calls"][0]["via"] if case["calls"][0].get("via") else ""))
    _lib_stats(ctx, case["lib"])
    ctx.count("page_size/" + str(case["page"]) + ("/irregular" if case.get("split") else ""))
    ctx.count("fault/" + (case["fault"]["kind"] if case.get("fault") else "none"))
    fs = all_files(case["lib"])
    if sum(1 for m in fs if m[1] == "") >= 2:
        ctx.count("identity/two or more files without id")
    if len({(m[0], m[2], m[3]) for m in fs}) < len(fs):
        ctx.count("identity/files equal up to id and folder")
    pats = case["calls"][0].get("filter", {}).get("pats", []) if case["calls"][0]["kind"] == "filtered" else []
    if any("[" in p for p in pats):
        deep = any(m[4] and any(fnmatch.fnmatchcase(f"{m[4]}/{m[0]}", p) for p in pats) for m in fs)
        ctx.count("patterns/character class" + ("/matching a file in a sub-folder" if deep else ""))
        if any("[" in re.split(r"[*?]", p)[0] for p in pats):
            ctx.count("patterns/character class before the first * or ?")
    fl = case["calls"][0].get("filter", {}).get("folders") if case["calls"][0]["kind"] == "filtered" else None
    if fl:
        ctx.count("start_folders/" + str(len(fl)) + ("" if not any(_related(a, b) for i, a in enumerate(fl) for b in fl[i + 1:]) else "/related"))
        ctx.count("start_folders/by-path requests/" + str(len(real[0]["paths"])))
    if any(r.get("partial") for r in real):
        ctx.count("lazy/files delivered before the error")
    ctx.count("result/" + "+".join(r["res"] if r["res"] == "ok" else r.get("kind", "?").split(":")[0] for r in real))
    n = lib_size(case["lib"])
    ctx.count("lib_nodes/" + ("0-3" if n <= 3 else "4-10" if n <= 10 else "11-25" if n <= 25 else "26+"))
    ctx.count("requests/" + ("<=5" if real[-1]["reqs"] <= 5 else "6-20" if real[-1]["reqs"] <= 20 else "21+"))


def _run_cases(ctx, cases, broken, label):
    reqs, reals = [], []
    for case in cases:
        real, _ = run_real(case)
        reals.append(real)
        reqs.append(driver_request(case))
    outs = ctx.drive(reqs)
    bad = 0
    for case, real, o in zip(cases, reals, outs):
        nontriv = bool(case.get("fault")) or case["calls"][0]["kind"] == "filtered" or any(n["k"] == "folder" for n in case["lib"])
        ctx.case(fingerprint(case), nontrivial=nontriv)
        _case_stats(ctx, case, real)
        d = compare(real, o)
        if d:
            bad += 1
            if bad <= 8:
                broken.append(Broken("correspondence", "c18.run/" + label, "; ".join(d[:4]), case={"case": case}))
    return bad


def correspondence(ctx):
    broken, violations = [], []
    rng = ctx.rng
    C, E = _mods()
    mism = 0
    # 1. committed regression cases
    mism += _run_cases(ctx, fixed_cases(), broken, "regression")
    # 2. structured stream: random libraries x calls x (fault + retry)
    cases = [gen_case(rng) for _ in range(ctx.n(1500, 30000))]
    mism += _run_cases(ctx, cases, broken, "random")
    # 2b. directed: patterns in the full fnmatch syntax (classes, `?`, `*` anywhere) written for files in sub-folders
    globs = [gen_case(rng, with_fault=(rng.random() < 0.25), filtered=True, focus="glob") for _ in range(ctx.n(300, 4000))]
    mism += _run_cases(ctx, globs, broken, "glob")
    for c in cases[:3]:
        ctx.sample({"page": c["page"], "nodes": lib_size(c["lib"]), "call": c["calls"][0]["kind"],
                    "fault": c.get("fault"), "impl": [{k: v for k, v in r.items() if k != "files"} | ({"n_files": len(r["files"])} if "files" in r else {})
                                                      for r in run_real(c)[0]]})
    # 3. exhaustive fault schedule: every request index x every kind on a few libraries
    ex = []
    for _ in range(ctx.n(10, 150)):
        lib = gen_lib(rng, budget=[rng.choice([4, 9, 14])])
        call = {"kind": "all"} if rng.random() < 0.45 else {"kind": "filtered", "filter": gen_filter(rng, lib)}
        if call["kind"] == "filtered" and rng.random() < 0.6:
            call["filter"]["folders"] = gen_folders(rng, lib)
        ex += list(every_fault_cases(rng, lib, rng.choice([1, 2, 3]), call))
    mism += _run_cases(ctx, ex, broken, "every-fault")
    ctx.coverage["exhaustive_fault_cases"] = len(ex)
    # 4. FileFilter.matches and _parse_iso_datetime directly (structured + malformed stream)
    mism += _match_correspondence(ctx, broken)
    mism += _parse_correspondence(ctx, broken)
    mism += _quote_correspondence(ctx, broken)
    ctx.coverage["mismatches"] = mism
    return {"broken": broken, "violations": violations}


def _match_correspondence(ctx, broken):
    C, _ = _mods()
    rng = ctx.rng
    reqs, exp = [], []
    for _ in range(ctx.n(400, 6000)):
        lib = gen_lib(rng, budget=[12])
        files = all_files(lib)
        if not files:
            continue
        for _ in range(4):
            f = gen_filter(rng, lib)
            flt = build_filter(C, f)
            for m in rng.sample(files, min(3, len(files))):
                meta = C.SharePointFileMetadata(name=m[0], id=m[1], web_url="", created=m[2], last_modified=m[3], parent_path=m[4] or None)
                try:
                    got = bool(flt.matches(meta))
                except Exception as e:  # noqa: BLE001
                    got = "RAISED:" + type(e).__name__
                reqs.append({"op": "c18.match", "filter": {k: f.get(k) for k in ("ca", "cb", "ma", "mb")} | {"pats": f["pats"], "exts": f["exts"]},
                             "meta": {"name": m[0], "created": m[2], "modified": m[3], "parent": m[4]}})
                exp.append((f, m, got, meta.get_full_path()))
    outs = ctx.drive(reqs)
    bad = 0
    for (f, m, got, full), o in zip(exp, outs):
        ctx.case(("match", _fdesc(f), m), nontrivial=any(f.get(k) for k in ("ca", "cb", "ma", "mb", "pats", "exts")))
        ctx.count("matches/" + str(got))
        if o.get("match") != got or o.get("full") != full:
            bad += 1
            if bad <= 6:
                broken.append(Broken("correspondence", "c18.match", f"impl={got} full={full!r} model={o}",
                                     case={"match": {"filter": f, "meta": list(m)}}))
    return bad


def _quote_correspondence(ctx, broken):
    """path -> request URL of `_get_folder_by_path` (strip + percent-encoding) on its own: real method (URL captured),
    Lean model (op c18.quote) and the reference spelling must agree; names from the library alphabet + arbitrary code points"""
    C, _ = _mods()
    rng = ctx.rng
    alphabet = list("abzAZ09 _.-~/%#+&?=:;,@!$'()*[]{}|\\^`<>\"\t") + ["ü", "é", "日", "本", "ß", "\u00a0", "\u07ff", "\u0800", "\uffff", "\U00010000", "\U0010ffff", "\x7f", "\x80"]
    strings = ["", "/", "//", "Docs", "/Docs/", "//Docs//", "Docs/My Reports 50%", "a//b", " /x/ ", "/ /", "ünï/日本語", "x+y/a#1", "50% done/"]
    strings += _FOLDERS + [a + "/" + b for a in _FOLDERS[:6] for b in _FOLDERS[6:]]
    # escape look-alikes: literal %XY (data), double escapes, the decoded partners, NFC / NFD spellings
    strings += list(_LOOKALIKE) + list(_LOOKALIKE.values()) + [a + "/" + b for a in list(_LOOKALIKE)[:4] for b in list(_LOOKALIKE)[4:8]]
    strings += ["%", "%%", "%2", "%2%2B", "%252B", "%25252B", "/%2F/", "a%2fb", "%zz", "%u00e9", "cafe\u0301", "caf\u00e9", "+", "a+b", "a%20b"]
    hexd = "0123456789abcdefABCDEF"
    for _ in range(ctx.n(150, 2000)):
        st = "".join(rng.choice(["%" + rng.choice(hexd) + rng.choice(hexd), "%", rng.choice(hexd), rng.choice(alphabet), "/"])
                     for _ in range(rng.choice([1, 2, 3, 5])))
        strings.append(st)
    for _ in range(ctx.n(600, 8000)):
        n = rng.choice([1, 2, 3, 5, 9, 16])
        st = "".join(rng.choice(alphabet) if rng.random() < 0.9 else chr(rng.choice([rng.randrange(0x20, 0xD800), rng.randrange(0xE000, 0x110000)]))
                     for _ in range(n))
        strings.append(rng.choice(["", "/", "//"]) + st + rng.choice(["", "/", "//"]))
    seen = []

    def cap(req, timeout=None):
        seen.append(req.full_url)
        return FakeResponse([], 200, b'{"id": "X", "folder": {}}')

    cl = C.SharePointRestClient(SITE_URL, C.EntraIDAppCredentials(TENANT, "c", "s"), request_func=cap)
    cl._access_token = "t"
    pre = f"{BASE}/sites/S/drive/root:/"
    reqs, exp = [], []
    for st in strings:
        del seen[:]
        try:
            cl._get_folder_by_path("S", st)
            got = seen[-1]
        except Exception as e:  # noqa: BLE001
            got = "RAISED:" + type(e).__name__
        reqs.append({"op": "c18.quote", "s": st})
        exp.append((st, got))
    outs = ctx.drive(reqs)
    bad = 0
    for (st, got), o in zip(exp, outs):
        ctx.case(("quote", st), nontrivial=bool(st.strip("/")))
        ctx.count("quote/" + ("ascii" if st.isascii() else "non-ascii"))
        ref = pre + _ref_quote(st.strip("/"), safe="/")
        if not (got == ref == pre + o.get("q", "\0")):
            bad += 1
            if bad <= 6:
                broken.append(Broken("correspondence", "c18.quote", f"start folder {st!r}: impl requests {got!r}, model {pre + o.get('q', '?')!r}, reference {ref!r}",
                                     case={"quote": st}))
    return bad


def _mutate(rng, s):
    if not s:
        return rng.choice(["Z", ".", "+", "2024"])
    i = rng.randrange(len(s))
    r = rng.random()
    if r < 0.3:
        return s[:i] + s[i + 1:]
    if r < 0.6:
        return s[:i] + rng.choice("0123456789.:+-TZ x٣") + s[i:]
    if r < 0.8:
        return s[:i] + rng.choice("0123456789.:+-TZ") + s[i + 1:]
    return s[:i] + s[i:][::-1]


def _parse_correspondence(ctx, broken):
    C, _ = _mods()
    rng = ctx.rng
    strings = ["2024-01-15T10:00:00.9Z", "2024-01-15T10:00:00Z", "2024-01-15T10:00:00.Z", "2024-01-15T10:00:00.1234567Z",
               "2024-02-29T23:59:59.999999Z", "2023-02-29T00:00:00Z", "2024-01-15T10:00:00.5+02:00", "2024-01-15T10:00:00.5-02:00",
               "2024-01-15T10:00:00-02:00", "2024-01-15T10:00:00.12a4Z", "2024-01-15T10:00:00.٣Z", "", "Z", ".", "2024-01-15T10:00:00.5",
               "1970-01-01T00:00:00Z", "1969-12-31T23:59:59.999999Z", "2024-01-15T10:00:00.9z", "2024-01-15T10:00:00+23:59", "2024-12-31T23:59:60Z"]
    for _ in range(ctx.n(2000, 40000)):
        s = _ts(rng, 1705312800 + rng.randint(-10**9, 10**9))
        if s is None:
            continue
        strings.append(s)
        if rng.random() < 0.5:
            strings.append(_mutate(rng, s))
    strict = re.compile(r"\d{4}-\d\d-\d\dT\d\d:\d\d:\d\d(\.[^+-]*)?(Z|[+-]([01]\d|2[0-3]):[0-5]\d)")
    reqs, exp = [], []
    for s in strings:
        try:
            r = C._parse_iso_datetime(s)
        except Exception as e:  # noqa: BLE001
            r = "RAISED:" + type(e).__name__
        if isinstance(r, datetime):
            if r.tzinfo is None or not strict.fullmatch(s):
                ctx.count("parse/outside-model(naive or liberal fromisoformat form)")
                continue
            r = dt_to_us(r)
        reqs.append({"op": "c18.parse", "s": s})
        exp.append((s, r))
    outs = ctx.drive(reqs)
    bad = 0
    for (s, r), o in zip(exp, outs):
        ctx.case(("parse", s), nontrivial=r is not None)
        ctx.count("parse/" + ("value" if isinstance(r, int) else str(r)))
        if o.get("ts") != r:
            bad += 1
            if bad <= 6:
                broken.append(Broken("correspondence", "c18.parse", f"_parse_iso_datetime({s!r}) impl={r} model={o.get('ts')}", case={"parse": s}))
    return bad


# ----------------------------------------------------------------------------- search / replay
def _parse_oracle(s):
    """property-level check of one timestamp string through a one-file library and boundary filters"""
    t = ref_ticks(s)
    if t is None:
        return []
    lib = [{"k": "file", "name": "f.txt", "id": "X1", "created": s, "modified": s, "opt": 15}]
    a = int(t)
    cases = []
    for flt in ({"ma": a}, {"mb": a}, {"ma": a + 1}, {"mb": a + 1}, {"ca": a - (a % 10**6) + 1}, {"cb": a - (a % 10**6) + 1}):
        full = {"ca": None, "cb": None, "ma": None, "mb": None, "pats": [], "exts": [], "offs": 0}
        full.update(flt)
        cases.append({"lib": lib, "page": 5, "link": 0, "calls": [{"kind": "filtered", "filter": full}]})
    return cases


def search(ctx, broken):
    rng = ctx.rng
    found = []

    def run(case):
        for v in oracle_case(case):
            if not any(x.key == v.key for x in found):
                found.append(v)

    # seeds: the disagreeing inputs first
    for b in broken:
        c = b.case or {}
        if "case" in c:
            run(c["case"])
        if "parse" in c:
            for case in _parse_oracle(c["parse"]):
                run(case)
        if "quote" in c:
            for case in _quote_oracle_cases(c["quote"]):
                run(case)
        if "match" in c:
            f, m = c["match"]["filter"], c["match"]["meta"]
            lib = [{"k": "file", "name": m[0], "id": m[1], "created": m[2], "modified": m[3], "opt": 15}]
            if m[4]:
                for part in reversed(m[4].split("/")):
                    lib = [{"k": "folder", "name": part, "id": "P" + str(len(part)) + part[:3], "children": lib}]
            run({"lib": lib, "page": 2, "link": 0, "calls": [{"kind": "filtered", "filter": f}]})
    for case in fixed_cases():
        run(case)
    for case in _folder_path_cases():
        run(case)
    for case in _folder_fault_cases():
        run(case)
    for case in _lookalike_cases() + _facet_cases():
        run(case)
    for nm in list(_LOOKALIKE) + _FOLDERS + ["a b", "p%q", "日本語", "x&y=z", "q?", "semi;colon", "[b]", "tilde~", "ä", "\U00010000"]:
        for case in _quote_oracle_cases(nm + "/" + nm):
            run(case)
    # then the general streams
    for _ in range(ctx.n(250, 4000)):
        run(gen_case(rng))
    for _ in range(ctx.n(200, 2500)):
        run(gen_case(rng, with_fault=False, filtered=True, focus="glob"))
    for _ in range(ctx.n(4, 30)):
        lib = gen_lib(rng, budget=[rng.choice([4, 9, 14])])
        for case in every_fault_cases(rng, lib, rng.choice([1, 2]), {"kind": "all"}):
            run(case)
    for _ in range(ctx.n(200, 3000)):
        s = _ts(rng, 1705312800 + rng.randint(-10**8, 10**8))
        for case in (_parse_oracle(s) if s else []):
            run(case)
    return found


def replay(ctx, payload):
    rep = payload.get("replay", {})
    if "case" not in rep:
        return False, "replay names a broken obligation, not an input: " + payload.get("what", "")
    vs = oracle_case(rep["case"])
    return (not vs), "; ".join(f"{v.key}: {v.what}" for v in vs) or "property holds on the recorded case"


# ----------------------------------------------------------------------------- folder_paths: fixed oracle cases and known findings
def _quote_oracle_cases(path):
    """a library that contains exactly the folder chain `path` (canonical paths only) with one file at the end:
    the start folder must be found and its file returned with that parent path"""
    parts = [x for x in path.strip("/").split("/") if x]
    if not parts or "//" in path.strip("/"):
        return []
    f = lambda nm: {"k": "file", "name": nm, "id": "ID" + nm, "created": "2024-01-15T10:00:00Z", "modified": "2024-01-15T10:00:00Z", "opt": 15}  # noqa: E731
    lib = [f("leaf.txt")]
    for i, part in enumerate(reversed(parts)):
        lib = [f(f"side{i}.txt"), {"k": "folder", "name": part, "id": f"QF{i}", "children": lib}]
    full = {"ca": None, "cb": None, "ma": None, "mb": None, "pats": [], "exts": [], "offs": 0, "folders": [path]}
    return [{"lib": lib, "page": 2, "link": 0, "calls": [{"kind": "filtered", "filter": full}]}]


def _folder_fault_cases():
    """every fault kind at every request of two start-folder listings (the by-path lookups included), then a retry"""
    base = _folder_path_cases()
    rng = random.Random(18)
    out = []
    for c in (base[2], base[6]):
        out += list(every_fault_cases(rng, c["lib"], 1, c["calls"][0]))
    return out


def _folder_path_cases():
    f = lambda nm: {"k": "file", "name": nm, "id": "ID" + nm, "created": "2024-01-15T10:00:00Z", "modified": "2024-01-15T10:00:00Z", "opt": 15}  # noqa: E731
    lib = [f("root.txt"),
           {"k": "folder", "name": "Docs", "id": "FD", "children": [
               f("d1.pdf"),
               {"k": "folder", "name": "My Reports 50%", "id": "FR", "children": [f("r1.pdf"), f("r2.txt")]}]},
           {"k": "folder", "name": "Other", "id": "FO", "children": [f("o1.pdf")]}]
    out = []
    for folders in (["Docs"], ["Docs/My Reports 50%"], ["Other", "Docs/My Reports 50%"], ["Missing"], ["Docs/d1.pdf"],
                    ["/Docs/"], ["Docs/My Reports 50%/", "/Other"]):
        full = {"ca": None, "cb": None, "ma": None, "mb": None, "pats": [], "exts": [], "offs": 0, "folders": folders}
        out.append({"lib": lib, "page": 1, "link": 0, "calls": [{"kind": "filtered", "filter": full}]})
    # start folders that are string prefixes of one another without being ancestors, in every order; sets of
    # mutually unrelated folders at different depths (every listed folder must be searched, exactly once)
    lib2 = [f("top.txt"),
            {"k": "folder", "name": "Rep", "id": "G0", "children": [f("p0.txt")]},
            {"k": "folder", "name": "Reports", "id": "G1", "children": [
                f("a1.pdf"), {"k": "folder", "name": "Q1", "id": "G2", "children": [f("q1.docx")]},
                {"k": "folder", "name": "Q10", "id": "G3", "children": [f("q10.docx")]}]},
            {"k": "folder", "name": "Reports-old", "id": "G4", "children": [f("b1.pdf"), {"k": "folder", "name": "Q1", "id": "G5", "children": [f("oq1.txt")]}]},
            {"k": "folder", "name": "Reports 2", "id": "G6", "children": [f("c1.pdf")]},
            {"k": "folder", "name": "reports", "id": "G7", "children": [f("lower.pdf")]}]
    names = ["Rep", "Reports", "Reports-old", "Reports 2", "reports", "Reports/Q1", "Reports/Q10", "Reports-old/Q1"]

    def related(a, b):
        return a == b or a.startswith(b + "/") or b.startswith(a + "/")
    import itertools
    sets = [list(c) for r in (2, 3) for c in itertools.combinations(names, r)
            if not any(related(a, b) for a, b in itertools.combinations(c, 2))]
    for c in sets:
        for folders in (c, c[::-1]):
            full = {"ca": None, "cb": None, "ma": None, "mb": None, "pats": [], "exts": [], "offs": 0, "folders": folders}
            out.append({"lib": lib2, "page": 2, "link": 0, "calls": [{"kind": "filtered", "filter": full}]})
    return out


def _lookalike_cases():
    """start folders whose NAME contains a literal percent-escape look-alike, with and without a sibling that carries
    the decoded name; through list_files_filtered and the two convenience wrappers"""
    f = lambda nm: {"k": "file", "name": nm, "id": "ID" + nm, "created": "2024-01-15T10:00:00Z", "modified": "2024-01-15T10:00:00Z", "opt": 15}  # noqa: E731
    d = lambda nm, fid, kids, fx=0: {"k": "folder", "name": nm, "id": fid, "fx": fx, "children": kids}  # noqa: E731
    with_twins = [f("root.txt"),
                  d("Rates %2B fees", "E1", [f("encoded.pdf"), d("Q%31", "E2", [f("deep.txt")]), d("Q1", "E3", [f("q1.txt")])]),
                  d("Rates + fees", "P1", [f("plus.pdf")]),
                  d("Growth 100%25", "G1", [f("escape.xlsx")]),
                  d("Growth 100%", "G2", [f("plain.xlsx")]),
                  d("%41rchive", "A1", [f("a1.md")]), d("Archive", "A2", [f("a2.md")]),
                  d("a%2Fb", "S1", [f("s1.txt")]), d("a", "S2", [d("b", "S3", [f("s3.txt")])]),
                  d("%2525", "D1", [f("d1.txt")]), d("%25", "D2", [f("d2.txt")]), d("%", "D3", [f("d3.txt")])]
    alone = [f("root.txt"), d("Rates %2B fees", "E1", [f("encoded.pdf"), d("Q%31", "E2", [f("deep.txt")])]),
             d("Growth 100%25", "G1", [f("escape.xlsx")]), d("%41rchive", "A1", [f("a1.md")]), d("a%2Fb", "S1", [f("s1.txt")]),
             d("%2525", "D1", [f("d1.txt")])]
    out = []
    t = 1705312800 * 10**6
    for lib, starts in ((with_twins, [["Rates %2B fees"], ["Rates + fees"], ["Rates %2B fees/Q%31"], ["/Rates %2B fees/Q1/"], ["Growth 100%25"],
                                      ["Growth 100%"], ["%41rchive", "Archive"], ["a%2Fb"], ["a/b"], ["%2525", "%25", "%"],
                                      ["Growth 100%", "Growth 100%25", "Rates + fees"]]),
                        (alone, [["Rates %2B fees"], ["Rates %2B fees/Q%31"], ["Growth 100%25"], ["%41rchive"], ["a%2Fb"], ["%2525"],
                                 ["Rates + fees"], ["Growth 100%"], ["%25"]])):
        for folders in starts:
            full = {"ca": None, "cb": None, "ma": None, "mb": None, "pats": [], "exts": [], "offs": 0, "folders": folders}
            out.append({"lib": lib, "page": 2, "link": 0, "calls": [{"kind": "filtered", "filter": full}]})
        for via, key in (("modified_since", "ma"), ("created_since", "ca")):
            full = {"ca": None, "cb": None, "ma": None, "mb": None, "pats": [], "exts": [], "offs": 0, "folders": starts[0] + starts[4]}
            full[key] = t
            out.append({"lib": lib, "page": 1, "link": 0, "calls": [{"kind": "filtered", "via": via, "filter": full}]})
    return out


def _facet_cases():
    """OPTIONAL MEMBERS varied independently of the real content: non-empty folders without childCount (at the root
    and nested), with other facet members only, really empty folders with and without a count, size 0 / missing,
    parentReference / fileSystemInfo / unrelated facets present or not; every listing call, several page sizes,
    answers with and without their own optional members"""
    def f(nm, opt):
        return {"k": "file", "name": nm, "id": "ID" + nm, "created": "2024-01-15T10:00:00Z", "modified": "2024-01-15T10:00:00.5Z", "opt": opt}
    d = lambda nm, fid, fx, kids: {"k": "folder", "name": nm, "id": fid, "fx": fx, "children": kids}  # noqa: E731
    lib = [f("a.txt", 0),
           d("Counted", "d1", 0 | 4 | 8 | 16, [f("b.pdf", 2 | 16), f("c.pdf", 2), f("d.pdf", 1 | 32 | 64 | 128 | 256),
                                                  d("Inner no count", "d2", 1, [f("e.docx", 4 | 8)])]),
           d("No count", "d3", 1 | 4 | 64 | 32, [f("f.xlsx", 15 | 16 | 32 | 64), d("Deep", "d4", 2 | 256, [f("g.txt", 0)]),
                                                 d("View only", "d7", 3 | 128 | 512, [f("h.txt", 64)])]),
           d("Really empty", "d5", 0, []), d("Empty no count", "d6", 1, []), d("Empty view", "d8", 3 | 128, []),
           f("z size0.txt", 2 | 16)]
    t = 1705312800 * 10**6
    out = []
    for page, ropt in ((1, 0), (2, 15), (100, 2)):
        for call in ({"kind": "all"},
                     {"kind": "filtered", "filter": {"ca": None, "cb": None, "ma": None, "mb": None, "pats": [], "exts": [], "offs": 0}},
                     {"kind": "filtered", "filter": {"ca": None, "cb": None, "ma": None, "mb": None, "pats": [], "exts": [], "offs": 0,
                                                     "folders": ["No count", "Counted/Inner no count", "Empty no count"]}},
                     {"kind": "filtered", "via": "modified_since",
                      "filter": {"ca": None, "cb": None, "ma": t + 500000, "mb": None, "pats": [], "exts": [".txt", ".PDF"], "offs": 0}},
                     {"kind": "filtered", "via": "created_since",
                      "filter": {"ca": t, "cb": None, "ma": None, "mb": None, "pats": [], "exts": [], "offs": 0, "folders": ["No count/View only", "Counted"]}}):
            out.append({"lib": lib, "page": page, "link": 0, "ropt": ropt, "calls": [call]})
    return out


def _known_cases():
    base = _folder_path_cases()[0]
    res = []
    for key, folders in (("folder_paths.duplicate", ["Docs", "Docs/My Reports 50%"]),):
        c = json.loads(json.dumps(base))
        c["calls"][0]["filter"]["folders"] = folders
        res.append((key, c))
    # a 404 (HTTPError or plain response) at the by-path lookup of a start folder is taken for "no such folder"
    for flt, folders in (({"k": 2, "kind": "http4xx", "code": 404, "body": ""}, ["Other", "Docs"]),
                         ({"k": 2, "kind": "non2xx", "code": 404, "body": ""}, ["Docs/My Reports 50%", "Other"])):
        c = json.loads(json.dumps(base))
        c["calls"][0]["filter"]["folders"] = folders
        c["fault"] = flt
        c["calls"] = [c["calls"][0], {"kind": "all"}]
        res.append(("fault.not-raised.folder-lookup-404", c))
    return res


def known_witnesses(ctx):
    """re-run the committed witnesses of the open known findings on the real code"""
    out = []
    for key, case in _known_cases():
        vs = [v for v in oracle_case(case) if v.key == key]
        if vs:
            out += vs
        else:
            ctx.notes.append(f"known finding {key}: the committed witness no longer fails — remove it from known_findings.jsonl")
    # healthy folder_paths cases must hold on the real client (oracle; the Lean side is Props/C18_Folders.lean)
    cases = _folder_path_cases()
    if not ctx.thorough and len(cases) > 40:      # the 7 fixed cases + a seed-dependent sample of the generated sets
        cases = cases[:7] + ctx.rng.sample(cases[7:], 33)
    for case in cases:
        ctx.case(("folder_paths", tuple(case["calls"][0]["filter"]["folders"])))
        ctx.count("folder_paths/" + str(len(case["calls"][0]["filter"]["folders"])))
        vs = oracle_case(case)
        out += vs
        if vs:
            break
    # escape look-alike start folders and optional-member presentations (oracle; Lean side: Props/C18_Items.lean)
    for label, fixed in (("lookalike", _lookalike_cases()), ("facets", _facet_cases())):
        for case in fixed:
            ctx.case((label, fingerprint(case)))
            ctx.count("fixed/" + label)
            vs = [v for v in oracle_case(case) if not any(o.key == v.key for o in out)]
            out += vs
            if vs:
                break
    return out
