"""C10 — process histories: a member comes out as itself WHATEVER was read before in the process.

The statement of C10 is about one archive; `read_archive` is therefore a function of (bytes, path) alone.  A change
that lets something survive one call (a result cache, a remembered archive path, a reused scratch directory, a
"seen" set, a busy flag that an abandoned generator leaves set) keeps every single-archive case intact and breaks
the statement only for a SEQUENCE of reads.  This module generates such sequences ("sessions"):

  * the archives of one session are cut from one pool of members, so that they share
      - members with the same name and the same bytes        (under different archive paths / container types),
      - members with the same name and different bytes       (an edited document),
      - members with the same bytes under a different name   (a renamed / copied document),
    and the archive paths of a session are distinct, equal (same path, other content) or absent;
  * the generators are consumed sequentially, sequentially with some abandoned after k results (`close()`), or
    interleaved round-robin (two reads in flight);
  * an archive that fails as a whole (truncated) may precede the others.

Correspondence: every read of a session must give what the Lean model of that archive ALONE gives (ops c10.zip /
c10.tar / c10.seven; the model is history free by `S2T.C10History.C10_history_free`).  Oracle (search / replay /
witness): every read of the session is judged by the property statement (`c10._expected`), in a FRESH process.
"""
from __future__ import annotations

import io
import json
import os
import subprocess
import sys
import tempfile

from run import Broken, Violation

HERE = os.path.dirname(os.path.abspath(__file__))
_EDITABLE = ("txt", "md", "csv", "tsv", "json", "html")


def _P():
    from props import c10
    return c10


# ------------------------------------------------------------------------------------------- generation
def _edited(rng, name, data, tag):
    """another document of the same type under the same name"""
    ext = name.rsplit(".", 1)[-1].lower() if "." in name else ""
    if ext in ("txt", "md"):
        return data + f"edited {tag} {rng.randint(0, 9999)}\n".encode()
    if ext in ("csv", "tsv"):
        sep = b"," if ext == "csv" else b"\t"
        return data + b"edited" + sep + str(rng.randint(0, 9999)).encode() + b"\n"
    if ext == "json":
        return json.dumps({"t": f"edited {tag}", "n": rng.randint(100, 999)}).encode()
    if ext == "html":
        return data.replace(b"</body>", f"<p>edited {tag} {rng.randint(0, 9999)}</p></body>".encode())
    return None


def _renamed(name, k):
    d, _, base = name.rpartition("/")
    stem, dot, ext = base.rpartition(".")
    new = (f"{stem}-copy{k}.{ext}" if dot else f"{base}-copy{k}")
    return (d + "/" if d else "") + new


def gen_session(rng, small=True):
    """-> {"steps": [{fmt, sub, ap, members(ser), spec, take}], "schedule": seq|interleave}"""
    P = _P()
    pool = P._members(rng, rng.choice([2, 3, 4, 5]), None, small=small, corrupt=(rng.random() < 0.3))
    n_steps = rng.choice([2, 2, 3, 3, 4])
    schedule = rng.choice(["seq", "seq", "seq", "interleave"])
    same_path = rng.random() < 0.25          # every archive of the session is read under ONE path
    same_fmt = rng.random() < (0.5 if same_path else 0.35)   # ... and/or packed by the same packer
    variants = P._archive_variants()
    fmt0 = ("7z", None) if rng.random() < 0.3 else rng.choice(variants)   # 7z goes through a scratch directory
    steps = []
    for k in range(n_steps):
        members, used = [], set()
        for (n, kind, d) in pool:
            roll = rng.random()
            if kind == "file" and d and n.lower().endswith(".eml") and rng.random() < 0.3:
                cand = (n, kind, b"\xff\xfe\x00not a message\x00" + bytes(rng.randrange(256) for _ in range(8)))  # same name, its extractor raises
            elif k == 0 or roll < 0.45:
                cand = (n, kind, d)                                           # same name, same bytes
            elif roll < 0.65 and kind == "file" and d:
                e = _edited(rng, n, d, f"s{k}")
                cand = (n, kind, e) if e is not None else (n, kind, d)         # same name, other bytes
            elif roll < 0.85 and kind == "file":
                cand = (_renamed(n, k), kind, d)                               # other name, same bytes
            else:
                continue                                                       # not in this archive
            if cand[0] not in used:
                used.add(cand[0])
                members.append(cand)
        if rng.random() < 0.5:
            for (n, kind, d) in P._members(rng, rng.choice([1, 2]), None, small=True, corrupt=False):
                n = f"new{k}/" + n
                if n not in used:
                    used.add(n)
                    members.append((n, kind, d))
        if rng.random() < 0.5:
            rng.shuffle(members)
        fmt, sub = fmt0 if same_fmt else rng.choice(variants)
        data, ap, spec, _tag = P._build_archive(rng, members, fmt, sub)
        ext = ap.rsplit("/", 1)[-1].split(".", 1)[1]
        if same_path:
            ap = "in/bundle." + ext if same_fmt else "in/bundle.bin"
        elif rng.random() < 0.08:
            ap = None
        else:
            ap = f"in/s{k}/bundle-v{k}." + ext
        take = None
        if schedule == "seq" and k < n_steps - 1 and rng.random() < 0.25:
            take = rng.choice([0, 1, 1, 2])
        steps.append({"fmt": fmt, "sub": sub, "ap": ap, "members": P._ser_members(members),
                      "spec": spec if fmt == "7z" else None, "take": take, "cut": None})
    if rng.random() < 0.15:      # an archive that fails as a whole comes first
        s0 = dict(steps[0])
        s0["cut"] = rng.choice([20, 40, 64])
        s0["ap"] = "in/broken/" + (s0["ap"] or "x").rsplit("/", 1)[-1]
        steps.insert(0, s0)
    return {"kind": "session", "steps": steps, "schedule": schedule}


def build_steps(rng, session):
    """-> [(fmt, sub, members, ap, spec, data, take, cut)]; a `cut` step is the archive truncated to that many bytes"""
    P = _P()
    out = []
    for st in session["steps"]:
        members = P._de_members(st["members"])
        data, _ap0, spec, _ = P._build_archive(rng, members, st["fmt"], st.get("sub"), st.get("spec"))
        if st.get("cut"):
            data = data[: st["cut"]]
        out.append((st["fmt"], st.get("sub"), members, st.get("ap"), st.get("spec") or spec, data, st.get("take"), st.get("cut")))
    return out


# ------------------------------------------------------------------------------------------- running a session
def run_session(built, schedule):
    """the real read_archive over the session in THIS process -> [(got, term, codec log of that read)];
    raises c10._Skip when a case leaves the model's parameters"""
    P = _P()
    from sharepoint2text.parsing.exceptions import (ExtractionFailedError, ExtractionFileEncryptedError,
                                                    ExtractionFileTooLargeError)
    from sharepoint2text.parsing.extractors.archive_extractor import read_archive
    n = len(built)
    got = [[] for _ in range(n)]
    term = [None] * n
    done = [False] * n
    logs = [[] for _ in range(n)]
    with P._instrumented(fs=False) as (log, _w, _c):
        gens = [read_archive(io.BytesIO(b[5]), path=b[3]) for b in built]

        def advance(i):
            start = len(log)
            try:
                r = next(gens[i])
                got[i].append((r.get_metadata().file_path, P._canon(r)))
            except StopIteration:
                done[i] = True
            except ExtractionFileEncryptedError:
                term[i], done[i] = "encrypted", True
            except ExtractionFileTooLargeError:
                term[i], done[i] = "tooLarge", True
            except ExtractionFailedError:
                term[i], done[i] = "failed", True
            except Exception as e:
                term[i], done[i] = "RAISED:" + type(e).__name__, True
            logs[i] += log[start:]

        if schedule == "interleave":
            guard = 0
            while not all(done) and guard < 100000:
                for i in range(n):
                    if not done[i]:
                        advance(i)
                        guard += 1
        else:
            for i in range(n):
                take = built[i][6]
                while not done[i] and (take is None or len(got[i]) < take):
                    advance(i)
                if not done[i]:
                    gens[i].close()          # abandoned after `take` results
    return [(got[i], term[i], logs[i]) for i in range(n)]


def _label_names(labels):
    return [x.split("!/", 1)[-1] for x in labels]


def judge(built, results, schedule):
    """property statement per read -> None or (key, what, index of the failing read)"""
    P = _P()
    for i, ((fmt, sub, members, ap, spec, data, take, cut), (got, term, _log)) in enumerate(zip(built, results)):
        if cut:                              # truncated on purpose: it only has to fail cleanly
            if term is None and got:
                return ("history.truncated-archive-yields", f"read #{i} of a truncated {fmt} returned {[g[0] for g in got]!r}", i)
            continue
        exp = P._expected(members, ap)
        if take is not None:
            ok = term is None and got == exp[: len(got)] and len(got) == min(take, len(exp))
        else:
            ok = term is None and got == exp
        if ok:
            continue
        if not members and term is not None:
            continue                         # the empty archive is the open known finding of the single-archive check
        el, gl = [e[0] for e in exp], [g[0] for g in got]
        if term is not None:
            kind = "archive-fails"
        elif gl != el[: len(gl)] and _label_names(gl) == _label_names(el[: len(gl)]):
            kind = "wrong-label"
        elif gl == el[: len(gl)] and (take is not None or len(gl) == len(el)):
            kind = "wrong-content"
        else:
            kind = P._diff_kind(exp, got, term, members, ap)
        before = [f"{b[0]}:{b[3]}" for b in built[:i]] if schedule != "interleave" else [f"{b[0]}:{b[3]}" for j, b in enumerate(built) if j != i]
        what = (f"read #{i} of a session ({schedule}; {'after' if schedule != 'interleave' else 'interleaved with'} {before}): "
                f"read_archive({fmt} {sub or ''}, path={ap!r}, members={[m[0] for m in members]!r}) "
                + (f"raised {term}" if term else f"returned {gl!r}") + f"; the archive on its own gives {el!r}"
                + ("" if gl != el or term else " with other contents"))
        return (f"history.{kind}.{schedule}", what[:900], i)
    return None


def check_session(rng, session):
    P = _P()
    built = build_steps(rng, session)
    try:
        results = run_session(built, session.get("schedule", "seq"))
    except P._Skip:
        return None
    return judge(built, results, session.get("schedule", "seq"))


# ------------------------------------------------------------------------------------------- fresh-process confirmation
def fails_fresh(session):
    """does the session violate the property when it is the ONLY thing a fresh process does? (what --replay will see)"""
    fd, path = tempfile.mkstemp(prefix="c10_session_", suffix=".json")
    try:
        with os.fdopen(fd, "w") as fh:
            json.dump({"replay": session}, fh)
        env = dict(os.environ)
        p = subprocess.run(["/venv/bin/python", os.path.join(os.path.dirname(HERE), "run.py"), "C10", "--replay", path],
                           capture_output=True, text=True, timeout=300, env=env)
        if p.returncode == 1 and p.stdout.startswith("REPLAY-FAILS"):
            return p.stdout[len("REPLAY-FAILS "):].strip()
        return None
    except subprocess.TimeoutExpired:
        return None
    finally:
        try:
            os.unlink(path)
        except OSError:
            pass


def shrink_session(session, budget=24):
    """fewer reads, sequential instead of interleaved, fewer members — every candidate confirmed in a fresh process"""
    cur = session
    tries = 0

    def ok(c):
        nonlocal tries
        if tries >= budget:
            return False
        tries += 1
        return fails_fresh(c) is not None

    changed = True
    while changed and tries < budget:
        changed = False
        if len(cur["steps"]) > 2:
            for i in range(len(cur["steps"])):
                c = dict(cur, steps=cur["steps"][:i] + cur["steps"][i + 1:])
                if ok(c):
                    cur, changed = c, True
                    break
            if changed:
                continue
        if cur.get("schedule") == "interleave":
            c = dict(cur, schedule="seq")
            if ok(c):
                cur, changed = c, True
                continue
        for si, st in enumerate(cur["steps"]):
            if len(st["members"]) <= 1:
                continue
            for mi in range(len(st["members"])):
                ms = st["members"][:mi] + st["members"][mi + 1:]
                st2 = dict(st, members=ms)
                if st["fmt"] == "7z" and st.get("spec"):
                    k = sum(1 for (_, kk, h) in ms if kk == "file" and h)
                    c0 = (st["spec"]["coders"] or ["copy"])[0]
                    st2["spec"] = {"groups": [k] if k else [], "coders": [c0] if k else [], "opts": st["spec"]["opts"]}
                c = dict(cur, steps=cur["steps"][:si] + [st2] + cur["steps"][si + 1:])
                if ok(c):
                    cur, changed = c, True
                    break
            if changed:
                break
    return cur


# ------------------------------------------------------------------------------------------- correspondence
def correspondence(ctx, broken):
    """every read of a session vs. the Lean model of that archive alone"""
    P = _P()
    rng = ctx.rng
    reqs, metas = [], []
    bad = 0
    for key, session in WITNESS_SESSIONS:       # the committed sessions, on top of whatever this process did before
        r = check_session(rng, session)
        ctx.case(("witness-session", key), nontrivial=True)
        if r:
            bad += 1
            broken.append(Broken("correspondence", "c10.history", f"committed session {key}: {r[1]}", case=session))
    for si in range(ctx.n(120, 1200)):
        session = gen_session(rng, small=True)
        built = build_steps(rng, session)
        if any(len(b[5]) > 24000 for b in built):
            ctx.count("history/skipped-large")
            continue
        try:
            results = run_session(built, session["schedule"])
        except P._Skip as e:
            ctx.count(f"history/skipped-{e}")
            continue
        shape = session["schedule"] + ("+abandon" if any(s["take"] is not None for s in session["steps"]) else "") \
            + ("+same-path" if len({s["ap"] for s in session["steps"]}) < len(session["steps"]) else "") \
            + ("+broken-first" if session["steps"][0].get("cut") else "")
        ctx.count("history/session/" + shape)
        ctx.case(("session", tuple(b[5] for b in built), session["schedule"], tuple(b[6] for b in built)), nontrivial=True)
        for i, ((fmt, sub, members, ap, spec, data, take, cut), (got, term, log)) in enumerate(zip(built, results)):
            if cut:
                ctx.count("history/read/truncated/" + (term or "no-error"))
                if term is None and got:
                    bad += 1
                    broken.append(Broken("correspondence", "c10.history", "a truncated archive yielded results", case=session))
                continue
            if take == 0:                    # never started: nothing ran, nothing to compare (and no decoder answers)
                ctx.count("history/read/never-started")
                continue
            try:
                rq, alone = P._loop_request(fmt, data, members, ap, sub)
            except P._Skip:
                continue
            if fmt == "7z":
                rq["codec"] = log
            reqs.append(rq)
            metas.append((session, i, fmt, ap, take, alone, got, term))
            shared = 0
            if i:
                prev = {(m[0], m[2]) for s in session["steps"][:i] for m in s["members"]}
                shared = sum(1 for m in session["steps"][i]["members"] if (m[0], m[2]) in prev and m[1] == "file" and m[2])
            ctx.count(f"history/read/{fmt}/" + ("first" if i == 0 else ("shares-member" if shared else "shares-none")))
    outs = ctx.drive(reqs)
    seen_sessions = set()
    for (session, i, fmt, ap, take, alone, got, term), o in zip(metas, outs):
        problem = None
        if "drv_error" in o:
            problem = "driver: " + o["drv_error"]
        else:
            pred = []
            for p, j in o["y"]:
                label = "".join(map(chr, p))
                lst = alone.get(label)
                pred.append((label, lst[j] if lst is not None and j < len(lst) else "<unknown>"))
            if take is not None and o["t"] is None and term is None:
                if not (got == pred[: len(got)] and len(got) == min(take, len(pred))):
                    problem = f"abandoned after {take}: impl={[g[0] for g in got]} model prefix={[p[0] for p in pred[:take]]}"
            elif o["t"] != term:
                problem = f"terminal impl={term} model={o['t']}"
            elif pred != got:
                problem = (f"results impl={[g[0] for g in got]} model={[p[0] for p in pred]}"
                           if [g[0] for g in got] != [p[0] for p in pred] else "same labels, different content")
        if problem and id(session) not in seen_sessions:
            seen_sessions.add(id(session))
            bad += 1
            if bad <= 6:
                broken.append(Broken("correspondence", "c10.history",
                                     f"read #{i} ({fmt}, path={ap!r}) of a {session['schedule']} session of {len(session['steps'])} reads: {problem}",
                                     case=session))
    if metas:
        m = metas[len(metas) // 2]
        ctx.sample({"op": "c10.history", "schedule": m[0]["schedule"], "reads": [[s["fmt"], s["ap"], [x[0] for x in s["members"]], s["take"]] for s in m[0]["steps"]],
                    "read": m[1], "impl_results": [g[0] for g in m[6]], "impl_terminal": m[7]})
    ctx.coverage["history_mismatches"] = bad


# ------------------------------------------------------------------------------------------- search / witnesses
def oracle_run(ctx, n, seeds=()):
    """sessions on which the property statement fails; each reported one is confirmed (and shrunk) in a fresh process"""
    rng = ctx.rng
    found = {}
    confirmations = 0

    def consider(session):
        nonlocal confirmations
        try:
            r = check_session(rng, session)
        except Exception:
            return
        if not r or r[0] in found or confirmations >= 6:
            return
        confirmations += 1
        msg = fails_fresh(session)
        if msg is None:
            ctx.count("history/search/not-confirmed-in-fresh-process")
            return
        small = shrink_session(session)
        msg2 = fails_fresh(small) if small is not session else msg
        final = small if msg2 else session
        key = r[0].rsplit(".", 1)[0] + "." + final.get("schedule", "seq")
        found[r[0]] = Violation(key, msg2 or msg, final)

    for c in seeds:
        if isinstance(c, dict) and c.get("kind") == "session":
            consider(c)
    for c in WITNESS_SESSIONS:
        consider(c[1])
    for _ in range(n):
        if len(found) >= 3:
            break
        consider(gen_session(rng, small=True))
    return list(found.values())


def _ser(ms):
    return [[n, k, d.hex()] for n, k, d in ms]


_EML = (b"From: a@example.org\r\nTo: b@example.org\r\nSubject: hello\r\nDate: Mon, 1 Jan 2024 10:00:00 +0000\r\n"
        b"Message-ID: <hello@example.org>\r\nMIME-Version: 1.0\r\nContent-Type: text/plain; charset=utf-8\r\n\r\nhello there\r\n")
_README = ("docs/readme.txt", "file", b"Read me first.\nNothing changed here between releases.\n")
_SEVEN_SOLID = {"groups": [2], "coders": ["lzma2"], "opts": {"encode_header": None, "attrs": "win", "mtime": False, "dummy": 0,
                                                           "with_pack_crc": False, "always_num_streams": False, "names_first": False}}
WITNESS_SESSIONS = [
    # the witnesses of the counterexample theorems of Props/C10_History.lean (what each unreviewed kind of process state
    # would break), run on the real code every run: they must HOLD
    ("history.shared-member-other-archive", {"kind": "session", "schedule": "seq", "steps": [
        {"fmt": "zip", "sub": "deflated", "ap": "in/bundle-v1.zip", "spec": None, "take": None, "cut": None,
         "members": _ser([_README, ("docs/changes.md", "file", b"# v1\n- initial release\n")])},
        {"fmt": "tar", "sub": "gz", "ap": "in/bundle-v2.tar.gz", "spec": None, "take": None, "cut": None,
         "members": _ser([("docs/changes.md", "file", b"# v2\n- second release\n"), _README])},
        {"fmt": "7z", "sub": None, "ap": "in/bundle-v3.7z", "spec": _SEVEN_SOLID, "take": None, "cut": None,
         "members": _ser([_README, ("docs/changes.md", "file", b"# v3\n- third release\n")])}]}),
    ("history.same-path-other-content", {"kind": "session", "schedule": "seq", "steps": [
        {"fmt": "7z", "sub": None, "ap": "in/latest.7z", "spec": _SEVEN_SOLID, "take": None, "cut": None,
         "members": _ser([("a.txt", "file", b"alpha one\n"), ("b.md", "file", b"# bravo one\n")])},
        {"fmt": "7z", "sub": None, "ap": "in/latest.7z", "spec": _SEVEN_SOLID, "take": None, "cut": None,
         "members": _ser([("a.txt", "file", b"alpha two, longer\n"), ("b.md", "file", b"# bravo 2\n")])}]}),
    ("history.two-reads-in-flight", {"kind": "session", "schedule": "interleave", "steps": [
        {"fmt": "zip", "sub": "stored", "ap": "in/left.zip", "spec": None, "take": None, "cut": None,
         "members": _ser([("a.txt", "file", b"left a\n"), ("b.txt", "file", b"left b\n")])},
        {"fmt": "tar", "sub": "", "ap": "in/right.tar", "spec": None, "take": None, "cut": None,
         "members": _ser([("a.txt", "file", b"right a\n"), ("b.txt", "file", b"left b\n")])}]}),
    ("history.failed-member-first", {"kind": "session", "schedule": "seq", "steps": [
        {"fmt": "zip", "sub": "deflated", "ap": "in/bad.zip", "spec": None, "take": None, "cut": None,
         "members": _ser([("mail.eml", "file", b"\xff\xfe\x00not a message\x00\x01"), ("two.eml", "file", b""), ("a.txt", "file", b"alpha\n")])},
        {"fmt": "tar", "sub": "xz", "ap": "in/good.tar.xz", "spec": None, "take": None, "cut": None,
         "members": _ser([("mail.eml", "file", _EML), ("other.eml", "file", _EML.replace(b"hello", b"other")), ("a.txt", "file", b"alpha\n")])}]}),
    ("history.abandoned-read-first", {"kind": "session", "schedule": "seq", "steps": [
        {"fmt": "7z", "sub": None, "ap": "in/first.7z", "spec": _SEVEN_SOLID, "take": 1, "cut": None,
         "members": _ser([("a.txt", "file", b"first a\n"), ("b.txt", "file", b"first b\n")])},
        {"fmt": "7z", "sub": None, "ap": "in/second.7z", "spec": _SEVEN_SOLID, "take": None, "cut": None,
         "members": _ser([("a.txt", "file", b"second a\n"), ("b.txt", "file", b"first b\n")])}]}),
]


def known_witnesses(ctx):
    out = []
    for key, session in WITNESS_SESSIONS:
        r = check_session(ctx.rng, session)
        ctx.count("witness/" + key + ("/fails" if r else "/holds"))
        if r:      # reported with a replay only if the session fails as the only thing a fresh process does; an
            msg = fails_fresh(session)       # in-process-only failure is a Broken of the correspondence (-> search)
            if msg is not None:
                out.append(Violation(r[0], msg, session))
    return out


def replay(ctx, session):
    r = check_session(ctx.rng, session)
    return (r is None), (r[1] if r else "property holds on every read of the recorded session")
