"""C06 — observer calls with EVERY accessor argument combination, re-observed with the defaults.

"Observing a result is idempotent and does not change what any later observation … returns": an observation is a
call (object path, accessor, keyword arguments).  The accessors and their optional parameters are read from the
classes of the CURRENT library by introspection (every public method that can be called without a required argument,
every property), on the result itself and on every package object reachable through its dataclass fields (slides,
sheets, pages, attachments …) or handed out by an accessor (units, images, tables: their accessors are called while
the value is rendered).  For a parameter every value of its small domain is tried (bool: both, Optional[bool]: three,
int / str defaults: a few), all combinations up to 16 per method.

Oracle (independent of the Lean model): the answer of a call after ANY sequence of earlier calls on the same result
equals the answer of the same call on a pristine result (a deep copy taken before the first observation; in `replay`
a fresh extraction), and the full serialisation never changes.  Reference answers are all computed up front, defaults
first, so that a cache living outside the instance cannot hide a difference.
"""
from __future__ import annotations

import base64
import copy
import dataclasses
import hashlib
import inspect
import io
import itertools
import json
import types

NON_OBSERVERS = {"populate_from_path", "from_json"}
PKG = "sharepoint2text"
MAX_COMBOS = 16


def _canon(x):
    return json.dumps(x, sort_keys=True, default=repr)


def _is_pkg(o):
    return getattr(type(o), "__module__", "").startswith(PKG) and not isinstance(o, type)


def param_domain(p: inspect.Parameter):
    """values tried for an optional accessor parameter, default first; None = a kind nobody varies (reported)"""
    d = p.default
    ann = str(p.annotation).lower()
    if isinstance(d, bool):
        return [d, not d]
    if d is None:
        if "bool" in ann:
            return [None, True, False]
        if "int" in ann:
            return [None, 0, 1, 2]
        if "str" in ann:
            return [None, "", "x"]
        return None
    if isinstance(d, int):
        return list(dict.fromkeys([d, 0, 1, d + 1]))
    if isinstance(d, str):
        return list(dict.fromkeys([d, "", "\n", "x"]))
    return None


def accessors_of(cls):
    """[(name, 'prop' | 'method', [(param, domain)])] of a package class, by introspection of the current library"""
    out = []
    seen = set()
    for k in cls.__mro__:
        if not getattr(k, "__module__", "").startswith(PKG):
            continue
        for name, m in vars(k).items():
            if name.startswith("_") or name in NON_OBSERVERS or name in seen:
                continue
            if isinstance(m, property):
                seen.add(name)
                out.append((name, "prop", []))
            elif isinstance(m, types.FunctionType):
                seen.add(name)
                try:
                    ps = [p for p in inspect.signature(m).parameters.values()][1:]
                except (TypeError, ValueError):
                    continue
                if any(p.default is inspect.Parameter.empty and p.kind in (p.POSITIONAL_ONLY, p.POSITIONAL_OR_KEYWORD, p.KEYWORD_ONLY) for p in ps):
                    continue        # needs an argument: not an observer of the result alone
                ps = [p for p in ps if p.kind in (p.POSITIONAL_OR_KEYWORD, p.KEYWORD_ONLY)]
                out.append((name, "method", [(p.name, param_domain(p)) for p in ps]))
    return sorted(out)


def calls_of(obj):
    """[(accessor, kwargs)] — the default call first, then every other argument combination"""
    out = []
    for name, kind, params in accessors_of(type(obj)):
        if kind == "prop":
            out.append((name, None))
            continue
        doms = [(p, d) for p, d in params if d]
        combos = [dict(zip([p for p, _ in doms], vs)) for vs in itertools.product(*[d for _, d in doms])]
        if len(combos) > MAX_COMBOS:          # defaults, every single deviation, everything deviated
            base = {p: d[0] for p, d in doms}
            keep = [base] + [dict(base, **{p: v}) for p, d in doms for v in d[1:]] + [{p: d[-1] for p, d in doms}]
            combos = [c for i, c in enumerate(keep) if c not in keep[:i]][:MAX_COMBOS * 2]
        dflt = {p: d[0] for p, d in doms}
        for c in combos:
            out.append((name, {p: v for p, v in c.items() if not (v == dflt[p] and type(v) is type(dflt[p]))}))
    return out


def _fields(o):
    if dataclasses.is_dataclass(o):
        return [(f.name, getattr(o, f.name, None)) for f in dataclasses.fields(o)]
    return []


def reachable(r, depth=2, cap=10):
    """[(path, object)] package objects reachable through dataclass fields whose class has an accessor (the result
    itself is path "")"""
    out = [("", r)]
    seen_cls = {}

    def walk(o, path, d):
        if d > depth or len(out) > cap:
            return
        for fname, v in _fields(o):
            items = list(enumerate(v))[:3] if isinstance(v, (list, tuple)) else ([(None, v)] if _is_pkg(v) else [])
            for i, x in items:
                if not _is_pkg(x):
                    continue
                p = f"{path}.{fname}" + ("" if i is None else f"[{i}]")
                # per class at most two objects (the first two slides / sheets / attachments)
                if seen_cls.get(type(x), 0) < 2 and any(kind == "method" for _, kind, _ in accessors_of(type(x))):
                    seen_cls[type(x)] = seen_cls.get(type(x), 0) + 1
                    out.append((p.lstrip("."), x))
                walk(x, p, d + 1)
    walk(r, "", 1)
    return out[:cap]


def resolve(r, path):
    o = r
    if not path:
        return o
    for part in path.split("."):
        name, _, idx = part.partition("[")
        o = getattr(o, name)
        if idx:
            o = o[int(idx.rstrip("]"))]
    return o


def all_calls(r):
    """[(path, accessor, kwargs | None)]"""
    out = []
    for path, o in reachable(r):
        has_args = any(d for _, k, ps in accessors_of(type(o)) if k == "method" for _, d in ps)
        if path and not has_args:
            continue            # nested object without accessor arguments: observed while its parent's answers are rendered
        for name, kw in calls_of(o):
            out.append((path, name, kw))
    if hasattr(r, "iterate_images"):
        out += [("", EACH, {}), ("", COLLECTED, {})]
    return out


def render(v, depth=0):
    """canonical, comparable rendering of what an accessor returned; sub-objects are observed in turn"""
    from sharepoint2text.parsing.extractors.serialization import serialize_extraction
    if v is None or isinstance(v, (bool, int, str)):
        return v
    if isinstance(v, float):
        return repr(v)
    if isinstance(v, (bytes, bytearray)):
        return {"bytes": len(v), "sha1": hashlib.sha1(bytes(v)).hexdigest()}
    if isinstance(v, io.BytesIO):
        pos = v.tell()
        head = v.read(7)            # deliberately leaves the stream in the middle (positions must not matter)
        return {"stream_pos": pos, "head": base64.b64encode(head).decode(), "sha1": hashlib.sha1(v.getvalue()).hexdigest()}
    if isinstance(v, dict):
        return {"dict": sorted((_canon(render(k, depth + 1)), render(x, depth + 1)) for k, x in v.items())}
    if isinstance(v, (list, tuple, types.GeneratorType)) or (hasattr(v, "__next__") and hasattr(v, "__iter__")):
        items = list(v)
        return [render(x, depth + 1) if i < 12 else _shallow(x) for i, x in enumerate(items)]
    if _is_pkg(v):
        out = {"cls": type(v).__name__, "json": _shallow(v)}
        if depth < 2:
            acc = []
            for name, kw in calls_of(v):
                try:
                    acc.append([name, kw, render(call(v, name, kw), depth + 1)])
                except Exception as e:  # noqa
                    acc.append([name, kw, "RAISED " + type(e).__name__])
            out["acc"] = acc
        return out
    return repr(type(v))


def _shallow(x):
    from sharepoint2text.parsing.extractors.serialization import serialize_extraction
    if _is_pkg(x):
        try:
            return hashlib.sha1(_canon(serialize_extraction(x, include_binary=True)).encode()).hexdigest()
        except Exception as e:  # noqa
            return "unserialisable " + type(e).__name__
    return render(x, 9)


EACH, COLLECTED = "<payloads read one at a time>", "<payloads read after all streams were collected>"


def _payloads(o, collect_first):
    """every binary payload of the result (images of the result and of its units): sha1 of what the handed-out stream
    yields.  collect_first: ask for ALL streams, then consume them — the streams of DIFFERENT images must not share a
    buffer or a position.  (One image object asked twice hands out the same rewound stream: that is the modelled
    `get_bytes` of S2T.Observe, so every image object is asked once.)"""
    holders = list(o.iterate_images()) if hasattr(o, "iterate_images") else []
    if hasattr(o, "iterate_units"):
        for u in o.iterate_units():
            if hasattr(u, "get_images"):
                holders += list(u.get_images())
    # one holder per distinct handed-out stream OBJECT: an image asked twice, or a unit's view of the same image, hands
    # out the one rewound stream of S2T.Observe (modelled, accepted); what must not happen is that DISTINCT stream objects
    # share a buffer position or that handing one out disturbs another
    first, alive = {}, []
    for h in holders:
        s = h.get_bytes()
        alive.append(s)                  # keep every stream alive while ids are compared
        first.setdefault(id(s), h)
    holders = list(first.values())
    if collect_first:
        streams = [h.get_bytes() for h in holders]
        return [hashlib.sha1(s.read()).hexdigest() for s in streams]
    return [hashlib.sha1(h.get_bytes().read()).hexdigest() for h in holders]


def call(o, name, kw):
    if name == EACH:
        return _payloads(o, False)
    if name == COLLECTED:
        return _payloads(o, True)
    if kw is None:
        return getattr(o, name)
    return getattr(o, name)(**kw)


def observe(r, c):
    path, name, kw = c
    return _canon(render(call(resolve(r, path), name, kw)))


def label(c):
    path, name, kw = c
    if kw is None:
        return (path + "." if path else "") + name
    return (path + "." if path else "") + name + "(" + ", ".join(f"{k}={v!r}" for k, v in sorted(kw.items())) + ")"


def key(c):
    return json.dumps([c[0], c[1], c[2]], sort_keys=True)


def make_sequence(rng, calls, n):
    """n random calls (argument-carrying ones three times as likely), then the RE-OBSERVATION: the default call of
    every accessor used, so that each non-default request is followed by the defaults"""
    if not calls:
        return []
    weights = [3 if c[2] else 1 for c in calls]
    seq = rng.choices(calls, weights=weights, k=n)
    argful = [c for c in calls if c[2]]
    if argful and not any(c[2] for c in seq):
        seq[rng.randrange(len(seq))] = rng.choice(argful)
    used = {(c[0], c[1]) for c in seq}
    sweep = [c for c in calls if (c[0], c[1]) in used and not c[2]]
    rng.shuffle(sweep)
    again = [c for c in seq if c[2]][:2]          # the same non-default request a second time
    special = [c for c in calls if c[1] in (EACH, COLLECTED)]
    rng.shuffle(special)
    return seq + sweep + again + [c for c in special if c not in seq]


def run_sequence(pristine_of, r, seq, full_json):
    """returns None or (index, what, detail).  pristine_of() -> a result nobody observed yet"""
    order = sorted({key(c): c for c in seq}.values(), key=lambda c: (bool(c[2]), key(c)))
    refs = {}
    for c in order:
        try:
            refs[key(c)] = observe(pristine_of(), c)
        except Exception as e:  # noqa
            refs[key(c)] = "RAISED " + type(e).__name__
    ke, kc = key(("", EACH, {})), key(("", COLLECTED, {}))
    if ke in refs and kc in refs and refs[ke] != refs[kc]:
        i = next(j for j, c in enumerate(seq) if c[1] in (EACH, COLLECTED))
        return i, "answer", ("the payload streams answer differently when all are collected before the first is consumed "
                             f"({_brief(refs[kc], refs[ke])}) than when each is read in turn ({_brief(refs[ke], refs[kc])})")
    base = full_json(r)
    for i, c in enumerate(seq):
        try:
            out = observe(r, c)
        except Exception as e:  # noqa
            out = "RAISED " + type(e).__name__
        if out != refs[key(c)]:
            return i, "answer", f"{label(c)} answers {_brief(out, refs[key(c)])} after {[label(x) for x in seq[:i]][-4:]}, on a fresh result {_brief(refs[key(c)], out)}"
        if full_json(r) != base:
            return i, "json", f"the serialisation of the result changed after {label(c)} (calls so far {[label(x) for x in seq[:i + 1]][-4:]})"
    return None


def _brief(a, b, width=90):
    """the part of a around the first difference to b"""
    a, b = str(a), str(b)
    k = next((i for i, (x, y) in enumerate(zip(a, b)) if x != y), min(len(a), len(b)))
    lo = max(0, k - 30)
    return repr(a[lo: lo + width])


def shrink(pristine_of, seq, i, full_json):
    """a shortest [earlier call, failing call] that reproduces the difference (else the prefix)"""
    for j in range(i - 1, -1, -1):
        cand = [seq[j], seq[i]]
        bad = run_sequence(pristine_of, pristine_of(), cand, full_json)
        if bad is not None:
            return cand
    for j in range(i):
        cand = seq[j: i + 1]
        if run_sequence(pristine_of, pristine_of(), cand, full_json) is not None:
            return cand
    return seq[: i + 1]


def inventory(classes):
    """(class, accessor, parameter, default repr, exercised?) for the Lean-side closed-world fact"""
    out = []
    for cls in classes:
        for name, kind, params in accessors_of(cls):
            for p, dom in params:
                out.append((cls.__name__, name, p, dom is not None))
    return out
