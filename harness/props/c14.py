"""C14 — images are returned bit-exact, numbered, on the right unit.

Every generated document of the correspondence is ALSO judged by the property oracle (`check_doc`), whether or not the
Lean model disagrees with the implementation: the model speaks about resolution, order, numbering and units; content
type / pixel size outside OOXML and the bytes are decided by the oracle on every run.

Correspondence of S2T.Model.Images with the real code on
  (1) the reference resolvers, (2) the extension -> content-type lookups, (3) the four dimension sniffers,
  (4) generated documents embedding 0..K images in docx / pptx / xlsx / odt / odp / ods / odg / epub / pdf / rtf
      (real extractor -> iterate_images()/iterate_units() vs. the model's image loops), and
  (5) the unit / document views of every fixture.
The oracle (`check_doc`) decides the property statement on the real code from the document *spec* alone
(own path resolution, own header parser) — it does not use the Lean model.
"""
from __future__ import annotations

import io
import json
import mimetypes
import os
import struct

from run import Broken, Violation
from builders import c14docs as B

GEN = ["Images", "ImageParts", "ImageRels", "PyZipUtils", "PyPptxPaths", "PyXlsxPaths", "PyDocxPaths", "PyOdfPaths", "PyEpubPaths"]
RULE = ("documents: format x 0..4 units x 0..4 anchors per unit, plus per format documents with 11..13 numbered parts (pictures on one of the "
        "parts 2..9 and on one of the parts >= 10, <= 12 picture files, sometimes 11..12 anchors on one part; PPTX part numbers permuted "
        "against the deck order; DOCX ids rId2..rId13); PDF image XObject = codec (DCT/JPX/Flate/LZW) x 0..3 transport filters x "
        "name | one-element array | chain, +/- /DecodeParms; /Filter values (absent, name, array of 0..4 known/unknown names) on real "
        "pypdf streams; anchor = embedded file referenced in a relative / parent-relative / "
        "absolute / dotted form; OOXML relationships parts (worksheet, drawing, slide, presentation, main document) additionally list "
        "0..3 SIBLING relationships of the other kinds the standard allows on that part (vmlDrawing, comments, hyperlink, chart, "
        "slideLayout, settings, ...; six namespaces; before / between / after the relationship the image path uses; targets that "
        "contain the words 'drawing' / 'image'; stub parts for VML drawings and comments) | referenced-but-missing member | external link; files = PNG/JPEG/GIF/BMP headers of random "
        "sizes with distinct tails, some shared between anchors; resolvers: (directory, target) over a segment alphabet "
        "incl. '.', '..', '', leading '/' (+ malformed: unicode, backslash, percent); sniffers: well-formed headers, truncations, "
        "JPEG segment chains with padding / stand-alone markers / cut frames (+ malformed: random bytes). "
        "distinct = distinct canonical request; non-trivial = document with >= 1 anchor, target with a dot segment or a slash, "
        "byte string that starts with a known signature")
ASSUMPTIONS = [
    "zipfile.ZipFile.read(name) returns the member's bytes (bit-exactness is that pass-through; compared byte for byte here)",
    "xml.etree / defusedxml give the element tree of the parts; dict relationship lookup by Id; anchors reach the model already "
    "paired with the Target of the relationship they embed",
    "pypdf: /XObject dictionary, content-stream Do operators and get_data() incl. its decoding of the transport filters "
    "(/FlateDecode, /LZWDecode, /ASCII85Decode, /ASCIIHexDecode, /RunLengthDecode; /DCTDecode and /JPXDecode pass the file through) "
    "(PDF side is only tied by this correspondence)",
    "relationship Type URIs of generated parts are of the inventory of Model/ImageRels.lean (namespace x kind); the theorems of "
    "Props/C14_Rels.lean say nothing about a Type outside it (custom namespaces)",
    "openpyxl sheet names (XLSX sheet list); the model takes sheet k's drawing from sheet{k}.xml.rels as the code does",
    "mimetypes.guess_type for ODF content types; EPUB content type is the manifest's media-type (pass-through)",
    "str.lower() on ASCII extensions; ODT text-box (captioned) first pass is not modelled (generated frames are plain)",
    "PPTX shapes are visited sorted by (y, x) position: generated pictures have increasing positions, so position order = document order",
]
TRUSTED = ["harness/builders/c14docs.py (reference writers) and the oracle's own resolver / header reader in harness/props/c14.py",
           "S2T/Spec/Opc.lean: transcription of RFC 3986 5.2.4 for path-only references (laws norm_* proved)"]

UNIT_FORMATS = ("pptx", "xlsx", "odp", "ods", "pdf")          # page / slide / sheet formats with stored per-unit lists
FORMATS = ("docx", "pptx", "xlsx", "odt", "odp", "ods", "odg", "epub", "pdf", "rtf")
EXT = {"docx": "docx", "pptx": "pptx", "xlsx": "xlsx", "odt": "odt", "odp": "odp", "ods": "ods", "odg": "odg", "epub": "epub", "pdf": "pdf", "rtf": "rtf"}


# ----------------------------------------------------------------------------- implementation adaptor
def _extractor(fmt):
    from sharepoint2text.parsing import router
    return router.get_extractor("x." + EXT[fmt])


def run_impl(spec, data=None):
    """what the real extractor returns, canonical: images [(number, unit_number, ctype, w, h, bytes)], per-unit lists"""
    data = data if data is not None else B.build(spec)
    res = next(_extractor(spec["fmt"])(io.BytesIO(data), path="x." + EXT[spec["fmt"]]))
    return observe(res)


def observe(res):
    def img(im):
        md = im.get_metadata()
        r = {"n": md.image_number, "u": md.unit_number, "ct": im.get_content_type(), "w": md.width, "h": md.height,
             "b": im.get_bytes().getvalue()}
        if hasattr(im, "filter") and hasattr(im, "format"):      # PdfImage: what the filter chain was read as
            r["pf"] = [im.format, im.filter, getattr(im, "content_type", None)]
        return r
    images = [img(im) for im in res.iterate_images()]
    units = []
    for u in res.iterate_units():
        units.append({"images": [img(im) for im in u.get_images()], "tables": [t.get_table() for t in u.get_tables()],
                      "unit": getattr(u.get_metadata(), "unit_number", None)})
    tables = [t.get_table() for t in res.iterate_tables()]
    return {"images": images, "units": units, "tables": tables}


# ----------------------------------------------------------------------------- oracle: ground truth from the spec
def ref_resolve(base_dir: str, ref: str):
    """member name designated by `ref` relative to `base_dir` (RFC 3986 5.2 on paths); (name, escaped_root)"""
    segs = [] if ref.startswith("/") else [s for s in base_dir.split("/")]
    out, escaped = [], False
    for s in segs + ref.split("/"):
        if s == "..":
            if out:
                out.pop()
            else:
                escaped = True
        elif s not in ("", "."):
            out.append(s)
    return "/".join(out), escaped


def base_dir_of(spec, ui):
    fmt = spec["fmt"]
    if fmt == "pptx":
        return "ppt/slides"
    if fmt == "docx":
        return "word"
    if fmt == "xlsx":
        return "xl/drawings"
    if fmt == "epub":
        return spec.get("opts", {}).get("opf_dir", "OEBPS/").rstrip("/")
    return ""


def designated(spec, ui, a):
    """zip member an anchor designates by the format's rules, or None (external link / leaves the package)"""
    if a["t"] == "external":
        return None
    fmt = spec["fmt"]
    if fmt in ("rtf", "pdf"):
        return a["part"]
    name, escaped = ref_resolve(base_dir_of(spec, ui), a["ref"])
    if fmt in ("odt", "odp", "ods", "odg") and (escaped or a["ref"].startswith("/")):
        return None      # ODF: such a reference points outside the package (a linked file)
    return name


def header_dims(data: bytes):
    """pixel size a raster file declares (own reader, per the format layouts), or None"""
    if data[:8] == b"\x89PNG\r\n\x1a\n" and data[12:16] == b"IHDR" and len(data) >= 24:
        return struct.unpack(">II", data[16:24])
    if data[:6] in (b"GIF87a", b"GIF89a") and len(data) >= 10:
        return struct.unpack("<HH", data[6:10])
    if data[:2] == b"BM" and len(data) >= 26:
        w, h = struct.unpack("<ii", data[18:26])
        return (abs(w), abs(h))
    if data[:2] == b"\xff\xd8":
        i = 2
        while i + 4 <= len(data):
            if data[i] != 0xFF:
                return None
            m = data[i + 1]
            if m == 0xFF:
                i += 1
                continue
            if m in (0x01,) or 0xD0 <= m <= 0xD7:
                i += 2
                continue
            ln = struct.unpack(">H", data[i + 2:i + 4])[0]
            if m in B.SOF_MARKERS:
                # a frame header declares a size only if the segment is complete (Lf = 8 + 3*Nf >= 8, inside the file);
                # what a reader makes of a truncated or under-length frame header is unspecified
                if ln >= 8 and i + 2 + ln <= len(data):
                    h, w = struct.unpack(">HH", data[i + 5:i + 9])
                    return (w, h)
                return None
            if m in (0xD9, 0xDA):
                return None
            i += 2 + ln
    return None


PDF_KIND_CTYPE = {"jpeg": "image/jpeg", "jpg": "image/jpeg", "jp2": "image/jp2"}
DEDUP = {"docx": "ref", "odt": "ref", "odg": "ref", "epub": "ref"}     # one image per distinct reference text


def expected_images(spec):
    """[(unit index 1-based, member name, bytes)] the document places, in document order"""
    media = {n: B.image_bytes(m) for n, m in spec["media"].items()}
    out = []
    for ui, unit in enumerate(spec["units"]):
        for a in unit:
            m = designated(spec, ui, a)
            if m is not None and m in media:
                out.append({"unit": ui + 1, "member": m, "bytes": media[m], "ref": a.get("ref", a.get("part")), "anchor": a})
    if spec["fmt"] in DEDUP:
        seen, ded = set(), []
        for e in out:
            if e["ref"] not in seen:
                seen.add(e["ref"])
                ded.append(e)
        out = ded
    if spec["fmt"] == "epub":   # one image per manifest item, manifest order
        order = {h: i for i, (_, h, _) in enumerate(B.epub_items(spec))}
        out.sort(key=lambda e: order.get(e["ref"], 1 << 30))
    return out


def expected_ctype(spec, e):
    fmt = spec["fmt"]
    if fmt in ("docx", "pptx", "xlsx"):
        return B.ext_ctype(e["member"])
    if fmt in ("odt", "odp", "ods", "odg"):
        return mimetypes.guess_type(e["member"])[0] or "application/octet-stream"
    if fmt == "epub":
        return e["anchor"].get("media_type") or B.ext_ctype(e["ref"])
    kind = spec["media"][e["member"]]["kind"]
    if fmt == "pdf":
        # the content type follows the IMAGE CODEC of the XObject (a JPEG file stays image/jpeg however it is wrapped for
        # transport: /FlateDecode, /LZWDecode, /ASCII85Decode, ... in front of /DCTDecode); raw samples are reported as
        # image/png by the library's convention for /FlateDecode and /LZWDecode.  Decided from the KIND of the embedded
        # file, not from the /Filter entry.
        return PDF_KIND_CTYPE.get(kind, "image/png")
    return B.CTYPE.get(kind, "image/png")


def check_doc(spec, obs=None):
    """the property statement on one generated document: [(key, what)] of failures (empty = holds)"""
    fmt = spec["fmt"]
    fails = []

    def fail(key, what):
        if not any(k == key for k, _ in fails):
            fails.append((key, what))

    try:
        obs = obs if obs is not None else run_impl(spec)
    except Exception as e:
        return [(f"{fmt}.extraction-raised", f"{type(e).__name__}: {e}")]
    R = obs["images"]
    E = expected_images(spec)
    E_all = E
    placed_bytes = {e["bytes"] for e in E}
    # numbering 1..n
    nums = [r["n"] for r in R]
    if nums != list(range(1, len(R) + 1)):
        fail(f"{fmt}.numbers-not-1..n", f"image numbers {nums}, expected {list(range(1, len(R) + 1))}")
    # none invented
    for r in R:
        if r["b"] == b"":
            ext_refs = [a["ref"] for u in spec["units"] for a in u if a["t"] == "external"]
            if fmt == "odg" and not ext_refs:
                fail("odg.missing-member-entry", "an image without data is returned for a frame whose picture is not in the package")
            elif fmt in ("odt", "odp", "ods", "odg"):
                fail("odf.external-link-entry", f"an image without data is returned for the external link(s) {ext_refs[:2]} ({fmt})")
            else:
                fail(f"{fmt}.entry-without-data", "an image without data is returned")
        elif r["b"] not in placed_bytes:
            fail(f"{fmt}.image-not-in-document", f"image {r['n']} ({len(r['b'])} bytes, {r['ct']}) is not a file the body places")
    # every placed image, bit-exact, in document order
    got = [r["b"] for r in R if r["b"] != b""]
    want = [e["bytes"] for e in E]
    if got != want:
        if sorted(got) == sorted(want):
            key = "docx.images-in-relationship-order" if fmt == "docx" else f"{fmt}.images-out-of-document-order"
            fail(key, f"images come back in the order {[_name_of(spec, b) for b in got]}, the document places them as {[e['member'] for e in E]}")
        else:
            missing = [e["member"] + " via " + repr(e["ref"]) for e in E if e["bytes"] not in got]
            extra = [b for b in got if b not in want]
            if missing and fmt == "rtf" and spec.get("opts", {}).get("rtf_wrap"):
                fail("rtf.wrapped-hex-truncated", f"hex dump wrapped every {spec['opts']['rtf_wrap']} digits: not returned (or bytes differ): {missing[:3]}; returned sizes {[len(b) for b in got]}")
            elif missing:
                fail(f"{fmt}.placed-image-not-returned", f"not returned (or bytes differ): {missing[:3]}")
            elif extra or len(got) != len(want):
                fail(f"{fmt}.image-count", f"{len(got)} images returned, the document places {len(want)}")
    # content type and pixel size of the images that did come back in place
    by_bytes = {}
    for e in E:
        by_bytes.setdefault(e["bytes"], e)
    for r in R:
        e = by_bytes.get(r["b"])
        if e is None:
            continue
        ct = expected_ctype(spec, e)
        raster = e["member"].rsplit(".", 1)[-1].lower() in B.CTYPE or fmt in ("pdf", "rtf")
        if raster and (r["ct"] or "").strip() != ct:
            fail(f"{fmt}.content-type", f"{e['member']}: content type {r['ct']!r}, expected {ct!r}")
        dims = header_dims(e["bytes"])
        if fmt == "pdf":
            dims = (spec["media"][e["member"]]["w"], spec["media"][e["member"]]["h"])
        if dims is not None:
            wh = (r["w"], r["h"])
            exp = (dims[0] or None, dims[1] or None)
            if wh != exp:
                key = {"odt": "odf.size-from-frame-extent", "odp": "odf.size-from-frame-extent", "ods": "odf.size-from-frame-extent",
                       "odg": "odf.size-from-frame-extent", "rtf": "rtf.size-from-picw-as-twips", "epub": "epub.no-pixel-size"}.get(fmt)
                if fmt == "xlsx" and any(x["anchor"].get("anchor", "two") != "two" for x in E_all if x["bytes"] == r["b"]):
                    key = "xlsx.size-from-anchor-extent"
                fail(key or f"{fmt}.pixel-size", f"{e['member']} declares {exp[0]}x{exp[1]} pixels, metadata says {wh[0]}x{wh[1]}")
    # on the right unit; the two views
    units = obs["units"]
    if fmt in UNIT_FORMATS or fmt == "rtf":
        n_units = len(spec["units"])
        per = [[r["b"] for r in u["images"] if r["b"] != b""] for u in units]
        want_per = [[e["bytes"] for e in E if e["unit"] == k + 1] for k in range(n_units)]
        if fmt == "rtf":          # units = pages that exist; compare by page number
            per_by_no = {u["unit"]: [r["b"] for r in u["images"]] for u in units}
            for k in range(n_units):
                if per_by_no.get(k + 1, []) != want_per[k] and want_per[k]:
                    fail("rtf.image-on-wrong-page", f"page {k + 1} shows {len(per_by_no.get(k + 1, []))} images, the document places {len(want_per[k])} there")
        elif per != want_per and got == want:
            key = "xlsx.sheet-drawing-by-position" if fmt == "xlsx" and spec.get("opts", {}).get("sheet_files") else f"{fmt}.image-on-wrong-unit"
            fail(key, f"images per unit {[len(p) for p in per]}, the document places {[len(p) for p in want_per]}")
        elif per != want_per and fmt == "xlsx" and spec.get("opts", {}).get("sheet_files"):
            fail("xlsx.sheet-drawing-by-position", f"images per sheet {[len(p) for p in per]}, the document places {[len(p) for p in want_per]}")
        if fmt in ("pptx", "odp", "pdf", "rtf") and got == want and len(R) == len(E):
            # same files in the same order: occurrence k of the result is occurrence k of the document, so the same
            # picture file placed on several pages / slides must carry each occurrence's own unit number
            for r, x in zip(R, E):
                if r["u"] != x["unit"]:
                    fail(f"{fmt}.unit-number", f"occurrence {r['n']} ({x['member']}) carries unit number {r['u']}, the document places it on {x['unit']}")
                    break
        if fmt in ("pptx", "odp", "pdf", "rtf"):
            for r in R:
                e = by_bytes.get(r["b"])
                if e is not None and not any(x["bytes"] == r["b"] and x["unit"] == r["u"] for x in E):
                    fail(f"{fmt}.unit-number", f"{e['member']} carries unit number {r['u']}, it sits on {sorted({x['unit'] for x in E if x['bytes'] == r['b']})}")
    for k, w in views_fail(fmt, obs):
        fail(k, w)
    return fails


def _name_of(spec, b):
    for n, m in spec["media"].items():
        if B.image_bytes(m) == b:
            return n
    return "?"


def _key_img(r):
    return (r["n"], r["u"] if not isinstance(r["u"], str) else None, r["ct"], r["b"])


def views_fail(fmt, obs):
    """unit view vs document view (statement's last sentence)"""
    out = []
    doc = [(r["n"], r["ct"], r["b"]) for r in obs["images"]]
    flat = [(r["n"], r["ct"], r["b"]) for u in obs["units"] for r in u["images"]]
    for x in flat:
        if x not in doc:
            out.append((f"{fmt}.unit-image-not-in-document-view", f"image {x[0]} of a unit is not yielded by iterate_images()"))
            break
    doc_t = [json.dumps(t, default=str, sort_keys=True) for t in obs["tables"]]
    flat_t = [json.dumps(t, default=str, sort_keys=True) for u in obs["units"] for t in u["tables"]]
    doc_s = [json.dumps([[None if c is None else str(c) for c in row] for row in t], default=str, sort_keys=True) if isinstance(t, list) and all(isinstance(r, list) for r in t) else None
             for t in obs["tables"]]
    for t in flat_t:
        if t not in doc_t:
            if t in doc_s:
                out.append((f"{fmt}.unit-table-stringified", "a unit's table is a document table with every cell converted to str, not the table iterate_tables() yields"))
            else:
                out.append((f"{fmt}.unit-table-not-in-document-view", "a table of a unit is not yielded by iterate_tables()"))
            break
    if fmt in UNIT_FORMATS:
        if flat != doc:
            out.append((f"{fmt}.views-differ", f"units show images {[x[0] for x in flat]}, iterate_images() shows {[x[0] for x in doc]}"))
        empty = json.dumps([], default=str)
        if flat_t != [t for t in doc_t if fmt in ("pptx", "odp", "pdf") or t != empty]:
            out.append((f"{fmt}.table-views-differ", f"units show {len(flat_t)} tables, iterate_tables() shows {len(doc_t)}"))
    return out


# ----------------------------------------------------------------------------- model request for a document
def model_request(spec, names):
    """c14.extract request: the abstract document the Lean loops run on.  `names` = zip member names of the built file."""
    fmt = spec["fmt"]
    media_ids = {n: i + 1 for i, n in enumerate(spec["media"])}
    pkg = [[n, media_ids.get(n, 0)] for n in names]
    req = {"op": "c14.extract", "fmt": fmt, "pkg": pkg}
    if fmt == "pptx":
        req["units"] = [[[f"ppt/slides/slide{B.pptx_slide_file(spec, ui)}.xml", (a["ref"] if a["t"] != "external" else None)] for a in u] for ui, u in enumerate(spec["units"])]
    elif fmt == "pdf":
        req["pkg"] = []
        req["units"] = [[media_ids[a["part"]] for a in u] for u in spec["units"]]
    elif fmt in ("odp", "ods"):
        req["units"] = [[a["ref"] for a in u] for u in spec["units"]]
    elif fmt == "xlsx":
        from sharepoint2text.parsing.extractors.ms_modern import xlsx_extractor as X
        kinds = {"one": X.ANCHOR_TYPES.index(X.XDR_ONE_CELL_ANCHOR), "two": X.ANCHOR_TYPES.index(X.XDR_TWO_CELL_ANCHOR),
                 "abs": X.ANCHOR_TYPES.index(X.XDR_ABSOLUTE_ANCHOR)}
        files = spec.get("opts", {}).get("sheet_files") or list(range(len(spec["units"])))
        by_file = {files[i]: i for i in range(len(files))}
        sheets = []
        for pos in range(len(spec["units"])):       # the code looks at sheet{pos+1}.xml.rels for the sheet at position pos
            i = by_file.get(pos)
            u = spec["units"][i] if i is not None else []
            if not u:
                sheets.append([None, []])
            else:
                tgt, _ = B.xlsx_drawing_target(spec, i)
                sheets.append([tgt, [[kinds[a.get("anchor", "two")], (a["ref"] if a["t"] != "external" else None)] for a in u]])
        req["units"] = sheets
        # the same workbook as the package shows it: the model probes xl/worksheets/_rels/sheet{k}.xml.rels itself
        req["n"] = len(spec["units"])
        req["rels"], req["drawings"] = [], []
        for i, u in enumerate(spec["units"]):
            if u:
                tgt, f = B.xlsx_drawing_target(spec, i)
                req["rels"].append([f"xl/worksheets/_rels/sheet{f}.xml.rels", tgt])
                req["drawings"].append([f"xl/drawings/drawing{f}.xml", [[kinds[a.get("anchor", "two")], (a["ref"] if a["t"] != "external" else None)] for a in u]])
        # ... and as the relationships parts list it: every relationship (Id, Type, Target) of every worksheet / drawing
        # relationships part, in the order of the part; the model selects by the guards of the source
        req["sheet_parts"], req["drawing_parts"] = [], []
        for i, u in enumerate(spec["units"]):
            tgt, f = B.xlsx_drawing_target(spec, i)
            srels, _ = B.with_sibs(spec, "sheet", i, [("rId1", B.R_NS + "/drawing", tgt, False)] if u else [])
            if srels:
                req["sheet_parts"].append([f"xl/worksheets/_rels/sheet{f}.xml.rels", [[r[0], r[1], r[2]] for r in srels]])
            if u:
                drels, _ = B.with_sibs(spec, "drawing", i, [(f"rId{k + 1}", B.IMG_T, a["ref"], a["t"] == "external") for k, a in enumerate(u)])
                req["drawing_parts"].append([f"xl/drawings/drawing{f}.xml",
                                             [[kinds[a.get("anchor", "two")], (f"rId{k + 1}" if a["t"] != "external" else None)] for k, a in enumerate(u)],
                                             [[r[0], r[1], r[2]] for r in drels]])
    elif fmt == "docx":
        rid_of, rels = B.docx_rels(spec)
        req["units"] = [["rId1", False, "styles.xml"]] + [[i, True, t] for i, _, t, _ in rels]
        body = []
        for u in spec["units"]:
            for a in u:
                if a["t"] != "external" and rid_of[(a["t"], a["ref"])] not in body:
                    body.append(rid_of[(a["t"], a["ref"])])
        req["body"] = body
        full, _ = B.with_sibs(spec, "doc", None, [("rId1", B.R_NS + "/styles", "styles.xml", False)] + rels)
        req["rel_parts"] = [[r[0], r[1], r[2]] for r in full]
    elif fmt == "epub":
        req["opf_dir"] = spec.get("opts", {}).get("opf_dir", "OEBPS/")
        req["units"] = [[m.startswith("image/"), h] for _, h, m in B.epub_items(spec)]
    elif fmt in ("odt", "odg"):
        req["units"] = [a["ref"] for u in spec["units"] for a in u]
    elif fmt == "rtf":
        req["pkg"] = []
        req["units"] = [[ui + 1, media_ids[a["part"]]] for ui, u in enumerate(spec["units"]) for a in u]
    return req


def impl_canon(spec, obs):
    """the real result in the model's vocabulary: per-unit lists of [number, unit|None, content id|None]"""
    fmt = spec["fmt"]
    ids = {B.image_bytes(m): i + 1 for i, (n, m) in enumerate(spec["media"].items())}

    def c(r):
        return [r["n"], r["u"], (ids.get(r["b"], -1) if r["b"] != b"" else None)]
    if fmt in UNIT_FORMATS:
        return [[c(r) for r in u["images"]] for u in obs["units"]]
    return [[c(r) for r in obs["images"]]]


# ----------------------------------------------------------------------------- generators
def _rand_image(rng, idx, kinds=("png", "jpeg", "gif", "bmp")):
    k = rng.choice(kinds)
    if len(kinds) == 4 and rng.random() < 0.12:
        # a picture whose file declares no size the sniffers know (TIFF / EMF / arbitrary bytes)
        return {"kind": "raw", "w": 0, "h": 0, "ext": rng.choice(["tiff", "tif", "emf", "wmf", "png"]),
                "tail": rng.choice(["49492a00", "4d4d002a", "01000000", "d7cdc69a"]) + ("%04x" % idx) + "".join("%02x" % rng.randrange(256) for _ in range(rng.randint(0, 8)))}
    w = rng.choice([1, 2, 3, 16, 255, 256, 640, 1024, 65535]) if rng.random() < 0.7 else rng.randint(1, 65535)
    h = rng.choice([1, 7, 64, 257, 480, 4096, 65535]) if rng.random() < 0.7 else rng.randint(1, 65535)
    if k in ("png", "gif") and rng.random() < 0.08:
        w = 0          # a header that declares no usable width
    m = {"kind": k, "w": w, "h": h, "tail": ("%04x" % idx) + "".join("%02x" % rng.randrange(256) for _ in range(rng.randint(0, 6)))}
    if k == "png" and rng.random() < 0.3:
        m["w"] = rng.choice([65536, 70000, 2 ** 31 - 1, 100000])
    if k == "bmp" and rng.random() < 0.4:
        m["top_down"] = True
    if k == "gif" and rng.random() < 0.4:
        m["ver"] = "GIF87a"
    if k == "jpeg":
        segs = []
        for _ in range(rng.randint(0, 4)):
            mk = rng.choice([0xE0, 0xE1, 0xDB, 0xC4, 0xFE, 0xDD, 0xEE, 0xC8, 0xCC])
            segs.append([mk, "".join("%02x" % rng.randrange(256) for _ in range(rng.randint(0, 12)))])
        m["segs"] = segs
        m["sof"] = rng.choice(B.SOF_MARKERS)
        m["tail"] += "ffd9"
    return m


EXTS = {"png": ["png", "PNG"], "jpeg": ["jpg", "jpeg", "JPG"], "gif": ["gif"], "bmp": ["bmp", "BMP"]}


PDF_TRANSPORT = ("/FlateDecode", "/LZWDecode", "/ASCII85Decode", "/ASCIIHexDecode", "/RunLengthDecode")


def _pdf_media(rng, idx, m):
    """PDF image XObject: codec (the LAST filter of the decode chain) x transport / general-purpose filters in front of
    it x the form of the /Filter entry (name | one-element array | chain array, with or without /DecodeParms)"""
    r = rng.random()
    if r < 0.2:
        m = {"kind": "jp2", "w": m["w"], "h": m["h"], "tail": ("%04x" % idx) + "".join("%02x" % rng.randrange(256) for _ in range(rng.randint(0, 8)))}
        codec = "/JPXDecode"
    elif r < 0.4:     # raw samples: the codec is the general-purpose compression itself
        m = {"kind": "raw", "w": m["w"], "h": m["h"], "tail": ("%04x" % idx) + "".join("%02x" % rng.randrange(256) for _ in range(rng.randint(1, 24)))}
        codec = rng.choice(["/FlateDecode", "/FlateDecode", "/LZWDecode"])
    else:
        codec = "/DCTDecode"
    n_tr = rng.choice([0, 0, 1, 1, 1, 2, 2, 3])
    m["filters"] = [rng.choice(PDF_TRANSPORT) for _ in range(n_tr)] + [codec]
    m["filter_form"] = rng.choice(["name", "array"])
    if rng.random() < 0.2:
        m["parms"] = True
    return m


SIB_KINDS = {
    "sheet": ["vmlDrawing", "comments", "threadedComment", "hyperlink", "printerSettings", "table", "tableSingleCells", "pivotTable",
              "queryTable", "oleObject", "package", "control", "ctrlProp", "customProperty", "image", "slicer", "timeline", "wsSortMap"],
    "drawing": ["chart", "chartEx", "chartUserShapes", "hyperlink", "diagramData", "diagramLayout", "diagramQuickStyle", "diagramColors",
                "diagramDrawing", "video", "audio", "media", "hdphoto", "oleObject", "package", "customXml", "vmlDrawing"],
    "doc": ["settings", "webSettings", "fontTable", "theme", "hyperlink", "customXml", "oleObject", "package", "chart", "diagramData",
            "aFChunk", "attachedTemplate", "video", "hdphoto", "control", "vbaProject", "keyMapCustomizations", "glossaryDocument"],
    "slide": ["slideLayout", "notesSlide", "hyperlink", "chart", "video", "audio", "media", "oleObject", "vmlDrawing", "tags", "customXml",
              "hdphoto", "diagramData", "slide"],
    "pres": ["slideMaster", "notesMaster", "handoutMaster", "theme", "presProps", "viewProps", "tableStyles", "commentAuthors", "customXml"],
}
SIB_COMMON = {"sheet": ["vmlDrawing", "vmlDrawing", "comments", "hyperlink", "printerSettings", "table"], "drawing": ["chart", "hyperlink", "vmlDrawing"],
              "doc": ["settings", "hyperlink", "theme", "fontTable"], "slide": ["slideLayout", "notesSlide", "hyperlink"],
              "pres": ["slideMaster", "theme", "presProps"]}
SIB_TARGET = {"vmlDrawing": "../drawings/vmlDrawing{n}.vml", "comments": "../comments{n}.xml", "printerSettings": "../printerSettings/printerSettings{n}.bin",
              "table": "../tables/table{n}.xml", "chart": "../charts/chart{n}.xml", "slideLayout": "../slideLayouts/slideLayout{n}.xml",
              "notesSlide": "../notesSlides/notesSlide{n}.xml", "slideMaster": "slideMasters/slideMaster{n}.xml", "theme": "theme/theme{n}.xml",
              "settings": "settings.xml", "webSettings": "webSettings.xml", "fontTable": "fontTable.xml", "presProps": "presProps.xml",
              "viewProps": "viewProps.xml", "tableStyles": "tableStyles.xml", "image": "../media/background{n}.png", "slide": "slide{n}00.xml",
              "oleObject": "../embeddings/oleObject{n}.bin", "package": "../embeddings/Microsoft_Excel_Sheet{n}.xlsx"}
SIB_ANY_EXTERNAL = ["http://example.org/drawing/image{n}.png", "file:///C:/media/image{n}.bin", "#bookmark{n}", "mailto:a{n}@example.org", "../linked/image{n}.png",
                    "\\\\server\\share\\drawing{n}.xml"]
SIB_EXTERNAL = {"hyperlink": ["http://example.org/drawing/image{n}.png", "https://example.org/image/drawing{n}.xml", "#Sheet2!A1", "mailto:a{n}@example.org",
                              "file:///C:/docs/image{n}.docx"],
                "video": ["file:///C:/media/image{n}.mp4"], "audio": ["file:///C:/media/drawing{n}.wav"], "attachedTemplate": ["file:///C:/image{n}.dotx"]}
SIB_WHERE = {"xlsx": ("sheet", "drawing"), "pptx": ("slide", "pres"), "docx": ("doc",)}


def gen_sibs(rng, fmt, units):
    """sibling relationships for the relationships parts the image path of an OOXML document goes through"""
    out = []
    n = [0]

    def some(where, ui, n_base):
        for _ in range(rng.choice([1, 1, 2, 3]) if where not in ("doc", "pres") else rng.choice([1, 2, 2, 3, 4])):
            n[0] += 1
            kind = rng.choice(SIB_COMMON[where]) if rng.random() < 0.5 else rng.choice(SIB_KINDS[where])
            e = {"where": where, "unit": ui, "kind": kind, "id": f"rId{100 + n[0]}", "ns": rng.choice([0, 0, 0, 0, 1, 2, 3, 4, 5]),
                 "at": 0 if rng.random() < 0.5 else rng.randint(0, n_base + 3)}
            if kind in SIB_EXTERNAL or rng.random() < 0.15:       # TargetMode="External": a link to something outside the package
                e["target"], e["ext"] = rng.choice(SIB_EXTERNAL.get(kind, SIB_ANY_EXTERNAL)).format(n=n[0]), True
            else:
                e["target"] = SIB_TARGET.get(kind, "../" + kind + "s/" + kind + "{n}.xml").format(n=n[0])
                if where == "sheet" and kind in ("vmlDrawing", "comments") and rng.random() < 0.7:
                    e["stub"] = True
            out.append(e)

    for where in SIB_WHERE[fmt]:
        if where in ("pres", "doc"):
            if rng.random() < 0.85:
                some(where, None, len(units))
            continue
        for ui, u in enumerate(units):
            if where == "drawing" and not u:
                continue
            if rng.random() < (0.6 if u else 0.25):
                some(where, ui, len(u) if where != "sheet" else 1)
    return out


def gen_spec(rng, fmt, wild=False, many=False):
    """a document spec of format `fmt`; `wild` adds the unusual reference forms; `many`: 11..13 numbered parts
    (slides / sheets / pages / paragraphs / chapters) with pictures on one of the parts 2..9 AND on one of the parts >= 10
    (the string order of numbered part names - sheet1, sheet10, sheet11, sheet2 - differs from their numeric order only
    from ten parts on), up to 12 picture files (image10 < image2) and sometimes one part with 11..12 anchors
    (rId10 < rId2, /Im10 < /Im2)"""
    n_units = rng.choice([0, 1, 1, 2, 2, 3, 4]) if fmt not in ("rtf", "pdf") else rng.choice([1, 1, 2, 3, 4])
    n_media = rng.randint(0, 4)
    if many:
        n_units = rng.randint(11, 13)
        n_media = rng.randint(2, 12)
    kinds = ("png", "jpeg", "gif", "bmp")
    if fmt == "pdf":
        kinds = ("jpeg",)
    if fmt == "rtf":
        kinds = ("png", "jpeg")
    media, forms = {}, {}
    opts = {}
    opf_dir = rng.choice(["OEBPS/", "OEBPS/", "", "a/b/"]) if fmt == "epub" else ""
    if fmt == "epub":
        opts["opf_dir"] = opf_dir
    for i in range(n_media):
        m = _rand_image(rng, i, kinds)
        if fmt == "pdf":
            m = _pdf_media(rng, i, m)
        ext = m.get("ext") or rng.choice(EXTS.get(m["kind"], ["bin"]))
        base = f"image{i + 1}.{ext}"
        if fmt in ("rtf", "pdf"):
            name = f"m{i}"
            refs = [None]
        elif fmt == "pptx":
            where = rng.choice(["media", "media", "media", "slides", "root", "sub"])
            name = {"media": f"ppt/media/{base}", "slides": f"ppt/slides/img/{base}", "root": f"media/{base}", "sub": f"ppt/media/sub/{base}"}[where]
            refs = {"media": [f"../media/{base}", f"/ppt/media/{base}", f"./../media/{base}", f"../media/./{base}", f"media/../../media/{base}", f"../../ppt/media/{base}", f"..//media/{base}"],
                    "slides": [f"img/{base}", f"./img/{base}", f"/ppt/slides/img/{base}", f"img/../img/{base}"],
                    "root": [f"../../media/{base}", f"/media/{base}"],
                    "sub": [f"../media/sub/{base}", f"/ppt/media/sub/{base}", f"../media/sub/../sub/{base}"]}[where]
        elif fmt == "docx":
            where = rng.choice(["media", "media", "media", "root", "sub"])
            name = {"media": f"word/media/{base}", "root": f"media/{base}", "sub": f"word/media/x/{base}"}[where]
            refs = {"media": [f"media/{base}", f"/word/media/{base}", f"./media/{base}", f"media/./{base}", f"../word/media/{base}", f"media/x/../{base}"],
                    "root": [f"../media/{base}", f"/media/{base}"],
                    "sub": [f"media/x/{base}", f"/word/media/x/{base}"]}[where]
        elif fmt == "xlsx":
            where = rng.choice(["media", "media", "media", "drawings", "sub"])
            name = {"media": f"xl/media/{base}", "drawings": f"xl/drawings/{base}", "sub": f"xl/media/sub/{base}"}[where]
            refs = {"media": [f"../media/{base}", f"/xl/media/{base}", f"../media/./{base}", f"./../media/{base}", f"../../xl/media/{base}"],
                    "drawings": [base, f"./{base}", f"/xl/drawings/{base}"],
                    "sub": [f"../media/sub/{base}", f"/xl/media/sub/{base}"]}[where]
        elif fmt == "epub":
            where = rng.choice(["images", "images", "root", "same"])
            d = opf_dir
            name = {"images": f"{d}images/{base}", "root": f"rootimg/{base}", "same": f"{d}{base}"}[where]
            up = "../" * (d.count("/"))
            refs = {"images": [f"images/{base}", f"./images/{base}", f"images/../images/{base}", f"/{d}images/{base}"],
                    "root": [f"{up}rootimg/{base}", f"/rootimg/{base}"] if d else [f"rootimg/{base}", f"/rootimg/{base}"],
                    "same": [base, f"./{base}"]}[where]
        else:   # ODF
            where = rng.choice(["Pictures", "Pictures", "Pictures", "sub", "root"])
            name = {"Pictures": f"Pictures/{base}", "sub": f"Pictures/sub/{base}", "root": base}[where]
            refs = {"Pictures": [f"Pictures/{base}", f"./Pictures/{base}", f"Pictures/./{base}", f"Pictures/x/../{base}", f"Pictures//{base}"],
                    "sub": [f"Pictures/sub/{base}", f"./Pictures/sub/../sub/{base}"],
                    "root": [base, f"./{base}"]}[where]
        media[name] = m
        forms[name] = refs
    names = list(media)
    units = []
    total = 0
    wide_unit = rng.randrange(n_units) if (many and rng.random() < 0.4) else -1
    lo_part = rng.randint(1, 8) if many else -1               # 0-based index of one of the parts 2..9
    hi_part = rng.randint(9, n_units - 1) if many else -1     # ... and of one of the parts 10..n
    for ui in range(n_units):
        u = []
        n_anch = rng.choice([0, 1, 1, 2, 3, 4]) if not many else (rng.randint(11, 12) if ui == wide_unit else rng.choice([0, 0, 0, 1, 1, 2]))
        forced = many and ui in (lo_part, hi_part)
        if forced:
            n_anch = max(n_anch, rng.randint(1, 2))
        for ai in range(n_anch):
            r = rng.random()
            if forced and ai == 0:
                r = 0.0                       # the parts that make the order visible carry at least one embedded picture
            if fmt in ("rtf", "pdf"):
                if names:
                    u.append({"t": "embed", "part": rng.choice(names)})
                continue
            if names and r < 0.7:
                n = rng.choice(names)
                fs = forms[n]
                ref = fs[0] if (not wild and rng.random() < 0.5) else rng.choice(fs)
                u.append({"t": "embed", "part": n, "ref": ref})
            elif r < 0.85:
                miss = {"pptx": "../media/none%d.png", "docx": "media/none%d.png", "xlsx": "../media/none%d.png", "epub": "images/none%d.png"}.get(fmt, "Pictures/none%d.png")
                u.append({"t": "missing", "ref": miss % total})
            else:
                u.append({"t": "external", "ref": rng.choice(["http://example.org/pic%d.png", "https://example.org/p%d.jpg"]) % total})
            total += 1
            if fmt in ("odt", "odp", "ods", "odg"):
                u[-1]["fw"], u[-1]["fh"] = rng.choice([("2cm", "1cm"), ("1in", "0.5in"), ("40px", "30px"), ("3.5cm", "2.25cm")])
            if fmt == "xlsx":
                u[-1]["anchor"] = rng.choice(["two", "two", "one", "abs"]) if wild else "two"
                u[-1]["cx"], u[-1]["cy"] = rng.choice([(952500, 476250), (9525 * 33, 9525 * 21)])
        units.append(u)
    if fmt in ("xlsx", "ods") and units and rng.random() < 0.4:
        opts["empty_units"] = sorted(rng.sample(range(len(units)), rng.randint(1, len(units))))    # sheets without any cell
    if fmt == "docx":
        n_rel = len({(a["t"], a["ref"]) for u in units for a in u})
        order = list(range(n_rel))
        if wild:
            rng.shuffle(order)
        opts["rels_order"] = order
    if fmt == "xlsx" and wild and rng.random() < 0.4:
        opts["drawing_ref"] = "abs"
    if fmt == "pptx" and rng.random() < 0.3:
        opts["rels_reversed"] = True
    if fmt == "pptx" and n_units > 1 and (many or wild) and rng.random() < 0.5:
        perm = list(range(n_units))            # re-ordered deck: part names keep their numbers, p:sldIdLst gives the order
        rng.shuffle(perm)
        opts["slide_files"] = perm
    if fmt == "docx" and many:
        opts["rid_base"] = 2
    if fmt == "epub" and rng.random() < 0.3:
        opts["items_images_first"] = True
    if fmt == "rtf":
        # the last control word of a \\pict group ends at a space or at a line break (RTF 1.9: a control word's delimiter)
        opts["rtf_sep"] = rng.choice([" ", " ", "\n", "\r\n"])
    if fmt in SIB_WHERE and rng.random() < 0.7:
        sib = gen_sibs(rng, fmt, units)
        if sib:
            opts["sib"] = sib
    spec = {"fmt": fmt, "media": media, "units": units, "opts": opts}
    # generator self-check: an "embed" anchor must designate its part by the oracle's own resolution
    for ui, u in enumerate(units):
        for a in u:
            if a["t"] == "embed":
                assert designated(spec, ui, a) == a["part"], (fmt, a)
    return spec


PDF_FILTER_NAMES = ["/DCTDecode", "/DCTDecode", "/JPXDecode", "/FlateDecode", "/FlateDecode", "/LZWDecode", "/CCITTFaxDecode", "/JBIG2Decode",
                    "/ASCII85Decode", "/ASCIIHexDecode", "/RunLengthDecode", "/Crypt", "/Fl", "/DCT", "/Unknown"]


def gen_pdf_filter(rng):
    """a /Filter value: None (absent) | name | array of 0..4 names"""
    r = rng.random()
    if r < 0.05:
        return None
    if r < 0.25:
        return rng.choice(PDF_FILTER_NAMES)
    return [rng.choice(PDF_FILTER_NAMES) for _ in range(rng.choice([0, 1, 1, 2, 2, 2, 3, 3, 4]))]


def pdf_extract_image_filter(fv):
    """[format, filter, content type] the real `_extract_image` stores for an image XObject whose /Filter is `fv`"""
    from pypdf.generic import ArrayObject, DecodedStreamObject, NameObject, NumberObject
    from sharepoint2text.parsing.extractors.pdf import pdf_extractor as P
    st = DecodedStreamObject()
    st[NameObject("/Subtype")] = NameObject("/Image")
    st[NameObject("/Width")] = NumberObject(3)
    st[NameObject("/Height")] = NumberObject(2)
    if fv is not None:
        st[NameObject("/Filter")] = ArrayObject([NameObject(x) for x in fv]) if isinstance(fv, list) else NameObject(fv)
    st._data = b"\x00" * 18
    im = P._extract_image(st, "/Im0", 1, 1, "")
    return [im.format, im.filter, im.content_type]


SEGS = ["a", "b", "media", "img", "..", "..", ".", "", "x.png", "sub", "ppt", "slides", "Pictures"]


def gen_target(rng, wild=False):
    n = rng.randint(0, 6)
    segs = [rng.choice(SEGS) for _ in range(n)]
    t = "/".join(segs)
    if rng.random() < 0.25:
        t = "/" + t
    if rng.random() < 0.1:
        t = t + "/"
    if wild:
        t = "".join(rng.choice(["\\", "%2e%2e", " ", "é", "..", "//", "‮", "?x=1", "#f", "\t"]) if rng.random() < 0.15 else c for c in t) or rng.choice(["", "..", "/", "//", "../", "/.."])
    return t


def gen_dir(rng):
    return rng.choice(["ppt/slides", "word", "xl/drawings", "xl/worksheets", "a", "", "a/b/c", "OEBPS", "x/..", "a//b"])


def gen_bytes(rng, wild=False):
    """(bytes, util kind): a header of one of the four formats, possibly truncated / perturbed, or random bytes"""
    if wild and rng.random() < 0.5:
        n = rng.randint(0, 40)
        data = bytes(rng.choice([0xFF, 0xFF, 0xD8, 0xC0, 0xD9, 0x00, 0x02, rng.randrange(256)]) for _ in range(n))
        if rng.random() < 0.5:
            data = rng.choice([b"\xff\xd8", b"\x89PNG\r\n\x1a\n", b"GIF89a", b"BM", b"GIF87a", b"\xff\xd8\xff"]) + data
        return data, rng.randrange(4)
    k = rng.choice(["png", "gif", "bmp", "jpeg", "jpeg"])
    w = rng.choice([0, 1, 255, 256, 65535, rng.randint(0, 65535)])
    h = rng.choice([0, 1, 255, 256, 65535, rng.randint(0, 65535)])
    tail = bytes(rng.randrange(256) for _ in range(rng.randint(0, 12)))
    if k == "png":
        w = rng.choice([w, 2 ** 32 - 1, 2 ** 31, 70000])
        data = B.png(w, h, tail)
        if rng.random() < 0.2:
            data = data[:12] + b"IDAT" + data[16:]
    elif k == "gif":
        data = B.gif(w, h, tail, ver=rng.choice([b"GIF89a", b"GIF87a", b"GIF88a"]))
    elif k == "bmp":
        data = B.bmp(rng.choice([w, 2 ** 31 - 1]), h, tail, top_down=rng.random() < 0.5)
        if rng.random() < 0.15:   # negative width field
            data = data[:18] + struct.pack("<i", -max(1, w)) + data[22:]
    else:
        segs = []
        for _ in range(rng.randint(0, 4)):
            mk = rng.choice([0xE0, 0xE1, 0xDB, 0xC4, 0xFE, 0xC8, 0xCC, 0xDD] + ([0xFF, 0xD0, 0x01, 0xD9, 0xDA, 0xC0] if wild else []))
            segs.append((mk, bytes(rng.randrange(256) for _ in range(rng.randint(0, 10)))))
        data = B.jpeg(w, h, tail, segs=segs, sof=rng.choice(B.SOF_MARKERS))
        if wild and rng.random() < 0.3:      # length field < 2, or padding before a marker
            i = rng.randrange(2, max(3, len(data)))
            data = data[:i] + rng.choice([b"\xff", b"\xff\xff", b"\xff\xe0\x00\x01", b"\xff\xe0\x00\x00"]) + data[i:]
    if rng.random() < 0.35:
        data = data[:rng.randint(0, len(data))]
    return data, {"png": 0, "jpeg": 1, "bmp": 2, "gif": 3}[k] if rng.random() < 0.9 else rng.randrange(4)


# ----------------------------------------------------------------------------- correspondence
def _funcs():
    """real functions under test, or None where the source does not have them (unfixed tree)"""
    import importlib
    f = {}
    zu = importlib.import_module("sharepoint2text.parsing.extractors.util.zip_utils")
    px = importlib.import_module("sharepoint2text.parsing.extractors.ms_modern.pptx_extractor")
    dx = importlib.import_module("sharepoint2text.parsing.extractors.ms_modern.docx_extractor")
    xx = importlib.import_module("sharepoint2text.parsing.extractors.ms_modern.xlsx_extractor")
    ep = importlib.import_module("sharepoint2text.parsing.extractors.epub_extractor")
    sh = importlib.import_module("sharepoint2text.parsing.extractors.open_office._shared")
    iu = importlib.import_module("sharepoint2text.parsing.extractors.util.image_utils")
    f["part"] = getattr(zu, "resolve_part_target", None)
    f["pptx"] = lambda slide_path, t: px._normalize_relative_path("/".join(slide_path.rsplit("/", 1)[:-1]), t)
    f["xlsx_drawing"] = lambda _a, t: xx._resolve_drawing_path(t)

    def xi(drawing, t):
        try:
            return xx._resolve_image_path(t, drawing)
        except TypeError:
            return xx._resolve_image_path(t)
    f["xlsx_image"] = xi

    def epub(opf_dir, t):
        ctx = object.__new__(ep._EpubContext)
        ctx._opf_dir = opf_dir
        return ctx.resolve_href(t)
    f["epub"] = epub
    f["odf"] = (lambda _a, t: sh.resolve_odf_href(t)) if hasattr(sh, "resolve_odf_href") else None
    f["sniff"] = {"docx": dx._get_image_pixel_dimensions, "xlsx": xx._get_image_pixel_dimensions, "pptx": px._get_image_pixel_dimensions}
    f["util"] = iu.get_image_dimensions
    f["ctype"] = {"docx": lambda t: dx._CONTENT_TYPE_MAP.get(t.rsplit(".", 1)[-1].lower(), "image/" + t.rsplit(".", 1)[-1].lower()),
                  "pptx": lambda t: px._CONTENT_TYPE_MAP.get(t.rsplit(".", 1)[-1].lower(), "image/" + t.rsplit(".", 1)[-1].lower()),
                  "xlsx": xx._get_content_type}
    return f


def _json_ok(s):
    try:
        s.encode("utf-8")
        return True
    except UnicodeEncodeError:
        return False


def correspondence(ctx):
    broken, violations = [], []
    rng = ctx.rng
    F = _funcs()
    nbad = [0]

    def note(name, detail, case):
        nbad[0] += 1
        if nbad[0] <= 25:
            broken.append(Broken("correspondence", name, detail, case=case))

    # (1) resolvers
    reqs, impls = [], []
    for i in range(ctx.n(400, 6000)):
        wild = i % 4 == 3
        t = gen_target(rng, wild)
        if not _json_ok(t):
            continue
        for fn in ("part", "pptx", "xlsx_drawing", "xlsx_image", "epub", "odf"):
            a = {"part": gen_dir(rng), "pptx": rng.choice(["ppt/slides/slide1.xml", "ppt/slides/sub/s.xml", "slide.xml", "a/b"]),
                 "xlsx_drawing": "", "xlsx_image": rng.choice(["xl/drawings/drawing1.xml", "xl/d.xml", "drawing.xml"]),
                 "epub": rng.choice(["OEBPS/", "", "a/b/"]), "odf": ""}[fn]
            if F[fn] is None:
                note(f"c14.resolve/{fn}", "the source has no such function (resolution is done inline, unmodelled)", {"fn": fn, "a": a, "t": t})
                continue
            try:
                got = F[fn](a, t)
            except Exception as e:
                got = f"RAISED:{type(e).__name__}"
            reqs.append({"op": "c14.resolve", "fn": fn, "a": a, "t": t})
            impls.append(got)
    for rq, got, o in zip(reqs, impls, ctx.drive(reqs)):
        ctx.case(("resolve", rq["fn"], rq["a"], rq["t"]), nontrivial=("/" in rq["t"] or "." in rq["t"]))
        ctx.count(f"resolve/{rq['fn']}/" + ("absolute" if rq["t"].startswith("/") else "dotdot" if ".." in rq["t"].split("/") else "plain"))
        if o.get("r") != got:
            note(f"c14.resolve/{rq['fn']}", f"impl={got!r} model={o.get('r', o)!r}", {"fn": rq["fn"], "a": rq["a"], "t": rq["t"]})
    # (2) content types
    reqs, impls = [], []
    for i in range(ctx.n(150, 1500)):
        stem = rng.choice(["media/image1", "../media/a.b", "x", "", "a/b.c/d", "."])
        ext = rng.choice(["png", "PNG", "jpg", "JPEG", "jpeg", "gif", "bmp", "BMP", "tiff", "tif", "emf", "wmf", "webp", "svg", "", "Png", "x.y"])
        t = stem + ("." + ext if rng.random() < 0.9 else "")
        for fn in ("docx", "pptx", "xlsx"):
            reqs.append({"op": "c14.ctype", "fn": fn, "t": t})
            impls.append(F["ctype"][fn](t))
    for rq, got, o in zip(reqs, impls, ctx.drive(reqs)):
        ctx.case(("ctype", rq["fn"], rq["t"]), nontrivial="." in rq["t"])
        ctx.count(f"ctype/{rq['fn']}")
        if o.get("r") != got:
            note(f"c14.ctype/{rq['fn']}", f"impl={got!r} model={o.get('r', o)!r}", {"fn": rq["fn"], "t": rq["t"]})
    # (2b) PDF: /Filter entry -> (format, filter, content type) of `_extract_image` on real pypdf stream objects
    reqs, impls = [], []
    for i in range(ctx.n(150, 1500)):
        fv = gen_pdf_filter(rng)
        try:
            got = pdf_extract_image_filter(fv)
        except Exception as e:
            got = f"RAISED:{type(e).__name__}"
        reqs.append({"op": "c14.pdffilter", "f": fv if fv is not None else ""})
        impls.append(got)
    for rq, got, o in zip(reqs, impls, ctx.drive(reqs)):
        f = rq["f"]
        ctx.case(("pdffilter", json.dumps(f)), nontrivial=isinstance(f, list) and len(f) > 1)
        ctx.count("pdffilter/" + ("name" if not isinstance(f, list) else f"array-{min(len(f), 3)}"))
        if [o.get("format"), o.get("filter"), o.get("ct")] != got:
            note("c14.pdffilter", f"impl={got!r} model={o!r}", {"f": f})
    # (3) sniffers
    reqs, impls = [], []
    from sharepoint2text.parsing.extractors.data_types import DocxImage
    for i in range(ctx.n(500, 8000)):
        data, kind = gen_bytes(rng, wild=(i % 3 == 2))
        for fn in ("docx", "xlsx", "pptx"):
            try:
                w, h = F["sniff"][fn](data)
            except Exception as e:
                w, h = f"RAISED:{type(e).__name__}", None
            reqs.append({"op": "c14.sniff", "fn": fn, "d": list(data)})
            impls.append((w, h))
        tname = ["png", "jpeg", "bmp", "gif"][kind] if rng.random() < 0.8 else "jpg" if kind == 1 else ["png", "jpeg", "bmp", "gif"][kind]
        try:
            w, h = F["util"](data, tname)
        except Exception as e:
            w, h = f"RAISED:{type(e).__name__}", None
        reqs.append({"op": "c14.sniff", "fn": "util", "kind": kind, "d": list(data)})
        impls.append((w, h))
    for rq, got, o in zip(reqs, impls, ctx.drive(reqs)):
        d = bytes(rq["d"])
        sig = d[:2] in (b"\xff\xd8", b"BM") or d[:4] in (b"\x89PNG", b"GIF8")
        ctx.case(("sniff", rq["fn"], rq.get("kind"), d), nontrivial=sig)
        ctx.count(f"sniff/{rq['fn']}/" + ("dims" if got[0] is not None or got[1] is not None else "none"))
        if (o.get("w"), o.get("h")) != got:
            note(f"c14.sniff/{rq['fn']}", f"impl={got!r} model={(o.get('w'), o.get('h'))!r}", {"fn": rq["fn"], "kind": rq.get("kind"), "d": d.hex()})
    # (3b) the sibling kinds / namespaces the generator uses are of the inventory the theorems of Props/C14_Rels quantify over
    inv = ctx.drive([{"op": "c14.relkinds"}])[0]
    for where, key in (("sheet", "sheet"), ("drawing", "drawing"), ("doc", "document")):
        extra = [k for k in SIB_KINDS[where] + SIB_COMMON[where] if k not in inv.get(key, [])]
        if extra:
            note("c14.relkinds", f"generated {where} relationship kinds outside the Lean inventory: {sorted(set(extra))}", {})
    if inv.get("ns") != B.REL_NAMESPACES:
        note("c14.relkinds", f"namespaces of the builder {B.REL_NAMESPACES} differ from the Lean inventory {inv.get('ns')}", {})
    # (4) documents
    cases = []
    per_fmt = ctx.n(36, 400)
    for fmt in FORMATS:
        for i in range(per_fmt):
            spec = gen_spec(rng, fmt, wild=(i % 2 == 1))
            cases.append(spec)
        for i in range(ctx.n(8, 60)):          # >= 11 numbered parts, pictures on parts 2..9 and >= 10
            cases.append(gen_spec(rng, fmt, wild=(i % 2 == 1), many=True))
    for w in committed_specs():
        cases.append(w)
    reqs, keep = [], []
    for spec in cases:
        fmt = spec["fmt"]
        try:
            data = B.build(spec)
            names = _member_names(fmt, data)
            obs = run_impl(spec, data)
        except Exception as e:
            note(f"c14.extract/{fmt}", f"extraction raised {type(e).__name__}: {e}", {"spec": spec})
            continue
        reqs.append(model_request(spec, names))
        keep.append((spec, obs))
    outs = ctx.drive(reqs)
    for (spec, obs), o in zip(keep, outs):
        fmt = spec["fmt"]
        n_anchor = sum(len(u) for u in spec["units"])
        ctx.case(("doc", json.dumps(spec, sort_keys=True)), nontrivial=n_anchor > 0)
        ctx.count(f"doc/{fmt}/" + ("no-anchor" if n_anchor == 0 else "anchors"))
        sib = spec.get("opts", {}).get("sib", [])
        if sib:
            ctx.count(f"doc/{fmt}/sibling-relationships")
            for e in sib:
                ctx.count(f"sibling/{e['where']}/{e['kind']}" + ("/first" if e.get("at", 0) == 0 else ""))
            if any(e.get("at", 0) == 0 and e["where"] in ("sheet", "slide", "drawing") and spec["units"][e["unit"]] for e in sib) or \
               any(e.get("at", 0) <= 1 and e["where"] in ("doc", "pres") for e in sib):
                ctx.count(f"doc/{fmt}/sibling-listed-before-the-used-relationship")
        if len(spec["units"]) >= 11:
            ctx.count(f"doc/{fmt}/parts>=11")
        if any(len(u) >= 11 for u in spec["units"]):
            ctx.count(f"doc/{fmt}/anchors-on-one-part>=11")
        for u in spec["units"]:
            for a in u:
                ctx.count(f"anchor/{fmt}/{a['t']}")
        if "drv_error" in o:
            note(f"c14.extract/{fmt}", "driver: " + o["drv_error"], {"spec": spec})
            continue
        got = impl_canon(spec, obs)
        if fmt == "xlsx":   # XlsxImage / ODS images carry no unit number
            pass
        if got != o["units"]:
            note(f"c14.extract/{fmt}", f"impl={got} model={o['units']}", {"spec": spec})
            continue
        if "units_pkg" in o and got != o["units_pkg"]:
            note(f"c14.extract/{fmt}/from-package", f"impl={got} model={o['units_pkg']}", {"spec": spec})
            continue
        if "units_rels" in o and got != o["units_rels"]:
            note(f"c14.extract/{fmt}/by-relationship-kind", f"impl={got} model={o['units_rels']}", {"spec": spec})
            continue
        # PDF: format / filter / content type of every returned XObject through the model's filter-chain reading
        if fmt == "pdf":
            rq3, exp3 = [], []
            for r in obs["images"]:
                m = spec["media"].get(_name_of(spec, r["b"]))
                if m is None or "pf" not in r:
                    continue
                fl = B.pdf_filters(m)
                rq3.append({"op": "c14.pdffilter", "f": fl if (len(fl) > 1 or m.get("filter_form") == "array") else fl[0]})
                exp3.append(r)
                ctx.count("pdf-filter/" + ("name" if not isinstance(rq3[-1]["f"], list) else f"array-{min(len(fl), 3)}") + "/" + fl[-1])
            for r, o3 in zip(exp3, ctx.drive(rq3)):
                if [o3.get("format"), o3.get("filter"), o3.get("ct")] != r["pf"] or o3.get("ct") != r["ct"]:
                    note("c14.extract/pdf/filter", f"impl={r['pf']} / {r['ct']!r} model={o3}", {"spec": spec})
        # the property statement itself on every generated document (oracle on the real code, independent of the model):
        # what the model does not speak about (content type / pixel size outside OOXML, bytes, views) is judged here
        for k, w in check_doc(spec, obs):
            if k not in OPEN_WITNESSES and not any(v.key == k for v in violations):
                violations.append(Violation(k, f"{fmt} document {json.dumps(spec['units'])[:160]}{_sib_note(spec)}: {w}", {"spec": spec}))
        # content type and size of the OOXML images through the model's functions
        if fmt in ("docx", "pptx", "xlsx"):
            rq2, exp2 = [], []
            for r in obs["images"]:
                if r["b"] == b"":
                    continue
                member = _name_of(spec, r["b"])
                ref = next((a["ref"] for u in spec["units"] for a in u if a.get("part") == member), member)
                anchors = [a for u in spec["units"] for a in u if a.get("part") == member]
                rq2.append({"op": "c14.ctype", "fn": fmt, "t": (member.rsplit("/", 1)[-1] if fmt == "xlsx" else ref)})
                exp2.append(("ct", r["ct"]))
                if fmt != "xlsx" or all(a.get("anchor", "two") == "two" for a in anchors):
                    rq2.append({"op": "c14.sniff", "fn": fmt, "d": list(r["b"])})
                    exp2.append(("dim", (r["w"], r["h"])))
            for (kind, want), o2 in zip(exp2, ctx.drive(rq2)):
                gotv = o2.get("r") if kind == "ct" else (o2.get("mw"), o2.get("mh"))
                if gotv != want:
                    note(f"c14.extract/{fmt}/{kind}", f"impl={want!r} model={gotv!r}", {"spec": spec})
        if len(ctx.samples) < 5 and n_anchor > 1:
            ctx.sample({"fmt": fmt, "units": [[(a["t"], a.get("ref", a.get("part"))) for a in u] for u in spec["units"]],
                        "impl": got, "model": o["units"]})
    # (5) fixtures: unit view vs document view
    for path, fmt, obs, err in fixtures_observed():
        ctx.case(("fixture", path))
        ctx.count("fixture/" + (fmt or "?"))
        if err:
            continue
        for k, w in views_fail(fmt, obs):
            violations.append(Violation(k, f"{path}: {w}", {"fixture": path}))
    ctx.coverage["mismatches"] = nbad[0]
    return {"broken": broken, "violations": violations}


def _member_names(fmt, data):
    if fmt in ("rtf", "pdf"):
        return []
    import zipfile
    with zipfile.ZipFile(io.BytesIO(data)) as z:
        return z.namelist()


_FIX_FMT = {"pdf": "pdf", "pptx": "pptx", "pptm": "pptx", "xlsx": "xlsx", "xlsm": "xlsx", "odp": "odp", "ods": "ods"}


def fixtures_observed():
    repo = os.environ.get("S2T_REPO", "/repo")
    root = os.path.join(repo, "sharepoint2text", "tests", "resources")
    from sharepoint2text.parsing import router
    out = []
    for d, _, files in sorted(os.walk(root)):
        if "password_protected" in d:
            continue
        for fn in sorted(files):
            p = os.path.join(d, fn)
            ext = fn.rsplit(".", 1)[-1].lower()
            if ext in ("zip", "7z", "tar", "gz", "orig"):
                continue
            try:
                f = router.get_extractor(p)
                with open(p, "rb") as fh:
                    res = next(f(io.BytesIO(fh.read()), path=p))
                out.append((os.path.relpath(p, repo), _FIX_FMT.get(ext, ext), observe(res), None))
            except Exception as e:   # not this property's business (C01)
                out.append((os.path.relpath(p, repo), ext, None, repr(e)))
    return out


# ----------------------------------------------------------------------------- committed witnesses
def _png(i, w=3, h=5):
    return {"kind": "png", "w": w, "h": h, "tail": "%04x" % i}


WITNESSES = {
    # fixed defects: these must hold now (they are part of every correspondence run)
    "pptx.absolute-target": {"fmt": "pptx", "media": {"ppt/media/i.png": _png(1)}, "units": [[{"t": "embed", "part": "ppt/media/i.png", "ref": "/ppt/media/i.png"}]], "opts": {}},
    "pptx.mixed-dotdot": {"fmt": "pptx", "media": {"ppt/media/i.png": _png(1)}, "units": [[{"t": "embed", "part": "ppt/media/i.png", "ref": "media/../../media/i.png"}]], "opts": {}},
    "pptx.numbers-restart": {"fmt": "pptx", "media": {"ppt/media/a.png": _png(1), "ppt/media/b.png": _png(2)},
                             "units": [[{"t": "embed", "part": "ppt/media/a.png", "ref": "../media/a.png"}], [{"t": "embed", "part": "ppt/media/b.png", "ref": "../media/b.png"}]], "opts": {}},
    "docx.absolute-target": {"fmt": "docx", "media": {"word/media/a.png": _png(1), "media/c.gif": {"kind": "gif", "w": 9, "h": 8, "tail": "00"}},
                             "units": [[{"t": "embed", "part": "word/media/a.png", "ref": "/word/media/a.png"}], [{"t": "embed", "part": "media/c.gif", "ref": "../media/c.gif"}]], "opts": {"rels_order": [0, 1]}},
    "xlsx.subdirectory-target": {"fmt": "xlsx", "media": {"xl/media/sub/a.png": _png(1), "xl/drawings/b.png": _png(2)},
                                 "units": [[{"t": "embed", "part": "xl/media/sub/a.png", "ref": "../media/sub/a.png", "anchor": "two"}, {"t": "embed", "part": "xl/drawings/b.png", "ref": "b.png", "anchor": "two"}]], "opts": {}},
    "xlsx.anchor-order": {"fmt": "xlsx", "media": {"xl/media/a.png": _png(1), "xl/media/b.png": _png(2)},
                          "units": [[{"t": "embed", "part": "xl/media/a.png", "ref": "../media/a.png", "anchor": "two"}, {"t": "embed", "part": "xl/media/b.png", "ref": "../media/b.png", "anchor": "one", "cx": 28575, "cy": 47625}]], "opts": {}},
    "ods.number-gap": {"fmt": "ods", "media": {"Pictures/a.png": _png(1)},
                       "units": [[{"t": "embed", "part": "Pictures/a.png", "ref": "Pictures/a.png", "fw": "3px", "fh": "5px"}, {"t": "missing", "ref": "Pictures/zz.png", "fw": "3px", "fh": "5px"},
                                  {"t": "embed", "part": "Pictures/a.png", "ref": "Pictures/a.png", "fw": "3px", "fh": "5px"}]], "opts": {}},
    "odt.dot-href": {"fmt": "odt", "media": {"Pictures/a.png": _png(1)}, "units": [[{"t": "embed", "part": "Pictures/a.png", "ref": "./Pictures/a.png", "fw": "3px", "fh": "5px"}]], "opts": {}},
    "epub.parent-href": {"fmt": "epub", "media": {"images/b.png": _png(2)}, "units": [[{"t": "embed", "part": "images/b.png", "ref": "../images/b.png"}]], "opts": {"opf_dir": "OEBPS/"}},
    "docx.relationship-order": {"fmt": "docx", "media": {"word/media/a.png": _png(1), "word/media/b.png": _png(2)},
                                "units": [[{"t": "embed", "part": "word/media/a.png", "ref": "media/a.png"}], [{"t": "embed", "part": "word/media/b.png", "ref": "media/b.png"}]],
                                "opts": {"rels_order": [1, 0]}},
    "xlsx.unknown-size-metadata": {"fmt": "xlsx", "media": {"xl/media/a.tiff": {"kind": "raw", "w": 0, "h": 0, "tail": "49492a0008000000"}},
                                   "units": [[{"t": "embed", "part": "xl/media/a.tiff", "ref": "../media/a.tiff", "anchor": "two"}]], "opts": {}},
    "xlsx.vml-drawing-listed-first": {"fmt": "xlsx", "media": {"xl/media/a.png": _png(1)},
                                      "units": [[{"t": "embed", "part": "xl/media/a.png", "ref": "../media/a.png", "anchor": "two"}]],
                                      "opts": {"sib": [{"where": "sheet", "unit": 0, "kind": "vmlDrawing", "id": "rId101", "ns": 0, "at": 0, "target": "../drawings/vmlDrawing1.vml", "stub": True},
                                                       {"where": "sheet", "unit": 0, "kind": "comments", "id": "rId102", "ns": 0, "at": 9, "target": "../comments1.xml", "stub": True}]}},
    "pdf.numbers-restart": {"fmt": "pdf", "media": {"a": {"kind": "jpeg", "w": 20, "h": 10, "tail": "ffd9"}, "b": {"kind": "jpeg", "w": 8, "h": 9, "tail": "01ffd9"}},
                            "units": [[{"t": "embed", "part": "a"}], [{"t": "embed", "part": "b"}]], "opts": {}},
}

OPEN_WITNESSES = {
    "odf.external-link-entry": {"fmt": "odp", "media": {}, "units": [[{"t": "external", "ref": "http://example.org/pic.png", "fw": "2cm", "fh": "1cm"}]], "opts": {}},
    "odg.missing-member-entry": {"fmt": "odg", "media": {}, "units": [[{"t": "missing", "ref": "Pictures/zz.png", "fw": "2cm", "fh": "1cm"}]], "opts": {}},
    "odf.size-from-frame-extent": {"fmt": "odt", "media": {"Pictures/a.png": _png(1, 300, 200)}, "units": [[{"t": "embed", "part": "Pictures/a.png", "ref": "Pictures/a.png", "fw": "2cm", "fh": "1cm"}]], "opts": {}},
    "rtf.size-from-picw-as-twips": {"fmt": "rtf", "media": {"a": _png(1, 300, 200)}, "units": [[{"t": "embed", "part": "a"}]], "opts": {}},
    "rtf.wrapped-hex-truncated": {"fmt": "rtf", "media": {"a": _png(1, 30, 20)}, "units": [[{"t": "embed", "part": "a"}]], "opts": {"rtf_wrap": 64}},
    "epub.no-pixel-size": {"fmt": "epub", "media": {"OEBPS/images/a.png": _png(1, 300, 200)}, "units": [[{"t": "embed", "part": "OEBPS/images/a.png", "ref": "images/a.png"}]], "opts": {"opf_dir": "OEBPS/"}},
    "xlsx.size-from-anchor-extent": {"fmt": "xlsx", "media": {"xl/media/a.png": _png(1, 300, 200)},
                                     "units": [[{"t": "embed", "part": "xl/media/a.png", "ref": "../media/a.png", "anchor": "one", "cx": 952500, "cy": 476250}]], "opts": {}},
    "xlsx.sheet-drawing-by-position": {"fmt": "xlsx", "media": {"xl/media/a.png": _png(1)},
                                       "units": [[{"t": "embed", "part": "xl/media/a.png", "ref": "../media/a.png", "anchor": "two"}], []], "opts": {"sheet_files": [1, 0]}},
}


def committed_specs():
    return [json.loads(json.dumps(s)) for s in WITNESSES.values()]


def known_witnesses(ctx):
    out = []
    for key, spec in OPEN_WITNESSES.items():
        fails = check_doc(json.loads(json.dumps(spec)))
        hit = [w for k, w in fails if k == key]
        if hit:
            out.append(Violation(key, hit[0], {"spec": spec}))
        else:
            ctx.notes.append(f"witness of open finding {key} no longer fails (other failures: {[k for k, _ in fails]})")
    return out


# ----------------------------------------------------------------------------- search / replay
def _sib_note(spec):
    sib = spec.get("opts", {}).get("sib", [])
    return (" [sibling relationships: " + ", ".join(f"{e['where']}{'' if e.get('unit') is None else e['unit'] + 1}:{e['kind']}@{e.get('at', 0)}" for e in sib[:6]) + "]") if sib else ""


def _doc_violations(spec):
    return [Violation(k, f"{spec['fmt']} document {json.dumps(spec['units'])[:160]}{_sib_note(spec)}: {w}", {"spec": spec}) for k, w in check_doc(spec)]


def _resolver_probe(fn, a, t):
    """documents whose only picture is referenced as `t`: one image file at the member the reference designates and
    a different one wherever the real resolver points, so that a wrong resolution shows as a missing or a foreign image"""
    fmts = {"part": [("pptx", "ppt/slides"), ("docx", "word"), ("xlsx", "xl/drawings")], "pptx": [("pptx", "ppt/slides")],
            "xlsx_image": [("xlsx", "xl/drawings")], "epub": [("epub", a.rstrip("/"))], "odf": [("odt", ""), ("odp", ""), ("ods", ""), ("odg", "")]}.get(fn, [])
    out = []
    for fmt, base in fmts:
        want, escaped = ref_resolve(base, t)
        cands = {want}
        try:
            F = _funcs()
            got = {"pptx": lambda: F["pptx"]("ppt/slides/slide1.xml", t), "docx": lambda: F["part"]("word", t) if F["part"] else "word/" + t,
                   "xlsx": lambda: F["xlsx_image"]("xl/drawings/drawing1.xml", t), "epub": lambda: F["epub"](a, t),
                   "odt": lambda: F["odf"]("", t) if F["odf"] else t}.get(fmt, lambda: t)()
            cands.add(got)
        except Exception:
            pass
        media = {}
        for i, n in enumerate(sorted(c for c in cands if isinstance(c, str) and c and not c.endswith("/") and "\x00" not in c)):
            if n in ("content.xml", "mimetype") or n.startswith(("META-INF/", "[Content", "ppt/slides/slide", "ppt/presentation", "word/document", "xl/workbook", "xl/worksheets/", "xl/drawings/drawing")):
                continue
            media[n] = _png(i + 1)
        spec = {"fmt": fmt, "media": media, "units": [[{"t": "ref", "ref": t, "anchor": "two", "fw": "3px", "fh": "5px"}]], "opts": {}}
        if fmt == "epub":
            spec["opts"]["opf_dir"] = a
        out.append(spec)
    return out


def _func_probe_specs(broken):
    """documents built around a disagreeing resolver / sniffer input, so that the property itself is exercised"""
    specs = []
    for b in broken:
        c = b.case or {}
        if "spec" in c:
            specs.append(c["spec"])
        if b.name.startswith("c14.resolve") and "t" in c:
            specs.extend(_resolver_probe(c["fn"], c.get("a", ""), c["t"]))
        if b.name.startswith("c14.sniff") and "d" in c:
            data = bytes.fromhex(c["d"])
            if header_dims(data) is not None:
                for fmt, part, ref in (("docx", "word/media/x.bin", "media/x.bin"), ("pptx", "ppt/media/x.bin", "../media/x.bin"), ("xlsx", "xl/media/x.bin", "../media/x.bin")):
                    ext = {b"\x89P": "png", b"GI": "gif", b"BM": "bmp", b"\xff\xd8": "jpg"}.get(data[:2], "png")
                    part2, ref2 = part.replace("bin", ext), ref.replace("bin", ext)
                    specs.append({"fmt": fmt, "media": {part2: {"kind": "raw", "w": 0, "h": 0, "tail": data.hex()}},
                                  "units": [[{"t": "embed", "part": part2, "ref": ref2, "anchor": "two"}]], "opts": {}})
    return specs


def search(ctx, broken):
    open_keys = set(OPEN_WITNESSES)
    found = []

    def run(spec):
        vs = [v for v in _doc_violations(spec) if v.key not in open_keys]
        found.extend(vs)
        return bool(vs)

    for spec in _func_probe_specs(broken)[:60]:
        if run(spec):
            return found
    for spec in committed_specs():
        if run(spec):
            return found
    rng = ctx.rng
    for i in range(ctx.n(600, 6000)):
        fmt = FORMATS[i % len(FORMATS)]
        if run(gen_spec(rng, fmt, wild=(i % 3 != 0), many=(i // len(FORMATS)) % 3 == 1)):
            return found
    # sniffers on raw headers inside a minimal document
    for i in range(ctx.n(300, 3000)):
        data, _ = gen_bytes(rng, wild=False)
        if header_dims(data) is None:
            continue
        ext = {b"\x89P": "png", b"GI": "gif", b"BM": "bmp", b"\xff\xd8": "jpg"}.get(data[:2], "png")
        for fmt, part, ref in (("docx", f"word/media/x.{ext}", f"media/x.{ext}"), ("pptx", f"ppt/media/x.{ext}", f"../media/x.{ext}"), ("xlsx", f"xl/media/x.{ext}", f"../media/x.{ext}")):
            spec = {"fmt": fmt, "media": {part: {"kind": "raw", "w": 0, "h": 0, "tail": data.hex()}},
                    "units": [[{"t": "embed", "part": part, "ref": ref, "anchor": "two"}]], "opts": {}}
            if run(spec):
                return found
    return found


def replay(ctx, payload):
    rep = payload.get("replay", {})
    if "fixture" in rep:
        for path, fmt, obs, err in fixtures_observed():
            if path == rep["fixture"]:
                fails = views_fail(fmt, obs) if not err else []
                return (not fails), "; ".join(w for _, w in fails) or "views agree on the fixture"
        return False, "fixture not found"
    if "spec" not in rep:
        return False, "replay names a broken obligation, not an input: " + payload.get("what", "")
    fails = check_doc(rep["spec"])
    key = payload.get("key")
    mine = [w for k, w in fails if k == key] or [w for k, w in fails if k not in OPEN_WITNESSES]
    return (not mine), "; ".join(mine) or "property holds on the recorded document"
