"""C06 — the ambient inputs an extraction must NOT depend on (hash seed, wall clock, time zone), and the generated
documents on which a dependence shows: OPC packages with parts at non-default names (builders/c06_opc.py) and
presentations whose optional members (alt texts) are present / empty / absent independently.

An environment is {"seed": PYTHONHASHSEED, "clock": faked epoch seconds | None (real clock, no shim), "tz": TZ | None}.
Every digest worker runs in a fresh interpreter under one environment (harness/workers/c06_clock.py fakes the clock
before the library and its third-party parsers are imported).  When digests differ, the cause is pinned by changing
ONE coordinate of the reference environment at a time.
"""
from __future__ import annotations

import json
import os
import subprocess

# clocks years apart, at different times of day, on both sides of every date line (with the zones below)
ENVS_QUICK = [
    {"seed": "0", "clock": None, "tz": None},
    {"seed": "1", "clock": 981173106.5, "tz": "UTC"},                 # 2001-02-03T04:05:06.5Z
    {"seed": "2", "clock": 2145916799.25, "tz": "AAA-14"},            # 2037-12-31T23:59:59.25Z, UTC+14
    {"seed": "12345", "clock": 1709251199.75, "tz": "BBB+11"},        # 2024-02-29T23:59:59.75Z, UTC-11
]
ENVS_THOROUGH = ENVS_QUICK + [
    {"seed": "3", "clock": 86400.0 * 365.25 * 30 + 0.000001, "tz": "CCC-5:45"},
    {"seed": "5", "clock": 4102444800.0, "tz": "UTC"},                # 2100-01-01
    {"seed": "77", "clock": 1.0, "tz": "DDD+3:30"},                   # the epoch
    {"seed": "random", "clock": 1751328000.123456, "tz": "Europe/Berlin"},
]


def env_vars(env, repo):
    e = dict(os.environ, PYTHONHASHSEED=str(env["seed"]), S2T_REPO=repo, PYTHONPATH=repo)
    e.pop("S2T_FAKE_CLOCK", None)
    if env.get("clock") is not None:
        e["S2T_FAKE_CLOCK"] = repr(float(env["clock"]))
    if env.get("tz") is not None:
        e["TZ"] = env["tz"]
    return e


def describe(env):
    return "seed=%s clock=%s tz=%s" % (env["seed"], "real" if env.get("clock") is None else env["clock"], env.get("tz") or "inherited")


def run_digests(worker, envs, fx_paths, repo):
    """-> [table | None per environment]"""
    procs = []
    for env in envs:
        p = subprocess.Popen(["/venv/bin/python", worker], stdin=subprocess.PIPE, stdout=subprocess.PIPE, stderr=subprocess.DEVNULL,
                             env=env_vars(env, repo))
        p.stdin.write(json.dumps(fx_paths).encode())
        p.stdin.close()
        procs.append(p)
    tables = []
    for p in procs:
        out = p.stdout.read()
        p.wait()
        try:
            tables.append(json.loads(out))
        except Exception:
            tables.append(None)
    return tables


def pin_cause(worker, ref_env, other_env, rel, path, repo):
    """which single coordinate makes `rel` yield something else?  -> (name, [envA, envB]).  All candidates run under a
    FAKED clock (a real clock moves between two runs and would be blamed on whatever is tried first):
    the same environment twice (nondeterministic), two clocks, two zones, two hash seeds."""
    fixed = float(other_env["clock"]) if other_env.get("clock") is not None else 1500000000.5
    base = {"seed": ref_env["seed"], "clock": fixed, "tz": ref_env.get("tz")}
    cands = [("nondeterministic", base, dict(base)),
             ("clock", base, dict(base, clock=fixed + 86400.0 * 4000 + 3723.5))]
    if ref_env.get("tz") != other_env.get("tz"):
        cands.append(("timezone", base, dict(base, tz=other_env.get("tz"))))
    if ref_env["seed"] != other_env["seed"]:
        cands.append(("hashseed", base, dict(base, seed=other_env["seed"])))
    for nm, env_a, env_b in cands:
        ta, tb = run_digests(worker, [env_a, env_b], [[rel, path]], repo)
        if ta and tb and ta.get(rel) != tb.get(rel):
            return nm, [env_a, env_b]
    return "environment", [ref_env, other_env]


# ------------------------------------------------------------------------------------------------ generated documents
def opc_docs(ctx, fx, file_type_of, k_small=3):
    """[(name, bytes)] relocation variants of the smallest fixture per OOXML extension.  The spreadsheet gets the whole
    location x {created, modified} matrix in every tier (openpyxl substitutes the current time for missing dates)."""
    from builders import c06_opc
    exts = [".xlsx", ".docx", ".pptx"] + ([".xlsm", ".docm", ".pptm"] if ctx.thorough else [])
    out = []
    for ext in exts:
        cands = sorted(((len(d), n, d) for n, d in fx if n.lower().endswith(ext) and "password" not in n and file_type_of(n)), key=lambda t: t[:2])
        if not cands:
            continue
        _, name, data = cands[0]
        root, e = os.path.splitext(name)
        k = None if (ext == ".xlsx" or ctx.thorough) else k_small
        for kind, b in c06_opc.variants(ctx.rng, name, data, k):
            out.append((f"{root}~opc-{kind}{e}", b))
            ctx.count("opc/" + ext.lstrip(".") + "/" + kind.split("-")[0])
    return out


def member_docs(ctx, fx, file_type_of, accepted, cap=12):
    """[(name, bytes)] the smallest fixture of every extension with each optional metadata member dropped on its own"""
    from builders import c06_members
    by_ext = {}
    for n, d in fx:
        ext = os.path.splitext(n)[1].lower()
        if "password" in n or not file_type_of(n) or len(d) > 200_000:
            continue
        if ext not in by_ext or len(d) < len(by_ext[ext][1]):
            by_ext[ext] = (n, d)
    out = []
    for ext in sorted(by_ext):
        name, data = by_ext[ext]
        root, e = os.path.splitext(name)
        for kind, b in c06_members.drops(ctx.rng, name, data, None if ctx.thorough else cap):
            ctx.count("members/tried")
            if accepted(name, b):
                ctx.count("members/accepted/" + ext.lstrip("."))
                out.append((f"{root}~drop-{kind}{e}", b))
    return out


ALT_TEXTS = ["Bar chart of revenue per region", "", None, "Logo", "a < b & c", "Zeile 1\nZeile 2"]


def rich_decks(ctx, n):
    """presentations whose pictures carry alt text / empty alt text / none, independently per picture: the documents on
    which get_full_text(include_image_captions=True) differs from get_full_text()"""
    from builders import c14docs, c06_decls
    from xml.sax.saxutils import quoteattr
    rng = ctx.rng
    out = []
    for i in range(n):
        units, media = [], {}
        for s in range(rng.randint(1, 3)):
            unit = []
            for _ in range(rng.randint(1, 2) if s == 0 else rng.randint(0, 2)):
                part = f"ppt/media/image{len(media) + 1}.png"
                media[part] = {"kind": "png", "w": rng.randint(1, 9), "h": rng.randint(1, 9), "tail": "00"}
                unit.append({"t": "embed", "part": part, "ref": "../media/" + part.rsplit("/", 1)[1]})
            units.append(unit)
        data = c14docs.build_pptx({"fmt": "pptx", "media": media, "units": units, "opts": {}})
        repl = {}
        first = True
        import zipfile, io
        z = zipfile.ZipFile(io.BytesIO(data))
        for nm in z.namelist():
            if nm.startswith("ppt/slides/slide") and nm.endswith(".xml"):
                xml = z.read(nm).decode()
                parts = xml.split(' descr=""')
                new = parts[0]
                for rest in parts[1:]:
                    alt = ALT_TEXTS[0] if first else rng.choice(ALT_TEXTS)     # at least one real caption per deck
                    first = False
                    new += ("" if alt is None else " descr=" + quoteattr(alt).replace("\n", "&#10;")) + rest
                repl[nm] = new.encode()
        out.append((f"generated/deck{i}.pptx", c06_decls._rezip(data, repl)))
    return out
