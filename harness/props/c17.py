"""C17 — removed markup is removed completely and takes nothing else with it.

Correspondence of S2T.Model.HtmlSkip with html_extractor._HtmlTreeBuilder and
epub_extractor._XhtmlTextExtractor (per-call skip state + complete final object state) on
(A) structured documents rendered to HTML and tokenised by the real HTMLParser, (B) malformed
character soup tokenised by the real HTMLParser, (C) synthetic handler-call sequences driven
straight into the real handlers; tie of the Spec's `events` to what HTMLParser really delivers;
and the property oracle itself (token documents) end to end through read_html, read_mhtml,
read_epub, msg_email_extractor (stubbed MSG container)."""
from __future__ import annotations

import base64
import html as _html
import io
import json
import re
import zipfile

from run import Broken, Violation

GEN = ["HtmlSkip", "PyHtmlTree", "PyEpubXhtml"]
RULE = ("documents = flat sequences of visible items (text, open/close/self-closed tags of block, inline, table, void "
        "and unknown elements, stray end tags, unclosed tags) interleaved at every position with removed elements "
        "(script, style, noscript, iframe, object, embed, applet) whose content is drawn from text, void tags, "
        "self-closing forms, nested removable elements (same and other names), unclosed tags, stray end tags, "
        "comments, CDATA, PIs; plus comment/decl/PI items; plus character soup; plus raw handler-call sequences. "
        "distinct = distinct (machine, handler-call sequence); non-trivial = the sequence enters a removed element "
        "or contains a removable tag / comment")
ASSUMPTIONS = [
    "html.parser.HTMLParser (CPython 3.12) turns text into handler calls; its tokenisation (incl. CDATA mode for "
    "script/style, lower-casing of tag names) is not modelled - the model starts at the handler calls",
    "the handlers' own tag.lower() is the identity on what HTMLParser delivers (the model receives the lower-cased tag)",
    "the Spec's rendering of a document to HTML text (harness render()) is tied to HTMLParser's calls by the "
    "c17.spec comparison of this run only for the generated documents",
    "_HtmlTextExtractor / get_text() (tree -> text, whitespace clean-up) are outside the theorems; the end-to-end "
    "token oracle of this run exercises them",
    "MSG: the OLE container is stubbed (MsOxMessage replaced); the body goes through the real _html_to_text",
]
TRUSTED = ["model of the class-specific handler rests (Tree.down, Epub.down) in S2T/Model/HtmlSkip.lean - tied by the "
           "complete-state comparison of this run, not used as a hypothesis by the generic theorems"]

# --- the property statement's own lists (NOT read from the library) ---------------------------
SPEC_REMOVABLE = ("script", "style", "noscript", "iframe", "object", "embed", "applet")
STD_VOID = frozenset("area base br col embed hr img input link meta param source track wbr".split())
RAWTEXT = ("script", "style")  # HTMLParser CDATA_CONTENT_ELEMENTS

_HOOKS = {"handle_starttag": "s", "handle_endtag": "e", "handle_startendtag": "se", "handle_data": "d",
          "handle_comment": "c", "handle_decl": "decl", "handle_pi": "pi", "unknown_decl": "ud"}


# ----------------------------------------------------------------------------- real side
def _classes():
    from sharepoint2text.parsing.extractors.epub_extractor import _XhtmlTextExtractor
    from sharepoint2text.parsing.extractors.html_extractor import _HtmlTreeBuilder
    return {"html": _HtmlTreeBuilder, "epub": _XhtmlTextExtractor}


_LOGGING = {}


def _logging_class(machine):
    """subclass of the real builder that logs every top-level handler call and the skip state after it"""
    cls = _classes()[machine]
    if cls in _LOGGING:
        return _LOGGING[cls]

    class L(cls):
        def __init__(self):
            super().__init__()
            self._c17_log, self._c17_trace, self._c17_in = [], [], False

    def mk(name, kind):
        def m(self, *args):
            top = not self._c17_in
            if top:
                self._c17_in = True
                if kind in ("s", "se"):
                    self._c17_log.append([kind, args[0].lower(), [[k, v] for k, v in args[1]]])
                elif kind == "e":
                    self._c17_log.append([kind, args[0].lower()])
                else:
                    self._c17_log.append([kind, args[0]])
            try:
                return getattr(super(L, self), name)(*args)
            finally:
                if top:
                    self._c17_in = False
                    self._c17_trace.append([self.skip_depth, getattr(self, "_skip_tag", None)])
        return m

    for name, kind in _HOOKS.items():
        setattr(L, name, mk(name, kind))
    _LOGGING[cls] = L
    return L


def _snapshot(machine, p):
    if machine == "html":
        st = {"tree": p.root, "stack": [n["tag"] for n in p.stack], "last": p.last_closed}
    else:
        st = {"text_parts": p.text_parts, "in_block": p.in_block, "tables": p.tables,
              "current_table": p._current_table, "current_row": p._current_row, "current_cell": p._current_cell,
              "in_table": p._in_table, "in_cell": p._in_cell, "title": p._title, "in_title": p._in_title}
    st["trace"] = p._c17_trace
    return json.loads(json.dumps(st))


def _tokenise(machine, text):
    """real builder fed with text (as the library does: feed, no close) -> (events, snapshot) or None if it raised"""
    p = _logging_class(machine)()
    try:
        p.feed(text)
    except Exception:
        return None
    return p._c17_log, _snapshot(machine, p)


def _drive_direct(machine, evs):
    """real handlers called directly with a synthetic call sequence"""
    p = _logging_class(machine)()
    for e in evs:
        k = e[0]
        if k == "s":
            p.handle_starttag(e[1], [(a, b) for a, b in e[2]])
        elif k == "e":
            p.handle_endtag(e[1])
        elif k == "se":
            p.handle_startendtag(e[1], [(a, b) for a, b in e[2]])
        elif k == "d":
            p.handle_data(e[1])
        elif k == "c":
            p.handle_comment(e[1])
        elif k == "decl":
            p.handle_decl(e[1])
        elif k == "pi":
            p.handle_pi(e[1])
        elif k == "ud":
            p.unknown_decl(e[1])
    return p._c17_log, _snapshot(machine, p)


def _jsonable(evs):
    for e in evs:
        for x in e[1:]:
            for s in ([x] if isinstance(x, str) else [y for kv in x for y in kv if y is not None]):
                if any(0xD800 <= ord(c) <= 0xDFFF for c in s):
                    return False
    return True


# ----------------------------------------------------------------------------- documents (Spec items)
WORDS = ["lorem", "ipsum", "a<b", "x&y", "q>r", "café", "中文", "zero​width", "nb sp", "\U0001F600",
         "\"quoted\"", "it's", "1 < 2 && 3 > 2", "tab\there", "line\nbreak", "  spaced  ", "&amp;", "&lt;p&gt;", "]]>", "-->"]
BLOCK = ["p", "div", "section", "article", "blockquote", "pre", "h1", "h2", "h3", "h6", "header", "footer", "main",
         "aside", "nav", "address", "figure", "figcaption", "form", "fieldset", "dl", "dt", "dd", "center", "details",
         "summary", "template", "textarea", "label", "button", "select", "option", "svg", "math", "video", "audio",
         "canvas", "map", "frameset", "noframes", "noembed", "xmp", "plaintext-x", "custom-el", "body", "html"]
INLINE = ["span", "b", "i", "em", "strong", "a", "u", "code", "small", "sub", "sup", "font", "mark", "q", "cite", "abbr"]
VOIDS = ["br", "hr", "img", "input", "wbr", "meta", "link", "source", "param", "area", "col", "base", "track"]
ATTR_NAMES = ["class", "id", "href", "src", "style", "data-x", "title", "hidden", "type", "name", "value", "lang"]


def _attrs(rng, hidden_tok=None):
    out = []
    for _ in range(rng.choice((0, 0, 0, 1, 1, 2, 3))):
        n = rng.choice(ATTR_NAMES)
        v = rng.choice((None, "", "v", "a b", "x\"y", "a<b>c", "&", "café", "javascript:alert(1)", "/p/a.png"))
        out.append([n, v])
    if hidden_tok and rng.random() < 0.3:
        out.append(["data-h", hidden_tok])
    return out


class _Tok:
    """unique visible / hidden marker words"""

    def __init__(self):
        self.vis, self.hid = [], []

    def v(self):
        t = f"vis{len(self.vis):04d}q"
        self.vis.append(t)
        return t

    def h(self):
        t = f"hid{len(self.hid):04d}q"
        self.hid.append(t)
        return t


def _filler(rng):
    return " ".join(rng.choice(WORDS) for _ in range(rng.choice((0, 0, 1, 2))))


def _vtext(rng, tk):
    return ["text", (_filler(rng) + " " + tk.v() + " " + _filler(rng)).strip(" ") if rng.random() < 0.8 else tk.v()]


def _raw_junk(rng, tk, tag):
    """content of a raw-text element (script/style): HTMLParser delivers it as data only"""
    if rng.random() < 0.15:
        return []
    bits = []
    for _ in range(rng.randint(1, 4)):
        bits.append(rng.choice([
            tk.h(), "var a = 1;", "if (a<b && c>d) {}", "<p>" + tk.h() + "</p>", "<!-- " + tk.h() + " -->", "</p>", "</div >",
            "<img src=x>", "<noscript>", "</noscript>", "body{color:red}", "&amp;", "<![CDATA[", "]]>", "\n",
            "document.write('<b>" + tk.h() + "</b>')"]))
    s = " ".join(bits)
    if tag in s.lower().replace(" ", ""):  # never close (or seem to re-open) the element itself
        s = tk.h()
    return [["d", s]]


def _junk(rng, tk, tag, depth=0):
    """content of a removed element `tag` (not raw text): arbitrary events, same-name tags balanced"""
    out = []
    for _ in range(rng.choice((0, 1, 1, 2, 3, 4, 6)) if depth == 0 else rng.choice((0, 1, 2))):
        r = rng.random()
        if r < 0.22:
            out.append(["d", (_filler(rng) + " " + tk.h()).strip()])
        elif r < 0.36:  # void child, never closed
            out.append(["s", rng.choice(["img", "br", "input", "param", "source", "embed", "hr", "meta"]), _attrs(rng, tk.h())])
        elif r < 0.44:  # self-closing forms (void, non-void, removable, same name)
            out.append(["se", rng.choice(["br", "img", "param", "div", "object", "embed", "iframe", tag, "span"]), _attrs(rng)])
        elif r < 0.54:  # unclosed start tag
            out.append(["s", rng.choice(BLOCK + INLINE + ["td", "tr", "table", "li", "ul", "title"]), _attrs(rng)])
        elif r < 0.64:  # stray end tag of another name (also of other removable names)
            t = rng.choice(BLOCK + INLINE + ["td", "table", "li", "br", "img"] + [x for x in SPEC_REMOVABLE if x != tag])
            if t != tag:
                out.append(["e", t])
        elif r < 0.72:  # balanced visible-looking element
            t = rng.choice(["p", "div", "span", "b", "a", "li", "td"])
            out += [["s", t, _attrs(rng)], ["d", tk.h()], ["e", t]]
        elif r < 0.82 and depth < 2:  # nested removable element
            t = rng.choice(SPEC_REMOVABLE)
            if t in RAWTEXT:
                out += [["s", t, _attrs(rng)]] + _raw_junk(rng, tk, t) + [["e", t]]
            elif t in STD_VOID:
                out.append(["s", t, _attrs(rng)])
            elif t == tag:  # same-name nesting: balanced
                out += [["s", t, _attrs(rng)]] + _junk(rng, tk, tag, depth + 1) + [["e", t]]
            else:  # other removable: properly closed, left open, or closed twice
                inner = _junk(rng, tk, tag, depth + 1)
                inner = [e for e in inner]  # inner is balanced for `tag`; may contain anything of name t
                k = rng.random()
                out += [["s", t, _attrs(rng)]] + inner + ([["e", t]] if k < 0.6 else [] if k < 0.8 else [["e", t], ["e", t]])
        elif r < 0.90:
            out.append(["c", " " + rng.choice(["note", "</" + tag + ">", "<" + tag + ">", "<p>x</p>", "[if IE]"]) + " " + tk.h() + " "])
        elif r < 0.95:
            out.append(["ud", "CDATA[ " + tk.h() + " a<b "])
        else:
            out.append(["pi", "php echo '" + tk.h() + "' ?"])
    return out


def _removed_item(rng, tk):
    tag = rng.choice(SPEC_REMOVABLE)
    r = rng.random()
    if tag in STD_VOID:
        return ["removedEmpty", tag, _attrs(rng, tk.h()), r < 0.4]
    if r < 0.12:
        return ["removedEmpty", tag, _attrs(rng, tk.h()), True]
    if tag in RAWTEXT:
        return ["removed", tag, _attrs(rng), _raw_junk(rng, tk, tag)]
    return ["removed", tag, _attrs(rng, tk.h()), _junk(rng, tk, tag)]


def _hidden_item(rng, tk):
    r = rng.random()
    if r < 0.72:
        return _removed_item(rng, tk)
    if r < 0.92:
        return ["comment", " " + rng.choice(["c", "<p>", "</p>", "<script>", "</noscript>", "[endif]"]) + " " + tk.h() + " "]
    if r < 0.96:
        return ["ud", "CDATA[ " + tk.h() + " "]
    return ["pi", "xml-x " + tk.h() + "?"]


def _inline(rng, tk, out, p_hidden, n=None, unclosed=True):
    for _ in range(n if n is not None else rng.choice((1, 1, 2, 3))):
        if rng.random() < p_hidden:
            out.append(_hidden_item(rng, tk))
        r = rng.random()
        if r < 0.6:
            out.append(_vtext(rng, tk))
        elif r < 0.8:
            t = rng.choice(INLINE)
            out.append(["open", t, _attrs(rng)])
            out.append(_vtext(rng, tk))
            if rng.random() < p_hidden:
                out.append(_hidden_item(rng, tk))
            if not unclosed or rng.random() < 0.9:
                out.append(["close", t])
        elif r < 0.9:
            t = rng.choice(VOIDS[:5])
            out.append(["open", t, _attrs(rng)] if rng.random() < 0.6 else ["selfclosed", t, _attrs(rng)])
        elif r < 0.95:
            out.append(["close", rng.choice(INLINE + ["div", "noscript", "object", "script", "embed"])])  # stray end tag
        else:
            out.append(["selfclosed", rng.choice(["span", "div", "custom-el", "a"]), _attrs(rng)])
    if rng.random() < p_hidden:
        out.append(_hidden_item(rng, tk))


def gen_doc(rng, p_hidden=0.35, blocks=None, full=None):
    """(items, tokens).  Visible tokens sit only where the extractors keep text."""
    tk = _Tok()
    out = []
    full = rng.random() < 0.4 if full is None else full
    if full:
        if rng.random() < 0.5:
            out.append(["decl", "DOCTYPE html"])
        out += [["open", "html", [["lang", "en"]]], ["open", "head", []], ["open", "title", []], ["text", "T " + tk.v()], ["close", "title"]]
        for _ in range(rng.choice((0, 1, 2))):
            out.append(_hidden_item(rng, tk))
        if rng.random() < 0.5:
            out.append(["open", "meta", [["name", "author"], ["content", "x"]]])
        out += [["close", "head"], ["open", "body", _attrs(rng)]]
    for _ in range(blocks if blocks is not None else rng.choice((1, 2, 3, 4, 6))):
        if rng.random() < p_hidden:
            out.append(_hidden_item(rng, tk))
        r = rng.random()
        if r < 0.45:
            t = rng.choice(BLOCK[:20]) if rng.random() < 0.8 else rng.choice(BLOCK)
            if t in ("textarea", "template", "select", "option", "body", "html", "frameset", "svg", "math"):
                t = "div"
            out.append(["open", t, _attrs(rng)])
            _inline(rng, tk, out, p_hidden)
            if rng.random() < 0.3:  # nested block
                t2 = rng.choice(BLOCK[:12])
                out.append(["open", t2, _attrs(rng)])
                _inline(rng, tk, out, p_hidden)
                out.append(["close", t2])
                _inline(rng, tk, out, p_hidden, 1)
            if rng.random() < 0.92:
                out.append(["close", t])
        elif r < 0.6:
            lt = rng.choice(("ul", "ol"))
            out.append(["open", lt, []])
            for _ in range(rng.randint(1, 3)):
                if rng.random() < p_hidden:
                    out.append(_hidden_item(rng, tk))
                out.append(["open", "li", []])
                _inline(rng, tk, out, p_hidden, rng.choice((1, 2)), unclosed=False)
                out.append(["close", "li"])
            out.append(["close", lt])
        elif r < 0.78:
            out.append(["open", "table", _attrs(rng)])
            for _ in range(rng.randint(1, 3)):
                if rng.random() < p_hidden:
                    out.append(_hidden_item(rng, tk))
                out.append(["open", "tr", []])
                for _ in range(rng.randint(1, 3)):
                    if rng.random() < p_hidden:
                        out.append(_hidden_item(rng, tk))
                    c = rng.choice(("td", "td", "th"))
                    out.append(["open", c, _attrs(rng)])
                    _inline(rng, tk, out, p_hidden, rng.choice((1, 1, 2)), unclosed=False)
                    out.append(["close", c])
                out.append(["close", "tr"])
            out.append(["close", "table"])
        elif r < 0.9:
            _inline(rng, tk, out, p_hidden)
        else:
            out.append(["open", rng.choice(VOIDS[:2]), []])
            out.append(_vtext(rng, tk))
    if rng.random() < p_hidden:
        out.append(_hidden_item(rng, tk))
    # a last closed block so that HTMLParser has flushed every text before feed() returns
    out += [["open", "p", []], ["text", "end " + tk.v()], ["close", "p"]]
    if full:
        out += [["close", "body"], ["close", "html"]]
    return out, tk


# ----------------------------------------------------------------------------- rendering
def _rattrs(attrs):
    s = ""
    for k, v in attrs:
        s += " " + k if v is None else f' {k}="{_html.escape(v, quote=True)}"'
    return s


def _rev(e, raw=False):
    k = e[0]
    if k == "s":
        return f"<{e[1]}{_rattrs(e[2])}>"
    if k == "e":
        return f"</{e[1]}>"
    if k == "se":
        return f"<{e[1]}{_rattrs(e[2])}/>"
    if k == "d":
        return e[1] if raw else _html.escape(e[1], quote=False)
    if k == "c":
        return f"<!--{e[1]}-->"
    if k == "decl":
        return f"<!{e[1]}>"
    if k == "pi":
        return f"<?{e[1]}>"
    if k == "ud":
        return f"<![{e[1]}]]>"
    raise ValueError(k)


def _rjunk(junk):
    out, raw = [], None
    for e in junk:
        out.append(_rev(e, raw=raw is not None))
        if e[0] == "s" and e[1] in RAWTEXT:
            raw = e[1]
        elif e[0] == "e" and e[1] == raw:
            raw = None
    return "".join(out)


def render_item(it):
    k = it[0]
    if k == "text":
        return _html.escape(it[1], quote=False)
    if k == "open":
        return f"<{it[1]}{_rattrs(it[2])}>"
    if k == "close":
        return f"</{it[1]}>"
    if k == "selfclosed":
        return f"<{it[1]}{_rattrs(it[2])}/>"
    if k == "removed":
        body = "".join(_rev(e, raw=True) for e in it[3]) if it[1] in RAWTEXT else _rjunk(it[3])
        return f"<{it[1]}{_rattrs(it[2])}>{body}</{it[1]}>"
    if k == "removedEmpty":
        return f"<{it[1]}{_rattrs(it[2])}{'/' if it[3] else ''}>"
    return _rev({"comment": ["c", it[1]], "decl": ["decl", it[1]], "pi": ["pi", it[1]], "ud": ["ud", it[1]]}[k])


VISIBLE_KINDS = ("text", "open", "close", "selfclosed")


def render(items, stripped=False):
    return "".join(render_item(i) for i in items if not stripped or i[0] in VISIBLE_KINDS)


def _merge(evs):
    """adjacent data calls merged, empty ones dropped (HTMLParser may split character data anywhere)"""
    out = []
    for e in evs:
        if e[0] == "d":
            if e[1] == "":
                continue
            if out and out[-1][0] == "d":
                out[-1] = ["d", out[-1][1] + e[1]]
                continue
        out.append(list(e))
    return out


# ----------------------------------------------------------------------------- containers
def wrap_mhtml(html_text):
    b = base64.encodebytes(html_text.encode("utf-8")).decode("ascii")
    return ("From: <Saved by c17>\r\nSubject: t\r\nMIME-Version: 1.0\r\n"
            'Content-Type: multipart/related; type="text/html"; boundary="----=_B17"\r\n\r\n'
            "------=_B17\r\nContent-Type: text/html; charset=\"utf-8\"\r\nContent-Transfer-Encoding: base64\r\n"
            "Content-Location: http://x/\r\n\r\n" + b + "\r\n------=_B17\r\nContent-Type: image/png\r\n"
            "Content-Transfer-Encoding: base64\r\nContent-Location: http://x/a.png\r\n\r\niVBORw0KGgo=\r\n------=_B17--\r\n").encode("ascii")


def wrap_epub(html_text):
    bio = io.BytesIO()
    with zipfile.ZipFile(bio, "w") as z:
        z.writestr("mimetype", "application/epub+zip")
        z.writestr("META-INF/container.xml",
                   '<?xml version="1.0"?><container version="1.0" xmlns="urn:oasis:names:tc:opendocument:xmlns:container">'
                   '<rootfiles><rootfile full-path="OEBPS/content.opf" media-type="application/oebps-package+xml"/></rootfiles></container>')
        z.writestr("OEBPS/content.opf",
                   '<?xml version="1.0"?><package xmlns="http://www.idpf.org/2007/opf" version="3.0" unique-identifier="id">'
                   '<metadata xmlns:dc="http://purl.org/dc/elements/1.1/"><dc:title>B</dc:title><dc:identifier id="id">x</dc:identifier></metadata>'
                   '<manifest><item id="c1" href="c1.xhtml" media-type="application/xhtml+xml"/></manifest>'
                   '<spine><itemref idref="c1"/></spine></package>')
        z.writestr("OEBPS/c1.xhtml", html_text.encode("utf-8"))
    return bio.getvalue()


class _FakeMsg:
    def __init__(self, body):
        self.body = body
        self.message_id, self.sent_date, self.sender = "<1@x>", "Mon, 01 Jan 2024 10:00:00 +0000", "A <a@x>"
        self.to, self.cc, self.bcc, self.reply_to, self.subject = "B <b@x>", "", "", "", "s"


def _extract(path, html_text):
    """text the library extracts for `html_text` sent through one of the four HTML-family paths"""
    if path == "html":
        from sharepoint2text.parsing.extractors.html_extractor import read_html
        d = next(read_html(io.BytesIO(html_text.encode("utf-8")), path="t.html"))
        return d.content + "\n" + (d.metadata.title or "")
    if path == "mhtml":
        from sharepoint2text.parsing.extractors.mhtml_extractor import read_mhtml
        d = next(read_mhtml(io.BytesIO(wrap_mhtml(html_text)), path="t.mhtml"))
        return d.content + "\n" + (d.metadata.title or "")
    if path == "epub":
        from sharepoint2text.parsing.extractors.epub_extractor import read_epub
        d = next(read_epub(io.BytesIO(wrap_epub(html_text)), path="t.epub"))
        out = []
        for ch in d.chapters:
            out.append(ch.text)
            out.append(ch.title or "")
            for t in ch.tables:
                for row in t:
                    out.append(" | ".join(row))
        return "\n".join(out)
    if path == "msg":
        from sharepoint2text.parsing.extractors.mail import msg_email_extractor as m
        saved = (m.MsOxMessage, m._extract_msg_attachments)
        m.MsOxMessage = lambda _bio: _FakeMsg(html_text)
        m._extract_msg_attachments = lambda _b: []
        try:
            d = next(m.read_msg_format_mail(io.BytesIO(b"stub"), path="t.msg"))
        finally:
            m.MsOxMessage, m._extract_msg_attachments = saved
        if d.body_html != html_text:
            return "BODY-NOT-TREATED-AS-HTML"
        return d.body_plain
    raise ValueError(path)


PATHS = ("html", "mhtml", "epub", "msg")


def _squash(s):
    return "".join(s.split())


_RE_TITLE = re.compile(r"<title>(.*?)</title>", re.S)


def oracle(path, html_text, visible, hidden, stripped=None):
    """The property statement on the real code: [(kind, what)] of failures (empty = holds)."""
    fails = []
    try:
        out = _extract(path, html_text)
    except Exception as e:
        return [("raised", f"{path}: extraction raised {type(e).__name__}: {e}")]
    if out == "BODY-NOT-TREATED-AS-HTML":
        return []
    in_title = " ".join(_RE_TITLE.findall(html_text))
    title_toks = {t for t in visible if t in in_title}
    if path == "msg":  # the MSG body conversion does not report the <title>
        visible = [t for t in visible if t not in title_toks]
    lost = [t for t in visible if t not in out]
    leaked = [t for t in hidden if t in out]
    if lost:
        fails.append(("visible-lost", f"{path}: visible text {lost[:4]} ({len(lost)} of {len(visible)}) not extracted"))
    if leaked:
        fails.append(("hidden-leaked", f"{path}: removed content {leaked[:4]} appears in the extracted text"))
    if not lost and path != "epub":  # EPUB reports running text and table cells separately
        pos = [out.find(t) for t in visible if t not in title_toks]
        if any(a > b for a, b in zip(pos, pos[1:])):
            fails.append(("visible-reordered", f"{path}: visible text extracted out of document order"))
    if stripped is not None and not lost and not leaked:
        try:
            ref = _extract(path, stripped)
        except Exception as e:
            return fails + [("raised", f"{path}: extraction of the stripped document raised {type(e).__name__}")]
        same = (_squash(out) == _squash(ref)) if path == "epub" else (out == ref)
        if not same:
            fails.append(("not-transparent", f"{path}: extracted text differs from that of the same document with the "
                          f"removed elements deleted"))
    return fails


def doc_case(items, tk):
    return {"html": render(items), "stripped": render(items, stripped=True), "visible": list(tk.vis), "hidden": list(tk.hid)}


def _violations_for(case, paths=PATHS, tag=""):
    vs = []
    for path in paths:
        for kind, what in oracle(path, case["html"], case["visible"], case["hidden"], case.get("stripped")):
            vs.append(Violation(f"{path}.{kind}", what + tag + f" :: input {case['html'][:160]!r}", dict(case, path=path)))
    return vs


def _shrink(items, tk, path, kind, budget=220):
    """greedy deletion of items while the same failure persists (visible/hidden tokens recomputed)"""
    def fails(its):
        vis = [t for t in tk.vis if any(i[0] == "text" and t in i[1] for i in its)]
        hid = [t for t in tk.hid if t in json.dumps(its)]
        c = {"html": render(its), "stripped": render(its, stripped=True), "visible": vis, "hidden": hid}
        if not any(k == kind for k, _ in oracle(path, c["html"], vis, hid, c["stripped"])):
            return None
        if its is not items and kind in ("visible-lost", "visible-reordered"):
            # a deletion must not create a loss of its own: without the removed elements everything is extracted
            if any(k in ("visible-lost", "visible-reordered", "raised") for k, _ in oracle(path, c["stripped"], vis, [], None)):
                return None
        return c
    best = fails(items)
    if best is None:
        return None
    cur = list(items)
    n = max(1, len(cur) // 2)
    while n >= 1 and budget > 0:
        i, changed = 0, False
        while i < len(cur) and budget > 0:
            cand = cur[:i] + cur[i + n:]
            budget -= 1
            c = fails(cand) if cand else None
            if c is not None:
                cur, best, changed = cand, c, True
            else:
                i += n
        if not changed or n == 1:
            n //= 2
    # second phase: thin out the content of the removed elements (same-name tags stay, so the content stays balanced)
    for idx in range(len(cur)):
        if cur[idx][0] != "removed" or cur[idx][1] in RAWTEXT:
            continue
        j = len(cur[idx][3]) - 1
        while j >= 0 and budget > 0:
            e = cur[idx][3][j]
            if not (e[0] in ("s", "e", "se") and e[1] == cur[idx][1]) and not (e[0] in ("s", "e") and e[1] in RAWTEXT):
                it = [cur[idx][0], cur[idx][1], cur[idx][2], cur[idx][3][:j] + cur[idx][3][j + 1:]]
                cand = cur[:idx] + [it] + cur[idx + 1:]
                budget -= 1
                c = fails(cand)
                if c is not None:
                    cur, best = cand, c
            j -= 1
    return best


def _report(path, kind, what, items, tk, case):
    """Violation for a failing generated document, shrunk where possible (message recomputed on the shrunk input)"""
    sh = _shrink(items, tk, path, kind) if path != "msg" else None
    if sh is not None:
        w = [w for k, w in oracle(path, sh["html"], sh["visible"], sh["hidden"], sh["stripped"]) if k == kind]
        if w:
            case, what = sh, w[0]
    rep = dict(case, path=path)
    return Violation(f"{path}.{kind}", what + f" :: input {rep['html'][:200]!r}", rep)


# the four committed witnesses (Props/C17.lean: wVoidChild, wObjectParam, wBareEmbed, wStrayEnd)
WITNESSES = {
    "void-child": ("<p>vis0000q</p><noscript><img src=x></noscript><p>vis0001q</p>", ["vis0000q", "vis0001q"], []),
    "object-param": ("<p>vis0000q</p><object><param name=a><embed src=b></object><p>vis0001q</p>", ["vis0000q", "vis0001q"], []),
    "bare-embed": ("<p>vis0000q</p><embed src=x><p>vis0001q</p>", ["vis0000q", "vis0001q"], []),
    "stray-end": ("<p>vis0000q</p><noscript></div>hid0000q</noscript><p>vis0001q</p>", ["vis0000q", "vis0001q"], ["hid0000q"]),
}


def known_witnesses(ctx):
    vs = []
    for name, (h, vis, hid) in WITNESSES.items():
        body = "<html><body>" + h + "</body></html>"
        stripped = "<html><body><p>vis0000q</p><p>vis0001q</p></body></html>"
        vs += _violations_for({"html": body, "stripped": stripped, "visible": vis, "hidden": hid}, tag=f" [witness {name}]")
    return vs


# ----------------------------------------------------------------------------- malformed + direct streams
SOUP = (["<", ">", "</", "/>", "<!--", "-->", "--!>", "<![CDATA[", "]]>", "<?", "?>", "<!DOCTYPE html>", "&amp;", "&#65;", "&", "&lt",
         "=", "\"", "'", " ", "\n", "/", "x", "text", "café", "中", "<p>", "</p>", "<div>", "</div>", "<br>", "<br/>", "<img src=x>",
         "<td>", "</td>", "<tr>", "<table>", "</table>", "<title>", "</title>", "<li>", "<P CLASS=A>", "</P>", "<a href='u'>", "</a>"]
        + [f"<{t}>" for t in SPEC_REMOVABLE] + [f"</{t}>" for t in SPEC_REMOVABLE] + [f"<{t}/>" for t in SPEC_REMOVABLE]
        + [f"<{t.upper()} x=1>" for t in SPEC_REMOVABLE] + ["<param name=a>", "<embed src=b>", "<input>", "<source>", "</ noscript>", "<noscript "])


def gen_soup(rng):
    return "".join(rng.choice(SOUP) for _ in range(rng.randint(1, 40)))


TAGPOOL = list(SPEC_REMOVABLE) * 3 + ["img", "br", "param", "input", "source", "p", "div", "span", "td", "tr", "table", "title", "li", "h1", "a", "x-y"]


def gen_calls(rng):
    """raw handler-call sequence; biased towards entering / nesting / leaving removed elements"""
    evs = []
    focus = rng.choice(SPEC_REMOVABLE)
    for _ in range(rng.randint(1, 30)):
        t = focus if rng.random() < 0.35 else rng.choice(TAGPOOL)
        if rng.random() < 0.04:
            t = t.upper()
        r = rng.random()
        if r < 0.34:
            evs.append(["s", t, _attrs(rng)])
        elif r < 0.62:
            evs.append(["e", t])
        elif r < 0.72:
            evs.append(["se", t, _attrs(rng)])
        elif r < 0.92:
            evs.append(["d", rng.choice(WORDS + ["d1", "d2", " "])])
        else:
            evs.append([rng.choice(("c", "decl", "pi", "ud")), rng.choice(WORDS)])
    return evs


def _features(evs, trace):
    f = set()
    prev = 0
    for e, (d, _t) in zip(evs, trace):
        if prev == 0 and d > 0:
            f.add("enter")
        if prev > 0 and d == 0:
            f.add("leave")
        if d >= 2:
            f.add("same-name-nesting")
        if prev > 0:
            if e[0] == "s" and e[1] in STD_VOID:
                f.add("void-child-in-skip")
            elif e[0] == "s" and e[1] in SPEC_REMOVABLE and d == prev:
                f.add("other-removable-in-skip")
            elif e[0] == "e" and d == prev:
                f.add("stray-end-in-skip")
            elif e[0] == "se":
                f.add("selfclosed-in-skip")
            elif e[0] in ("c", "ud", "pi", "decl"):
                f.add("comment-in-skip")
        else:
            if e[0] == "s" and e[1] in SPEC_REMOVABLE and d == 0:
                f.add("removable-void-dropped")
            if e[0] == "se" and e[1] in SPEC_REMOVABLE:
                f.add("removable-selfclosed-dropped")
            if e[0] == "e" and e[1] in SPEC_REMOVABLE:
                f.add("stray-removable-end-outside")
        prev = d
    if prev > 0:
        f.add("ends-inside-removed")
    return f


# ----------------------------------------------------------------------------- correspondence
def correspondence(ctx):
    rng = ctx.rng
    broken, violations = [], []
    reqs, meta = [], []  # meta: (stream, machine, events, real_snapshot, case-for-report)

    def add(stream, machine, evs, snap, case):
        if not _jsonable(evs):
            ctx.count(f"{stream}/skipped-surrogate")
            return
        reqs.append({"op": "c17.run", "m": machine, "ev": evs})
        meta.append((stream, machine, evs, snap, case))

    # (A) structured documents, tokenised by the real HTMLParser; + Spec tie
    docs = []
    for i in range(ctx.n(250, 6000)):
        items, tk = gen_doc(rng, p_hidden=rng.choice((0.15, 0.35, 0.6)))
        docs.append((items, tk))
        text = render(items)
        for machine in ("html", "epub"):
            r = _tokenise(machine, text)
            if r is None:
                ctx.count("structured/feed-raised")
                continue
            add("structured", machine, r[0], r[1], {"html": text, "doc": items, "visible": tk.vis, "hidden": tk.hid,
                                                    "stripped": render(items, stripped=True)})
    spec_reqs = [{"op": "c17.spec", "doc": items} for items, _ in docs]
    # (B) character soup
    for i in range(ctx.n(300, 8000)):
        text = gen_soup(rng)
        for machine in ("html", "epub"):
            r = _tokenise(machine, text)
            if r is None:
                ctx.count("soup/feed-raised")
                continue
            add("soup", machine, r[0], r[1], {"html": text})
    # (C) raw handler calls
    for i in range(ctx.n(400, 10000)):
        evs = gen_calls(rng)
        for machine in ("html", "epub"):
            log, snap = _drive_direct(machine, evs)
            add("calls", machine, log, snap, {"events": evs})

    outs = ctx.drive(reqs)
    mism = 0
    for (stream, machine, evs, snap, case), o in zip(meta, outs):
        feats = _features(evs, snap["trace"])
        nontrivial = bool(feats) or any(e[0] == "c" for e in evs)
        ctx.case((machine, json.dumps(evs, ensure_ascii=True)), nontrivial=nontrivial)
        ctx.count(f"{stream}/{machine}")
        for f in feats:
            ctx.count(f"feature/{f}")
        if "drv_error" in o:
            broken.append(Broken("correspondence", "driver", o["drv_error"], case=case))
            continue
        if o != snap:
            mism += 1
            if mism <= 12:
                diff = [k for k in snap if snap[k] != o.get(k)]
                detail = f"machine={machine} stream={stream} fields differing: {diff}"
                if "trace" in diff:
                    i = next((i for i, (a, b) in enumerate(zip(snap["trace"], o["trace"])) if a != b), None)
                    if i is not None:
                        detail += f"; first gate difference after call #{i} {evs[i]!r}: impl={snap['trace'][i]} model={o['trace'][i]}"
                broken.append(Broken("correspondence", "c17.run", detail, case=dict(case, machine=machine)))
    ctx.coverage["mismatches"] = mism
    if meta:
        k = len(meta) // 3
        ctx.sample({"stream": meta[k][0], "machine": meta[k][1], "events": meta[k][2][:12], "impl_trace": meta[k][3]["trace"][:12],
                    "model_trace": outs[k].get("trace", [])[:12]})

    # Spec tie: the handler calls HTMLParser really makes for render(doc) are the Spec's `events doc`
    souts = ctx.drive(spec_reqs)
    bad_spec = 0
    for (items, tk), o in zip(docs, souts):
        ctx.case(("spec", json.dumps(items, ensure_ascii=True)))
        ctx.count("spec/doc")
        if "drv_error" in o:
            broken.append(Broken("correspondence", "driver", o["drv_error"], case={"doc": items}))
            continue
        r = _tokenise("html", render(items))
        problems = []
        if not o["ok"]:
            problems.append("generated document is not SpecDocOk")
        if o["ok_html"] != o["ok"] or o["ok_epub"] != o["ok"]:
            problems.append("DocOk under the library tables differs from SpecDocOk")
        if r is not None and _merge(r[0]) != _merge(o["events"]):
            problems.append("HTMLParser calls for render(doc) differ from Spec events")
        if o["visible"] != [i[1] for i in items if i[0] == "text"]:
            problems.append("visibleData differs")
        if any(t not in " ".join(o["hidden"]) for t in tk.hid if not _only_in_attr(items, t)):
            problems.append("a hidden token is not in hiddenData")
        if problems:
            bad_spec += 1
            if bad_spec <= 5:
                broken.append(Broken("correspondence", "c17.spec", "; ".join(problems),
                                     case={"doc": items, "html": render(items), "visible": tk.vis, "hidden": tk.hid,
                                           "stripped": render(items, stripped=True)}))
    ctx.coverage["spec_mismatches"] = bad_spec

    # end-to-end: the property statement itself on the real code, four paths
    n_e2e = ctx.n(120, 2500)
    for i in range(n_e2e):
        items, tk = docs[i] if i < len(docs) else gen_doc(rng)
        case = doc_case(items, tk)
        for path in PATHS:
            if path == "msg" and not case["html"].startswith(("<!DOCTYPE", "<html")):
                c = dict(case, html="<html><body>" + case["html"] + "</body></html>",
                         stripped="<html><body>" + case["stripped"] + "</body></html>")
            else:
                c = case
            fs = oracle(path, c["html"], c["visible"], c["hidden"], c["stripped"])
            ctx.case(("e2e", path, c["html"]))
            ctx.count(f"e2e/{path}")
            for kind, what in fs:
                violations.append(_report(path, kind, what, items, tk, c))
    return {"broken": broken, "violations": violations}


def _only_in_attr(items, tok):
    """hidden tokens placed in attribute values of removed tags are not character data"""
    def in_data(evs):
        return any(e[0] in ("d", "c", "ud") and tok in e[1] for e in evs)
    for it in items:
        if it[0] == "removed" and in_data(it[3]):
            return False
        if it[0] in ("comment",) and tok in it[1]:
            return False
    return True


# ----------------------------------------------------------------------------- search / replay
def search(ctx, broken):
    """Property oracle on the real code: committed witnesses, the documents of broken cases, fresh token documents."""
    found = {}

    def note(vs):
        for v in vs:
            found.setdefault(v.key, v)

    note(known_witnesses(ctx))
    for b in broken:
        c = b.case or {}
        if "html" in c and "visible" in c:
            note(_violations_for(c))
    rng = ctx.rng
    for i in range(ctx.n(400, 6000)):
        items, tk = gen_doc(rng, p_hidden=rng.choice((0.3, 0.6)), blocks=rng.choice((1, 2, 3)), full=rng.random() < 0.3)
        case = doc_case(items, tk)
        for path in ("html", "epub") if i % 4 else PATHS:
            c = case
            if path == "msg":
                c = dict(case, html="<html><body>" + case["html"] + "</body></html>", stripped="<html><body>" + case["stripped"] + "</body></html>")
            for kind, what in oracle(path, c["html"], c["visible"], c["hidden"], c["stripped"]):
                key = f"{path}.{kind}"
                if key in found and len(found[key].replay.get("html", "")) <= 200:
                    continue
                v = _report(path, kind, what, items, tk, c)
                if key not in found or len(v.replay["html"]) < len(found[key].replay.get("html", "")):
                    found[key] = v
        if len(found) >= 6 and i > 150:
            break
    return list(found.values())


def replay(ctx, payload):
    rep = payload.get("replay", {})
    if "html" not in rep:
        return False, "replay names a broken obligation, not an input: " + payload.get("what", "")
    paths = [rep["path"]] if rep.get("path") in PATHS else list(PATHS)
    fs = []
    for p in paths:
        fs += oracle(p, rep["html"], rep.get("visible", []), rep.get("hidden", []), rep.get("stripped"))
    return (not fs), "; ".join(w for _, w in fs) or f"property holds on the recorded input ({', '.join(paths)})"
