"""C17 — removed markup is removed completely and takes nothing else with it.

Correspondence of S2T.Model.HtmlSkip with html_extractor._HtmlTreeBuilder and
epub_extractor._XhtmlTextExtractor (per-call skip state + complete final object state) on
(A) structured documents rendered to HTML and tokenised by the real HTMLParser, (B) malformed
character soup tokenised by the real HTMLParser, (C) synthetic handler-call sequences driven
straight into the real handlers; tie of the Spec's `events` to what HTMLParser really delivers;
and the property oracle itself (token documents) end to end through read_html, read_mhtml,
read_epub, msg_email_extractor (stubbed MSG container).

HISTORIES (Props/C17_Life.lean): the same comparison for every parser object the real readers create while they read
2-4 documents in a row (chapters of one EPUB; consecutive read_html / read_mhtml / MSG-body calls), some of which end
inside a removed element that is never closed or in the middle of a markup construct: one new object per document, state
after every real feed = model run from `init`, = right-hand side of `C17_book`; and the property oracle on histories
(confirmed and shrunk in a new interpreter, because state kept at module / class level outlives the document).

INPUT FORM (one driver: Props/C17_Life.lean gen_handlers_driven_by_feed_only, gen_state_written_by_modelled_handlers_only):
every document of the grammar is ALSO rendered as well-formed XHTML (one namespaced root, XML declaration / DOCTYPE, all
elements closed, voids and empty removable elements self-closed, attributes valued and unique, raw text escaped; accepted
by ElementTree - checked per document), so that a reader which picks its parsing route by the form of the input (XML
tree walk, pre-pass, other tokeniser) is judged by the property oracle on that route through all four paths, singly and
as histories; the spy counts handler calls that reach a parser object from outside HTMLParser.feed."""
from __future__ import annotations

import base64
import html as _html
import io
import json
import re
import zipfile

from run import Broken, Violation

GEN = ["HtmlSkip", "HtmlLife", "PyHtmlTree", "PyEpubXhtml"]
RULE = ("documents = flat sequences of visible items (text, open/close/self-closed tags of block, inline, table, void "
        "and unknown elements, stray end tags, unclosed tags) interleaved at every position with removed elements "
        "(script, style, noscript, iframe, object, embed, applet) whose content is drawn from text, void tags, "
        "self-closing forms, nested removable elements (same and other names), unclosed tags, stray end tags, "
        "comments, CDATA, PIs; plus comment/decl/PI items; plus character soup; plus raw handler-call sequences. "
        "distinct = distinct (machine, handler-call sequence); non-trivial = the sequence enters a removed element "
        "or contains a removable tag / comment.  HISTORIES: 2-4 such documents, each possibly ending inside a removed "
        "element that is never closed (non-raw and raw-text names, nested same-name starts), in the middle of a tag / "
        "comment / CDATA section (truncated), read as the chapters of one EPUB and as consecutive read_html / read_mhtml / "
        "MSG-body calls of one process; every parser object the real readers create is observed (constructions, feeds, "
        "state after each feed).  XHTML RENDITIONS: the same documents made well-formed XML (namespaced root, optional XML "
        "declaration / DOCTYPE, unclosed tags closed at their parent's end, stray end tags dropped, voids and empty removable "
        "elements self-closed, attributes valued and de-duplicated, raw-text content escaped, comments without '--'), each "
        "checked with ElementTree; judged end to end on the four paths and, as 2-3 document histories, by the lifecycle / "
        "per-feed comparison (one object, one feed, no handler call from outside feed)")
ASSUMPTIONS = [
    "html.parser.HTMLParser (CPython 3.12) turns text into handler calls; its tokenisation (incl. CDATA mode for "
    "script/style, lower-casing of tag names) is not modelled - the model starts at the handler calls",
    "the handlers' own tag.lower() is the identity on what HTMLParser delivers (the model receives the lower-cased tag)",
    "the Spec's rendering of a document to HTML text (harness render()) is tied to HTMLParser's calls by the "
    "c17.spec comparison of this run only for the generated documents",
    "_HtmlTextExtractor / get_text() (tree -> text, whitespace clean-up) are outside the theorems; the end-to-end "
    "token oracle of this run exercises them",
    "MSG: the OLE container is stubbed (MsOxMessage replaced); the body goes through the real _html_to_text",
    "histories: everything after the start tag of a removed element that is never closed counts as its content (as in "
    "browsers); an incomplete construct at the end of a document (unterminated tag / comment / CDATA) is delivered by "
    "HTMLParser.feed() as nothing at all (no close() is called by the readers)",
]
TRUSTED = ["model of the class-specific handler rests (Tree.down, Epub.down) in S2T/Model/HtmlSkip.lean - tied by the "
           "complete-state comparison of this run, not used as a hypothesis by the generic theorems"]

# --- the property statement's own lists (NOT read from the library) ---------------------------
SPEC_REMOVABLE = ("script", "style", "noscript", "iframe", "object", "embed", "applet")
STD_VOID = frozenset("area base br col embed hr img input link meta param source track wbr".split())
RAWTEXT = ("script", "style")  # HTMLParser CDATA_CONTENT_ELEMENTS

_HOOKS = {"handle_starttag": "s", "handle_endtag": "e", "handle_startendtag": "se", "handle_data": "d",
          "handle_comment": "c", "handle_decl": "decl", "handle_pi": "pi", "unknown_decl": "ud"}


# ----------------------------------------------------------------------------- real side
def _classes():
    from sharepoint2text.parsing.extractors.epub_extractor import _XhtmlTextExtractor
    from sharepoint2text.parsing.extractors.html_extractor import _HtmlTreeBuilder
    return {"html": _HtmlTreeBuilder, "epub": _XhtmlTextExtractor}


_LOGGING = {}


def _logging_class(machine):
    """subclass of the real builder that logs every top-level handler call and the skip state after it"""
    cls = _classes()[machine]
    if cls in _LOGGING:
        return _LOGGING[cls]

    class L(cls):
        def __init__(self):
            super().__init__()
            self._c17_log, self._c17_trace, self._c17_in = [], [], False

    def mk(name, kind):
        def m(self, *args):
            top = not self._c17_in
            if top:
                self._c17_in = True
                if kind in ("s", "se"):
                    self._c17_log.append([kind, args[0].lower(), [[k, v] for k, v in args[1]]])
                elif kind == "e":
                    self._c17_log.append([kind, args[0].lower()])
                else:
                    self._c17_log.append([kind, args[0]])
            try:
                return getattr(super(L, self), name)(*args)
            finally:
                if top:
                    self._c17_in = False
                    self._c17_trace.append([self.skip_depth, getattr(self, "_skip_tag", None)])
        return m

    for name, kind in _HOOKS.items():
        setattr(L, name, mk(name, kind))
    _LOGGING[cls] = L
    return L


def _snapshot(machine, p):
    if machine == "html":
        st = {"tree": p.root, "stack": [n["tag"] for n in p.stack], "last": p.last_closed}
    else:
        st = {"text_parts": p.text_parts, "in_block": p.in_block, "tables": p.tables,
              "current_table": p._current_table, "current_row": p._current_row, "current_cell": p._current_cell,
              "in_table": p._in_table, "in_cell": p._in_cell, "title": p._title, "in_title": p._in_title}
    st["trace"] = p._c17_trace
    return json.loads(json.dumps(st))


def _tokenise(machine, text):
    """real builder fed with text (as the library does: feed, no close) -> (events, snapshot) or None if it raised"""
    p = _logging_class(machine)()
    try:
        p.feed(text)
    except Exception:
        return None
    return p._c17_log, _snapshot(machine, p)


def _drive_direct(machine, evs):
    """real handlers called directly with a synthetic call sequence"""
    p = _logging_class(machine)()
    for e in evs:
        k = e[0]
        if k == "s":
            p.handle_starttag(e[1], [(a, b) for a, b in e[2]])
        elif k == "e":
            p.handle_endtag(e[1])
        elif k == "se":
            p.handle_startendtag(e[1], [(a, b) for a, b in e[2]])
        elif k == "d":
            p.handle_data(e[1])
        elif k == "c":
            p.handle_comment(e[1])
        elif k == "decl":
            p.handle_decl(e[1])
        elif k == "pi":
            p.handle_pi(e[1])
        elif k == "ud":
            p.unknown_decl(e[1])
    return p._c17_log, _snapshot(machine, p)


def _jsonable(evs):
    for e in evs:
        for x in e[1:]:
            for s in ([x] if isinstance(x, str) else [y for kv in x for y in kv if y is not None]):
                if any(0xD800 <= ord(c) <= 0xDFFF for c in s):
                    return False
    return True


# ----------------------------------------------------------------------------- documents (Spec items)
WORDS = ["lorem", "ipsum", "a<b", "x&y", "q>r", "café", "中文", "zero​width", "nb sp", "\U0001F600",
         "\"quoted\"", "it's", "1 < 2 && 3 > 2", "tab\there", "line\nbreak", "  spaced  ", "&amp;", "&lt;p&gt;", "]]>", "-->"]
BLOCK = ["p", "div", "section", "article", "blockquote", "pre", "h1", "h2", "h3", "h6", "header", "footer", "main",
         "aside", "nav", "address", "figure", "figcaption", "form", "fieldset", "dl", "dt", "dd", "center", "details",
         "summary", "template", "textarea", "label", "button", "select", "option", "svg", "math", "video", "audio",
         "canvas", "map", "frameset", "noframes", "noembed", "xmp", "plaintext-x", "custom-el", "body", "html"]
INLINE = ["span", "b", "i", "em", "strong", "a", "u", "code", "small", "sub", "sup", "font", "mark", "q", "cite", "abbr"]
VOIDS = ["br", "hr", "img", "input", "wbr", "meta", "link", "source", "param", "area", "col", "base", "track"]
ATTR_NAMES = ["class", "id", "href", "src", "style", "data-x", "title", "hidden", "type", "name", "value", "lang"]


def _attrs(rng, hidden_tok=None):
    out = []
    for _ in range(rng.choice((0, 0, 0, 1, 1, 2, 3))):
        n = rng.choice(ATTR_NAMES)
        v = rng.choice((None, "", "v", "a b", "x\"y", "a<b>c", "&", "café", "javascript:alert(1)", "/p/a.png"))
        out.append([n, v])
    if hidden_tok and rng.random() < 0.3:
        out.append(["data-h", hidden_tok])
    return out


class _Tok:
    """unique visible / hidden marker words"""

    def __init__(self):
        self.vis, self.hid = [], []

    def v(self):
        t = f"vis{len(self.vis):04d}q"
        self.vis.append(t)
        return t

    def h(self):
        t = f"hid{len(self.hid):04d}q"
        self.hid.append(t)
        return t


def _filler(rng):
    return " ".join(rng.choice(WORDS) for _ in range(rng.choice((0, 0, 1, 2))))


def _vtext(rng, tk):
    return ["text", (_filler(rng) + " " + tk.v() + " " + _filler(rng)).strip(" ") if rng.random() < 0.8 else tk.v()]


def _raw_junk(rng, tk, tag):
    """content of a raw-text element (script/style): HTMLParser delivers it as data only"""
    if rng.random() < 0.15:
        return []
    bits = []
    for _ in range(rng.randint(1, 4)):
        bits.append(rng.choice([
            tk.h(), "var a = 1;", "if (a<b && c>d) {}", "<p>" + tk.h() + "</p>", "<!-- " + tk.h() + " -->", "</p>", "</div >",
            "<img src=x>", "<noscript>", "</noscript>", "body{color:red}", "&amp;", "<![CDATA[", "]]>", "\n",
            "document.write('<b>" + tk.h() + "</b>')"]))
    s = " ".join(bits)
    if tag in s.lower().replace(" ", ""):  # never close (or seem to re-open) the element itself
        s = tk.h()
    return [["d", s]]


def _junk(rng, tk, tag, depth=0):
    """content of a removed element `tag` (not raw text): arbitrary events, same-name tags balanced"""
    out = []
    for _ in range(rng.choice((0, 1, 1, 2, 3, 4, 6)) if depth == 0 else rng.choice((0, 1, 2))):
        r = rng.random()
        if r < 0.22:
            out.append(["d", (_filler(rng) + " " + tk.h()).strip()])
        elif r < 0.36:  # void child, never closed
            out.append(["s", rng.choice(["img", "br", "input", "param", "source", "embed", "hr", "meta"]), _attrs(rng, tk.h())])
        elif r < 0.44:  # self-closing forms (void, non-void, removable, same name)
            out.append(["se", rng.choice(["br", "img", "param", "div", "object", "embed", "iframe", tag, "span"]), _attrs(rng)])
        elif r < 0.54:  # unclosed start tag
            out.append(["s", rng.choice(BLOCK + INLINE + ["td", "tr", "table", "li", "ul", "title"]), _attrs(rng)])
        elif r < 0.64:  # stray end tag of another name (also of other removable names)
            t = rng.choice(BLOCK + INLINE + ["td", "table", "li", "br", "img"] + [x for x in SPEC_REMOVABLE if x != tag])
            if t != tag:
                out.append(["e", t])
        elif r < 0.72:  # balanced visible-looking element
            t = rng.choice(["p", "div", "span", "b", "a", "li", "td"])
            out += [["s", t, _attrs(rng)], ["d", tk.h()], ["e", t]]
        elif r < 0.82 and depth < 2:  # nested removable element
            t = rng.choice(SPEC_REMOVABLE)
            if t in RAWTEXT:
                out += [["s", t, _attrs(rng)]] + _raw_junk(rng, tk, t) + [["e", t]]
            elif t in STD_VOID:
                out.append(["s", t, _attrs(rng)])
            elif t == tag:  # same-name nesting: balanced
                out += [["s", t, _attrs(rng)]] + _junk(rng, tk, tag, depth + 1) + [["e", t]]
            else:  # other removable: properly closed, left open, or closed twice
                inner = _junk(rng, tk, tag, depth + 1)
                inner = [e for e in inner]  # inner is balanced for `tag`; may contain anything of name t
                k = rng.random()
                out += [["s", t, _attrs(rng)]] + inner + ([["e", t]] if k < 0.6 else [] if k < 0.8 else [["e", t], ["e", t]])
        elif r < 0.90:
            out.append(["c", " " + rng.choice(["note", "</" + tag + ">", "<" + tag + ">", "<p>x</p>", "[if IE]"]) + " " + tk.h() + " "])
        elif r < 0.95:
            out.append(["ud", "CDATA[ " + tk.h() + " a<b "])
        else:
            out.append(["pi", "php echo '" + tk.h() + "' ?"])
    return out


def _removed_item(rng, tk):
    tag = rng.choice(SPEC_REMOVABLE)
    r = rng.random()
    if tag in STD_VOID:
        return ["removedEmpty", tag, _attrs(rng, tk.h()), r < 0.4]
    if r < 0.12:
        return ["removedEmpty", tag, _attrs(rng, tk.h()), True]
    if tag in RAWTEXT:
        return ["removed", tag, _attrs(rng), _raw_junk(rng, tk, tag)]
    return ["removed", tag, _attrs(rng, tk.h()), _junk(rng, tk, tag)]


def _hidden_item(rng, tk):
    r = rng.random()
    if r < 0.72:
        return _removed_item(rng, tk)
    if r < 0.92:
        return ["comment", " " + rng.choice(["c", "<p>", "</p>", "<script>", "</noscript>", "[endif]"]) + " " + tk.h() + " "]
    if r < 0.96:
        return ["ud", "CDATA[ " + tk.h() + " "]
    return ["pi", "xml-x " + tk.h() + "?"]


def _inline(rng, tk, out, p_hidden, n=None, unclosed=True):
    for _ in range(n if n is not None else rng.choice((1, 1, 2, 3))):
        if rng.random() < p_hidden:
            out.append(_hidden_item(rng, tk))
        r = rng.random()
        if r < 0.6:
            out.append(_vtext(rng, tk))
        elif r < 0.8:
            t = rng.choice(INLINE)
            out.append(["open", t, _attrs(rng)])
            out.append(_vtext(rng, tk))
            if rng.random() < p_hidden:
                out.append(_hidden_item(rng, tk))
            if not unclosed or rng.random() < 0.9:
                out.append(["close", t])
        elif r < 0.9:
            t = rng.choice(VOIDS[:5])
            out.append(["open", t, _attrs(rng)] if rng.random() < 0.6 else ["selfclosed", t, _attrs(rng)])
        elif r < 0.95:
            out.append(["close", rng.choice(INLINE + ["div", "noscript", "object", "script", "embed"])])  # stray end tag
        else:
            out.append(["selfclosed", rng.choice(["span", "div", "custom-el", "a"]), _attrs(rng)])
    if rng.random() < p_hidden:
        out.append(_hidden_item(rng, tk))


def gen_doc(rng, p_hidden=0.35, blocks=None, full=None):
    """(items, tokens).  Visible tokens sit only where the extractors keep text."""
    tk = _Tok()
    out = []
    full = rng.random() < 0.4 if full is None else full
    if full:
        if rng.random() < 0.5:
            out.append(["decl", "DOCTYPE html"])
        out += [["open", "html", [["lang", "en"]]], ["open", "head", []], ["open", "title", []], ["text", "T " + tk.v()], ["close", "title"]]
        for _ in range(rng.choice((0, 1, 2))):
            out.append(_hidden_item(rng, tk))
        if rng.random() < 0.5:
            out.append(["open", "meta", [["name", "author"], ["content", "x"]]])
        out += [["close", "head"], ["open", "body", _attrs(rng)]]
    for _ in range(blocks if blocks is not None else rng.choice((1, 2, 3, 4, 6))):
        if rng.random() < p_hidden:
            out.append(_hidden_item(rng, tk))
        r = rng.random()
        if r < 0.45:
            t = rng.choice(BLOCK[:20]) if rng.random() < 0.8 else rng.choice(BLOCK)
            if t in ("textarea", "template", "select", "option", "body", "html", "frameset", "svg", "math"):
                t = "div"
            out.append(["open", t, _attrs(rng)])
            _inline(rng, tk, out, p_hidden)
            if rng.random() < 0.3:  # nested block
                t2 = rng.choice(BLOCK[:12])
                out.append(["open", t2, _attrs(rng)])
                _inline(rng, tk, out, p_hidden)
                out.append(["close", t2])
                _inline(rng, tk, out, p_hidden, 1)
            if rng.random() < 0.92:
                out.append(["close", t])
        elif r < 0.6:
            lt = rng.choice(("ul", "ol"))
            out.append(["open", lt, []])
            for _ in range(rng.randint(1, 3)):
                if rng.random() < p_hidden:
                    out.append(_hidden_item(rng, tk))
                out.append(["open", "li", []])
                _inline(rng, tk, out, p_hidden, rng.choice((1, 2)), unclosed=False)
                out.append(["close", "li"])
            out.append(["close", lt])
        elif r < 0.78:
            out.append(["open", "table", _attrs(rng)])
            for _ in range(rng.randint(1, 3)):
                if rng.random() < p_hidden:
                    out.append(_hidden_item(rng, tk))
                out.append(["open", "tr", []])
                for _ in range(rng.randint(1, 3)):
                    if rng.random() < p_hidden:
                        out.append(_hidden_item(rng, tk))
                    c = rng.choice(("td", "td", "th"))
                    out.append(["open", c, _attrs(rng)])
                    _inline(rng, tk, out, p_hidden, rng.choice((1, 1, 2)), unclosed=False)
                    out.append(["close", c])
                out.append(["close", "tr"])
            out.append(["close", "table"])
        elif r < 0.9:
            _inline(rng, tk, out, p_hidden)
        else:
            out.append(["open", rng.choice(VOIDS[:2]), []])
            out.append(_vtext(rng, tk))
    if rng.random() < p_hidden:
        out.append(_hidden_item(rng, tk))
    # a last closed block so that HTMLParser has flushed every text before feed() returns
    out += [["open", "p", []], ["text", "end " + tk.v()], ["close", "p"]]
    if full:
        out += [["close", "body"], ["close", "html"]]
    return out, tk


# ----------------------------------------------------------------------------- rendering
def _rattrs(attrs):
    s = ""
    for k, v in attrs:
        s += " " + k if v is None else f' {k}="{_html.escape(v, quote=True)}"'
    return s


def _rev(e, raw=False):
    k = e[0]
    if k == "s":
        return f"<{e[1]}{_rattrs(e[2])}>"
    if k == "e":
        return f"</{e[1]}>"
    if k == "se":
        return f"<{e[1]}{_rattrs(e[2])}/>"
    if k == "d":
        return e[1] if raw else _html.escape(e[1], quote=False)
    if k == "c":
        return f"<!--{e[1]}-->"
    if k == "decl":
        return f"<!{e[1]}>"
    if k == "pi":
        return f"<?{e[1]}>"
    if k == "ud":
        return f"<![{e[1]}]]>"
    raise ValueError(k)


def _rjunk(junk):
    out, raw = [], None
    for e in junk:
        out.append(_rev(e, raw=raw is not None))
        if e[0] == "s" and e[1] in RAWTEXT:
            raw = e[1]
        elif e[0] == "e" and e[1] == raw:
            raw = None
    return "".join(out)


def render_item(it):
    k = it[0]
    if k == "text":
        return _html.escape(it[1], quote=False)
    if k == "open":
        return f"<{it[1]}{_rattrs(it[2])}>"
    if k == "close":
        return f"</{it[1]}>"
    if k == "selfclosed":
        return f"<{it[1]}{_rattrs(it[2])}/>"
    if k == "removed":
        body = "".join(_rev(e, raw=True) for e in it[3]) if it[1] in RAWTEXT else _rjunk(it[3])
        return f"<{it[1]}{_rattrs(it[2])}>{body}</{it[1]}>"
    if k == "removedEmpty":
        return f"<{it[1]}{_rattrs(it[2])}{'/' if it[3] else ''}>"
    return _rev({"comment": ["c", it[1]], "decl": ["decl", it[1]], "pi": ["pi", it[1]], "ud": ["ud", it[1]]}[k])


VISIBLE_KINDS = ("text", "open", "close", "selfclosed")


def render(items, stripped=False):
    return "".join(render_item(i) for i in items if not stripped or i[0] in VISIBLE_KINDS)


def _merge(evs):
    """adjacent data calls merged, empty ones dropped (HTMLParser may split character data anywhere)"""
    out = []
    for e in evs:
        if e[0] == "d":
            if e[1] == "":
                continue
            if out and out[-1][0] == "d":
                out[-1] = ["d", out[-1][1] + e[1]]
                continue
        out.append(list(e))
    return out


# ----------------------------------------------------------------------------- well-formed XHTML renditions
# The SAME grammar, serialised the way an XML toolchain writes a content document: one root element with the XHTML
# namespace, optional XML declaration / DOCTYPE, every element closed (unclosed tags closed where their parent ends, stray
# end tags dropped), void elements and empty removable elements in the self-closing form, every attribute with a value and
# no duplicate names, raw-text content (script / style) escaped, comments without "--".  Such a document is accepted by an
# XML parser (checked with ElementTree for every generated document), so a reader that chooses its parsing route by the
# FORM of the input (well-formed XML -> tree walk / other tokeniser, tag soup -> html.parser) is exercised on both routes.
def _wf_attrs(attrs):
    seen, out = set(), []
    for k, v in attrs:
        if k not in seen:
            seen.add(k)
            out.append([k, "" if v is None else v])
    return out


def _wf_comment(s):
    s = s.replace("--", "- -")
    return s + " " if s.endswith("-") else s


def _wf_events(evs, raw_all=False):
    """content of a removed element made well-formed (hidden tokens stay inside it)"""
    out, stack, raw = [], [], None
    for e in evs:
        k = e[0]
        if k == "d":
            out.append(["d", _html.escape(e[1], quote=False)] if (raw_all or raw is not None) else list(e))
        elif k == "s":
            if e[1] in STD_VOID:
                out.append(["se", e[1], _wf_attrs(e[2])])
            else:
                stack.append(e[1])
                out.append(["s", e[1], _wf_attrs(e[2])])
                if e[1] in RAWTEXT:
                    raw = e[1]
        elif k == "e":
            if e[1] == raw:
                raw = None
            if e[1] in stack:
                while True:
                    t = stack.pop()
                    out.append(["e", t])
                    if t == e[1]:
                        break
        elif k == "se":
            out.append(["se", e[1], _wf_attrs(e[2])])
        elif k == "c":
            out.append(["c", _wf_comment(e[1])])
        else:
            out.append(list(e))
    while stack:
        out.append(["e", stack.pop()])
    return out


def _wf_items(items):
    out, stack = [], []
    for it in items:
        k = it[0]
        if k == "text":
            out.append(list(it))
        elif k == "open":
            if it[1] in STD_VOID:
                out.append(["selfclosed", it[1], _wf_attrs(it[2])])
            else:
                stack.append(it[1])
                out.append(["open", it[1], _wf_attrs(it[2])])
        elif k == "close":
            if it[1] in stack:
                while True:
                    t = stack.pop()
                    out.append(["close", t])
                    if t == it[1]:
                        break
        elif k == "selfclosed":
            out.append(["selfclosed", it[1], _wf_attrs(it[2])])
        elif k == "removed":
            out.append(["removed", it[1], _wf_attrs(it[2]), _wf_events(it[3], raw_all=it[1] in RAWTEXT)])
        elif k == "removedEmpty":
            out.append(["removedEmpty", it[1], _wf_attrs(it[2]), True])
        elif k == "comment":
            out.append(["comment", _wf_comment(it[1])])
        elif k == "pi":
            out.append(list(it))
        # "ud" (a CDATA section is character data in XML, a bogus comment in HTML) and "decl" are left out
    while stack:
        out.append(["close", stack.pop()])
    return out


XHTML_NS = "http://www.w3.org/1999/xhtml"


def is_wellformed(text):
    import xml.etree.ElementTree as ET
    try:
        ET.fromstring(text.encode("utf-8"))
        return True
    except Exception:
        return False


def gen_xhtml_doc(rng, **kw):
    """(items, tokens): a document of the grammar whose rendering is well-formed XHTML"""
    kw.setdefault("full", False)
    body, tk = gen_doc(rng, **kw)
    out = []
    if rng.random() < 0.7:
        out.append(["pi", 'xml version="1.0" encoding="utf-8"?'])
    if rng.random() < 0.3:
        out.append(["decl", "DOCTYPE html"])
    out.append(["open", "html", [["xmlns", XHTML_NS]] + ([["lang", "en"]] if rng.random() < 0.5 else [])])
    if rng.random() < 0.8:
        out += [["open", "head", []], ["open", "title", []], ["text", "T " + tk.v()], ["close", "title"]]
        for _ in range(rng.choice((0, 0, 1))):
            out += _wf_items([_hidden_item(rng, tk)])
        out.append(["close", "head"])
    out.append(["open", "body", []])
    out += _wf_items(body)
    out += [["close", "body"], ["close", "html"]]
    return out, tk


# ----------------------------------------------------------------------------- containers
def wrap_mhtml(html_text):
    b = base64.encodebytes(html_text.encode("utf-8")).decode("ascii")
    return ("From: <Saved by c17>\r\nSubject: t\r\nMIME-Version: 1.0\r\n"
            'Content-Type: multipart/related; type="text/html"; boundary="----=_B17"\r\n\r\n'
            "------=_B17\r\nContent-Type: text/html; charset=\"utf-8\"\r\nContent-Transfer-Encoding: base64\r\n"
            "Content-Location: http://x/\r\n\r\n" + b + "\r\n------=_B17\r\nContent-Type: image/png\r\n"
            "Content-Transfer-Encoding: base64\r\nContent-Location: http://x/a.png\r\n\r\niVBORw0KGgo=\r\n------=_B17--\r\n").encode("ascii")


def wrap_epub(html_text):
    bio = io.BytesIO()
    with zipfile.ZipFile(bio, "w") as z:
        z.writestr("mimetype", "application/epub+zip")
        z.writestr("META-INF/container.xml",
                   '<?xml version="1.0"?><container version="1.0" xmlns="urn:oasis:names:tc:opendocument:xmlns:container">'
                   '<rootfiles><rootfile full-path="OEBPS/content.opf" media-type="application/oebps-package+xml"/></rootfiles></container>')
        z.writestr("OEBPS/content.opf",
                   '<?xml version="1.0"?><package xmlns="http://www.idpf.org/2007/opf" version="3.0" unique-identifier="id">'
                   '<metadata xmlns:dc="http://purl.org/dc/elements/1.1/"><dc:title>B</dc:title><dc:identifier id="id">x</dc:identifier></metadata>'
                   '<manifest><item id="c1" href="c1.xhtml" media-type="application/xhtml+xml"/></manifest>'
                   '<spine><itemref idref="c1"/></spine></package>')
        z.writestr("OEBPS/c1.xhtml", html_text.encode("utf-8"))
    return bio.getvalue()


class _FakeMsg:
    def __init__(self, body):
        self.body = body
        self.message_id, self.sent_date, self.sender = "<1@x>", "Mon, 01 Jan 2024 10:00:00 +0000", "A <a@x>"
        self.to, self.cc, self.bcc, self.reply_to, self.subject = "B <b@x>", "", "", "", "s"


def _extract(path, html_text):
    """text the library extracts for `html_text` sent through one of the four HTML-family paths"""
    if path == "html":
        from sharepoint2text.parsing.extractors.html_extractor import read_html
        d = next(read_html(io.BytesIO(html_text.encode("utf-8")), path="t.html"))
        return d.content + "\n" + (d.metadata.title or "")
    if path == "mhtml":
        from sharepoint2text.parsing.extractors.mhtml_extractor import read_mhtml
        d = next(read_mhtml(io.BytesIO(wrap_mhtml(html_text)), path="t.mhtml"))
        return d.content + "\n" + (d.metadata.title or "")
    if path == "epub":
        from sharepoint2text.parsing.extractors.epub_extractor import read_epub
        d = next(read_epub(io.BytesIO(wrap_epub(html_text)), path="t.epub"))
        out = []
        for ch in d.chapters:
            out.append(ch.text)
            out.append(ch.title or "")
            for t in ch.tables:
                for row in t:
                    out.append(" | ".join(row))
        return "\n".join(out)
    if path == "msg":
        from sharepoint2text.parsing.extractors.mail import msg_email_extractor as m
        saved = (m.MsOxMessage, m._extract_msg_attachments)
        m.MsOxMessage = lambda _bio: _FakeMsg(html_text)
        m._extract_msg_attachments = lambda _b: []
        try:
            d = next(m.read_msg_format_mail(io.BytesIO(b"stub"), path="t.msg"))
        finally:
            m.MsOxMessage, m._extract_msg_attachments = saved
        if d.body_html != html_text:
            return "BODY-NOT-TREATED-AS-HTML"
        return d.body_plain
    raise ValueError(path)


PATHS = ("html", "mhtml", "epub", "msg")


def _squash(s):
    return "".join(s.split())


_RE_TITLE = re.compile(r"<title>(.*?)</title>", re.S)


def oracle(path, html_text, visible, hidden, stripped=None):
    """The property statement on the real code: [(kind, what)] of failures (empty = holds)."""
    fails = []
    try:
        out = _extract(path, html_text)
    except Exception as e:
        return [("raised", f"{path}: extraction raised {type(e).__name__}: {e}")]
    if out == "BODY-NOT-TREATED-AS-HTML":
        return []
    in_title = " ".join(_RE_TITLE.findall(html_text))
    title_toks = {t for t in visible if t in in_title}
    if path == "msg":  # the MSG body conversion does not report the <title>
        visible = [t for t in visible if t not in title_toks]
    lost = [t for t in visible if t not in out]
    leaked = [t for t in hidden if t in out]
    if lost:
        fails.append(("visible-lost", f"{path}: visible text {lost[:4]} ({len(lost)} of {len(visible)}) not extracted"))
    if leaked:
        fails.append(("hidden-leaked", f"{path}: removed content {leaked[:4]} appears in the extracted text"))
    if not lost and path != "epub":  # EPUB reports running text and table cells separately
        pos = [out.find(t) for t in visible if t not in title_toks]
        if any(a > b for a, b in zip(pos, pos[1:])):
            fails.append(("visible-reordered", f"{path}: visible text extracted out of document order"))
    if stripped is not None and not lost and not leaked:
        try:
            ref = _extract(path, stripped)
        except Exception as e:
            return fails + [("raised", f"{path}: extraction of the stripped document raised {type(e).__name__}")]
        same = (_squash(out) == _squash(ref)) if path == "epub" else (out == ref)
        if not same:
            fails.append(("not-transparent", f"{path}: extracted text differs from that of the same document with the "
                          f"removed elements deleted"))
    return fails


def doc_case(items, tk):
    return {"html": render(items), "stripped": render(items, stripped=True), "visible": list(tk.vis), "hidden": list(tk.hid)}


def _violations_for(case, paths=PATHS, tag=""):
    vs = []
    for path in paths:
        for kind, what in oracle(path, case["html"], case["visible"], case["hidden"], case.get("stripped")):
            vs.append(Violation(f"{path}.{kind}", what + tag + f" :: input {case['html'][:160]!r}", dict(case, path=path)))
    return vs


def _shrink(items, tk, path, kind, budget=220):
    """greedy deletion of items while the same failure persists (visible/hidden tokens recomputed)"""
    def fails(its):
        vis = [t for t in tk.vis if any(i[0] == "text" and t in i[1] for i in its)]
        hid = [t for t in tk.hid if t in json.dumps(its)]
        c = {"html": render(its), "stripped": render(its, stripped=True), "visible": vis, "hidden": hid}
        if not any(k == kind for k, _ in oracle(path, c["html"], vis, hid, c["stripped"])):
            return None
        if its is not items and kind in ("visible-lost", "visible-reordered"):
            # a deletion must not create a loss of its own: without the removed elements everything is extracted
            if any(k in ("visible-lost", "visible-reordered", "raised") for k, _ in oracle(path, c["stripped"], vis, [], None)):
                return None
        return c
    best = fails(items)
    if best is None:
        return None
    cur = list(items)
    n = max(1, len(cur) // 2)
    while n >= 1 and budget > 0:
        i, changed = 0, False
        while i < len(cur) and budget > 0:
            cand = cur[:i] + cur[i + n:]
            budget -= 1
            c = fails(cand) if cand else None
            if c is not None:
                cur, best, changed = cand, c, True
            else:
                i += n
        if not changed or n == 1:
            n //= 2
    # second phase: thin out the content of the removed elements (same-name tags stay, so the content stays balanced)
    for idx in range(len(cur)):
        if cur[idx][0] != "removed" or cur[idx][1] in RAWTEXT:
            continue
        j = len(cur[idx][3]) - 1
        while j >= 0 and budget > 0:
            e = cur[idx][3][j]
            if not (e[0] in ("s", "e", "se") and e[1] == cur[idx][1]) and not (e[0] in ("s", "e") and e[1] in RAWTEXT):
                it = [cur[idx][0], cur[idx][1], cur[idx][2], cur[idx][3][:j] + cur[idx][3][j + 1:]]
                cand = cur[:idx] + [it] + cur[idx + 1:]
                budget -= 1
                c = fails(cand)
                if c is not None:
                    cur, best = cand, c
            j -= 1
    return best


def _report(path, kind, what, items, tk, case):
    """Violation for a failing generated document, shrunk where possible (message recomputed on the shrunk input)"""
    sh = _shrink(items, tk, path, kind) if path != "msg" else None
    if sh is not None:
        w = [w for k, w in oracle(path, sh["html"], sh["visible"], sh["hidden"], sh["stripped"]) if k == kind]
        if w:
            case, what = sh, w[0]
    rep = dict(case, path=path)
    return Violation(f"{path}.{kind}", what + f" :: input {rep['html'][:200]!r}", rep)


# the four committed witnesses (Props/C17.lean: wVoidChild, wObjectParam, wBareEmbed, wStrayEnd)
WITNESSES = {
    "void-child": ("<p>vis0000q</p><noscript><img src=x></noscript><p>vis0001q</p>", ["vis0000q", "vis0001q"], []),
    "object-param": ("<p>vis0000q</p><object><param name=a><embed src=b></object><p>vis0001q</p>", ["vis0000q", "vis0001q"], []),
    "bare-embed": ("<p>vis0000q</p><embed src=x><p>vis0001q</p>", ["vis0000q", "vis0001q"], []),
    "stray-end": ("<p>vis0000q</p><noscript></div>hid0000q</noscript><p>vis0001q</p>", ["vis0000q", "vis0001q"], ["hid0000q"]),
}


# ----------------------------------------------------------------------------- encoding prescan (Props/C17_Charset.lean)
CHARSET_KEY = "html.charset-sniffed-in-removed-content"
_CS_PRE, _CS_POST = "<html><head>", "</head><body><p>vis0000q caf\u00e9</p></body></html>"
CHARSET_WITNESSES = {  # Props/C17_Charset.lean: charset_cex_comment / _script / _noscript
    "charset-in-comment": '<!-- <meta charset="latin-1"> -->',
    "charset-in-script": "<script>var m = '<meta charset=\"latin-1\">';</script>",
    "charset-in-noscript": "<noscript><META http-equiv=x content='text/html; charset=cp1252'></noscript>",
}


def _charset_witnesses():
    """read_html sniffs `<meta … charset=` with a byte regex BEFORE parsing, so the content of a comment / removed element
    decides how the visible text is decoded.  Open known finding: reported under its own key when (and only when) the
    document without the removed markup is extracted correctly and the document with it loses the non-ASCII text."""
    vs = []
    for name, hidden in CHARSET_WITNESSES.items():
        case = {"html": _CS_PRE + hidden + _CS_POST, "stripped": _CS_PRE + _CS_POST, "visible": ["vis0000q", "caf\u00e9"], "hidden": []}
        for path in ("html", "mhtml"):
            if oracle(path, case["stripped"], case["visible"], [], None):
                continue
            fs = oracle(path, case["html"], case["visible"], [], case["stripped"])
            if fs:
                vs.append(Violation(CHARSET_KEY if path == "html" else CHARSET_KEY.replace("html.", path + ".", 1),
                                    f"{fs[0][1]} [witness {name}]: the encoding prescan of read_html reads a charset declaration "
                                    f"out of removed content :: input {case['html']!r}", dict(case, path=path)))
                break
    return vs[:1]


_CS_BITS = ["<meta", "<META", "<Meta ", "<met", "a", " charset=", " CHARSET=", "charset=", '"utf-8"', "'latin-1'", "koi8-r", "cp1252;", ">", ">",
            " ", "\n", "\t", '"', "'", "=", " http-equiv=x content=\"text/html; charset=cp1252\"", "<!--", "-->", "<script>", "</script>",
            "<noscript>", "</noscript>", "<p>", "caf\u00e9", "<head>", "name=a", "/", "<", "\x0b", "\x0c", "\r", "x" * 40]


def gen_prescan(rng):
    n = rng.choice((1, 2, 3, 5, 8, 12))
    t = "".join(rng.choice(_CS_BITS) for _ in range(n))
    if rng.random() < 0.6:  # near-matches: <meta, a run that may or may not contain '>', charset=, optional quote, a value or none
        t = (rng.choice(("", "<p>", "<!-- ", "<script>'", "<meta>", "<meta ", t)) + rng.choice(("<meta", "<META", "<mEtA", "<met", "< meta"))
             + rng.choice((" ", "", "\n", " name=a ", " a>b ", " charset= ", ' charset="" ', " charset=x ", "/")) + rng.choice(("charset=", "CharSet=", "charset =", "charset"))
             + rng.choice(('"', "'", "", "", '"\'', " ")) + rng.choice(("utf-8", "latin-1", "caf\u00e9", "", ">", "a b", "x'y", "k\x0cl"))
             + rng.choice(('"', "'", "", ">", " -->", "';</script>")) + rng.choice(("", t, "<meta charset=second>")))
    r = rng.random()
    if r < 0.06:    # the 8 KiB window
        t = " " * rng.choice((8170, 8180, 8186, 8187, 8190, 8200)) + t
    return t.encode("utf-8")


def _prescan_correspondence(ctx, broken):
    """Model/HtmlCharset.lean `sniff` = what read_html's regex finds in the first 8192 bytes (the constant and the window are
    read from the current source: a changed regex / window shows here)"""
    import inspect
    from sharepoint2text.parsing.extractors import html_extractor as hx
    rx = getattr(hx, "_RE_CHARSET_ATTR_BYTES", None)
    src = inspect.getsource(hx.read_html)
    if rx is None or "_RE_CHARSET_ATTR_BYTES.search(content[:8192])" not in src:
        broken.append(Broken("correspondence", "c17.sniff", "read_html no longer sniffs the encoding with "
                             "_RE_CHARSET_ATTR_BYTES.search(content[:8192]): Model/HtmlCharset.lean models that call"))
        return
    blobs = [(_CS_PRE + h + _CS_POST).encode("utf-8") for h in CHARSET_WITNESSES.values()] + [(_CS_PRE + _CS_POST).encode("utf-8")]
    blobs += [gen_prescan(ctx.rng) for _ in range(ctx.n(300, 6000))]
    outs = ctx.drive([{"op": "c17.sniff", "t": b.decode("latin-1")} for b in blobs])
    bad = 0
    for b, o in zip(blobs, outs):
        m = rx.search(b[:8192])
        real = m.group(1).decode("ascii", errors="ignore") if m else None
        ctx.case(("sniff", b), nontrivial=b"<met" in b.lower())
        ctx.count("sniff/found" if m else "sniff/none")
        if "drv_error" in o:
            broken.append(Broken("correspondence", "driver", o["drv_error"], case={"bytes": b.decode("latin-1")}))
            continue
        model = None if o["v"] is None else "".join(c for c in o["v"] if ord(c) < 128)
        if model != real:
            bad += 1
            if bad <= 3:
                broken.append(Broken("correspondence", "c17.sniff", f"prescan model {model!r} != regex {real!r} on {b[:200]!r}"))
    ctx.coverage["sniff_mismatches"] = bad


def known_witnesses(ctx):
    vs = _charset_witnesses()
    for name, hist in HISTORY_WITNESSES.items():
        vs += _history_violations(hist, tag=f" [witness {name}]", shrink=False)
    for name, (h, vis, hid) in WITNESSES.items():
        body = "<html><body>" + h + "</body></html>"
        stripped = "<html><body><p>vis0000q</p><p>vis0001q</p></body></html>"
        vs += _violations_for({"html": body, "stripped": stripped, "visible": vis, "hidden": hid}, tag=f" [witness {name}]")
    return _drop_explained(vs)


# ----------------------------------------------------------------------------- malformed + direct streams
SOUP = (["<", ">", "</", "/>", "<!--", "-->", "--!>", "<![CDATA[", "]]>", "<?", "?>", "<!DOCTYPE html>", "&amp;", "&#65;", "&", "&lt",
         "=", "\"", "'", " ", "\n", "/", "x", "text", "café", "中", "<p>", "</p>", "<div>", "</div>", "<br>", "<br/>", "<img src=x>",
         "<td>", "</td>", "<tr>", "<table>", "</table>", "<title>", "</title>", "<li>", "<P CLASS=A>", "</P>", "<a href='u'>", "</a>"]
        + [f"<{t}>" for t in SPEC_REMOVABLE] + [f"</{t}>" for t in SPEC_REMOVABLE] + [f"<{t}/>" for t in SPEC_REMOVABLE]
        + [f"<{t.upper()} x=1>" for t in SPEC_REMOVABLE] + ["<param name=a>", "<embed src=b>", "<input>", "<source>", "</ noscript>", "<noscript "])


def gen_soup(rng):
    return "".join(rng.choice(SOUP) for _ in range(rng.randint(1, 40)))


TAGPOOL = list(SPEC_REMOVABLE) * 3 + ["img", "br", "param", "input", "source", "p", "div", "span", "td", "tr", "table", "title", "li", "h1", "a", "x-y"]


def gen_calls(rng):
    """raw handler-call sequence; biased towards entering / nesting / leaving removed elements"""
    evs = []
    focus = rng.choice(SPEC_REMOVABLE)
    for _ in range(rng.randint(1, 30)):
        t = focus if rng.random() < 0.35 else rng.choice(TAGPOOL)
        if rng.random() < 0.04:
            t = t.upper()
        r = rng.random()
        if r < 0.34:
            evs.append(["s", t, _attrs(rng)])
        elif r < 0.62:
            evs.append(["e", t])
        elif r < 0.72:
            evs.append(["se", t, _attrs(rng)])
        elif r < 0.92:
            evs.append(["d", rng.choice(WORDS + ["d1", "d2", " "])])
        else:
            evs.append([rng.choice(("c", "decl", "pi", "ud")), rng.choice(WORDS)])
    return evs


def _features(evs, trace):
    f = set()
    prev = 0
    for e, (d, _t) in zip(evs, trace):
        if prev == 0 and d > 0:
            f.add("enter")
        if prev > 0 and d == 0:
            f.add("leave")
        if d >= 2:
            f.add("same-name-nesting")
        if prev > 0:
            if e[0] == "s" and e[1] in STD_VOID:
                f.add("void-child-in-skip")
            elif e[0] == "s" and e[1] in SPEC_REMOVABLE and d == prev:
                f.add("other-removable-in-skip")
            elif e[0] == "e" and d == prev:
                f.add("stray-end-in-skip")
            elif e[0] == "se":
                f.add("selfclosed-in-skip")
            elif e[0] in ("c", "ud", "pi", "decl"):
                f.add("comment-in-skip")
        else:
            if e[0] == "s" and e[1] in SPEC_REMOVABLE and d == 0:
                f.add("removable-void-dropped")
            if e[0] == "se" and e[1] in SPEC_REMOVABLE:
                f.add("removable-selfclosed-dropped")
            if e[0] == "e" and e[1] in SPEC_REMOVABLE:
                f.add("stray-removable-end-outside")
        prev = d
    if prev > 0:
        f.add("ends-inside-removed")
    return f


# ----------------------------------------------------------------------------- correspondence
def correspondence(ctx):
    rng = ctx.rng
    broken, violations = [], []
    reqs, meta = [], []  # meta: (stream, machine, events, real_snapshot, case-for-report)

    def add(stream, machine, evs, snap, case):
        if not _jsonable(evs):
            ctx.count(f"{stream}/skipped-surrogate")
            return
        reqs.append({"op": "c17.run", "m": machine, "ev": evs})
        meta.append((stream, machine, evs, snap, case))

    # (A) structured documents, tokenised by the real HTMLParser; + Spec tie
    docs = []
    for i in range(ctx.n(250, 6000)):
        items, tk = gen_doc(rng, p_hidden=rng.choice((0.15, 0.35, 0.6)))
        docs.append((items, tk))
        text = render(items)
        for machine in ("html", "epub"):
            r = _tokenise(machine, text)
            if r is None:
                ctx.count("structured/feed-raised")
                continue
            add("structured", machine, r[0], r[1], {"html": text, "doc": items, "visible": tk.vis, "hidden": tk.hid,
                                                    "stripped": render(items, stripped=True)})
    spec_reqs = [{"op": "c17.spec", "doc": items} for items, _ in docs]
    # (B) character soup
    for i in range(ctx.n(300, 8000)):
        text = gen_soup(rng)
        for machine in ("html", "epub"):
            r = _tokenise(machine, text)
            if r is None:
                ctx.count("soup/feed-raised")
                continue
            add("soup", machine, r[0], r[1], {"html": text})
    # (C) raw handler calls
    for i in range(ctx.n(400, 10000)):
        evs = gen_calls(rng)
        for machine in ("html", "epub"):
            log, snap = _drive_direct(machine, evs)
            add("calls", machine, log, snap, {"events": evs})

    outs = ctx.drive(reqs)
    mism = 0
    for (stream, machine, evs, snap, case), o in zip(meta, outs):
        feats = _features(evs, snap["trace"])
        nontrivial = bool(feats) or any(e[0] == "c" for e in evs)
        ctx.case((machine, json.dumps(evs, ensure_ascii=True)), nontrivial=nontrivial)
        ctx.count(f"{stream}/{machine}")
        for f in feats:
            ctx.count(f"feature/{f}")
        if "drv_error" in o:
            broken.append(Broken("correspondence", "driver", o["drv_error"], case=case))
            continue
        if o != snap:
            mism += 1
            if mism <= 12:
                diff = [k for k in snap if snap[k] != o.get(k)]
                detail = f"machine={machine} stream={stream} fields differing: {diff}"
                if "trace" in diff:
                    i = next((i for i, (a, b) in enumerate(zip(snap["trace"], o["trace"])) if a != b), None)
                    if i is not None:
                        detail += f"; first gate difference after call #{i} {evs[i]!r}: impl={snap['trace'][i]} model={o['trace'][i]}"
                broken.append(Broken("correspondence", "c17.run", detail, case=dict(case, machine=machine)))
    ctx.coverage["mismatches"] = mism
    if meta:
        k = len(meta) // 3
        ctx.sample({"stream": meta[k][0], "machine": meta[k][1], "events": meta[k][2][:12], "impl_trace": meta[k][3]["trace"][:12],
                    "model_trace": outs[k].get("trace", [])[:12]})

    # Spec tie: the handler calls HTMLParser really makes for render(doc) are the Spec's `events doc`
    souts = ctx.drive(spec_reqs)
    bad_spec = 0
    for (items, tk), o in zip(docs, souts):
        ctx.case(("spec", json.dumps(items, ensure_ascii=True)))
        ctx.count("spec/doc")
        if "drv_error" in o:
            broken.append(Broken("correspondence", "driver", o["drv_error"], case={"doc": items}))
            continue
        r = _tokenise("html", render(items))
        problems = []
        if not o["ok"]:
            problems.append("generated document is not SpecDocOk")
        if o["ok_html"] != o["ok"] or o["ok_epub"] != o["ok"]:
            problems.append("DocOk under the library tables differs from SpecDocOk")
        if r is not None and _merge(r[0]) != _merge(o["events"]):
            problems.append("HTMLParser calls for render(doc) differ from Spec events")
        if o["visible"] != [i[1] for i in items if i[0] == "text"]:
            problems.append("visibleData differs")
        if any(t not in " ".join(o["hidden"]) for t in tk.hid if not _only_in_attr(items, t)):
            problems.append("a hidden token is not in hiddenData")
        if problems:
            bad_spec += 1
            if bad_spec <= 5:
                broken.append(Broken("correspondence", "c17.spec", "; ".join(problems),
                                     case={"doc": items, "html": render(items), "visible": tk.vis, "hidden": tk.hid,
                                           "stripped": render(items, stripped=True)}))
    ctx.coverage["spec_mismatches"] = bad_spec

    # end-to-end: the property statement itself on the real code, four paths
    n_e2e = ctx.n(120, 2500)
    for i in range(n_e2e):
        items, tk = docs[i] if i < len(docs) else gen_doc(rng)
        case = doc_case(items, tk)
        for path in PATHS:
            if path == "msg" and not case["html"].startswith(("<!DOCTYPE", "<html")):
                c = dict(case, html="<html><body>" + case["html"] + "</body></html>",
                         stripped="<html><body>" + case["stripped"] + "</body></html>")
            else:
                c = case
            fs = oracle(path, c["html"], c["visible"], c["hidden"], c["stripped"])
            ctx.case(("e2e", path, c["html"]))
            ctx.count(f"e2e/{path}")
            for kind, what in fs:
                violations.append(_report(path, kind, what, items, tk, c))
    # end-to-end on the well-formed XHTML renditions (the route a reader takes for input an XML parser accepts), four paths
    n_wf = 0
    for i in range(ctx.n(150, 2500)):
        items, tk = gen_xhtml_doc(rng, p_hidden=rng.choice((0.3, 0.6)), blocks=rng.choice((1, 2, 3, 4)))
        case = doc_case(items, tk)
        wf = is_wellformed(case["html"]) and is_wellformed(case["stripped"])
        n_wf += wf
        ctx.count("xhtml/well-formed" if wf else "xhtml/NOT-well-formed")
        for path in PATHS:
            fs = oracle(path, case["html"], case["visible"], case["hidden"], case["stripped"])
            ctx.case(("e2e-xhtml", path, case["html"]))
            ctx.count(f"e2e-xhtml/{path}")
            for kind, what in fs:
                violations.append(_report(path, kind, what + " [well-formed XHTML rendition]", items, tk, case))
    if n_wf * 10 < ctx.n(150, 2500) * 9:
        broken.append(Broken("correspondence", "c17.xhtml-generator", f"only {n_wf} of {ctx.n(150, 2500)} XHTML renditions are "
                             "accepted by ElementTree: the well-formed route is not exercised"))
    _history_correspondence(ctx, broken, violations)
    _prescan_correspondence(ctx, broken)
    return {"broken": broken, "violations": violations}


def _only_in_attr(items, tok):
    """hidden tokens placed in attribute values of removed tags are not character data"""
    def in_data(evs):
        return any(e[0] in ("d", "c", "ud") and tok in e[1] for e in evs)
    for it in items:
        if it[0] == "removed" and in_data(it[3]):
            return False
        if it[0] in ("comment",) and tok in it[1]:
            return False
    return True



# ----------------------------------------------------------------------------- histories of documents
# A "chapter" = {"doc": items, "tail": None | ["unclosed", tag, attrs, junk], "cut": str, "vis": [...], "hid": [...]}.
# tail: the document ends inside a removed element that is never closed; cut: the text is truncated in the
# middle of a markup construct (HTMLParser keeps the incomplete construct in its buffer and delivers nothing for it).
NONRAW_REMOVABLE = tuple(t for t in SPEC_REMOVABLE if t not in RAWTEXT and t not in STD_VOID)
CUTS = ["", "", "", '<object data="x', "<!-- never closed hidCUTq", "<![CDATA[ hidCUTq", '<p class="', "<", "</obj", "<iframe src=x",
        "&am", "<?php hidCUTq"]


def _never_closing(rng, tk, tag):
    """content of an UNCLOSED removed element: same-name balanced junk with extra same-name start tags sprinkled in"""
    junk = _junk(rng, tk, tag)
    for _ in range(rng.choice((0, 0, 1, 2))):
        junk.insert(rng.randint(0, len(junk)), ["s", tag, _attrs(rng)])
    if rng.random() < 0.5:
        junk.append(["d", tk.h()])
    return junk


def gen_chapter(rng, p_tail=0.5, **kw):
    items, tk = gen_doc(rng, **kw)
    tail, cut = None, ""
    r = rng.random()
    if r < p_tail * 0.7:
        tag = rng.choice(NONRAW_REMOVABLE)
        tail = ["unclosed", tag, _attrs(rng, tk.h()), _never_closing(rng, tk, tag)]
    elif r < p_tail * 0.9:
        tag = rng.choice(RAWTEXT)
        tail = ["unclosed", tag, _attrs(rng), _raw_junk(rng, tk, tag) or [["d", tk.h()]]]
    elif r < p_tail:
        cut = rng.choice(CUTS)
    if tail is not None and rng.random() < 0.25:
        cut = rng.choice(CUTS)
    return {"doc": items, "tail": tail, "cut": cut, "vis": list(tk.vis), "hid": list(tk.hid) + (["hidCUTq"] if "hidCUTq" in cut else [])}


def render_chapter(ch, stripped=False):
    s = render(ch["doc"], stripped=stripped)
    if stripped:
        return s
    if ch["tail"] is not None:
        _, tag, attrs, junk = ch["tail"]
        body = "".join(_rev(e, raw=True) for e in junk) if tag in RAWTEXT else _rjunk(junk)
        s += f"<{tag}{_rattrs(attrs)}>{body}"
    return s + ch["cut"]


def gen_xhtml_history(rng):
    """2-3 well-formed XHTML documents (complete: a well-formed document cannot end inside an element)"""
    out = []
    for i in range(rng.choice((2, 2, 3))):
        items, tk = gen_xhtml_doc(rng, p_hidden=rng.choice((0.3, 0.6)), blocks=rng.choice((1, 2, 3)))
        blob = json.dumps(items)
        ren = {t: t.replace("q", f"d{i}q") for t in tk.vis + tk.hid}
        blob = re.sub(r"(vis|hid)(\d{4})q", lambda m: ren.get(m.group(0), m.group(0)), blob)
        out.append({"doc": json.loads(blob), "tail": None, "cut": "", "vis": [ren[t] for t in tk.vis], "hid": [ren[t] for t in tk.hid]})
    return out


def gen_history(rng):
    if rng.random() < 0.2:
        return gen_xhtml_history(rng)
    n = rng.choice((2, 2, 3, 3, 4))
    chs = [gen_chapter(rng, p_tail=rng.choice((0.4, 0.8)), p_hidden=rng.choice((0.15, 0.35)), blocks=rng.choice((1, 2, 3)),
                       full=rng.random() < 0.5) for _ in range(n)]
    if all(c["tail"] is None for c in chs[:-1]) and rng.random() < 0.8:  # most histories have a document that ends inside
        tk = _Tok()
        tk.hid = chs[0]["hid"]
        tag = rng.choice(NONRAW_REMOVABLE + RAWTEXT)
        chs[0]["tail"] = ["unclosed", tag, [], _never_closing(rng, tk, tag) if tag not in RAWTEXT else [["d", tk.h()]]]
    # token names are per document: make them unique over the history
    out = []
    for i, c in enumerate(chs):
        blob = json.dumps([c["doc"], c["tail"], c["cut"]])
        ren = {t: t.replace("q", f"d{i}q") for t in c["vis"] + c["hid"]}
        blob = re.sub(r"(vis|hid)(\d{4}|CUT)q", lambda m: ren.get(m.group(0), m.group(0)), blob)
        doc, tail, cut = json.loads(blob)
        out.append({"doc": doc, "tail": tail, "cut": cut, "vis": [ren[t] for t in c["vis"]], "hid": [ren[t] for t in c["hid"]]})
    return out


def history_case(chs):
    return {"history": [{"html": render_chapter(c), "stripped": render_chapter(c, stripped=True), "visible": list(c["vis"]),
                         "hidden": list(c["hid"])} for c in chs]}


def wrap_epub_book(htmls):
    bio = io.BytesIO()
    with zipfile.ZipFile(bio, "w") as z:
        z.writestr("mimetype", "application/epub+zip")
        z.writestr("META-INF/container.xml",
                   '<?xml version="1.0"?><container version="1.0" xmlns="urn:oasis:names:tc:opendocument:xmlns:container">'
                   '<rootfiles><rootfile full-path="OEBPS/content.opf" media-type="application/oebps-package+xml"/></rootfiles></container>')
        man = "".join(f'<item id="c{i}" href="c{i}.xhtml" media-type="application/xhtml+xml"/>' for i in range(1, len(htmls) + 1))
        spine = "".join(f'<itemref idref="c{i}"/>' for i in range(1, len(htmls) + 1))
        z.writestr("OEBPS/content.opf",
                   '<?xml version="1.0"?><package xmlns="http://www.idpf.org/2007/opf" version="3.0" unique-identifier="id">'
                   '<metadata xmlns:dc="http://purl.org/dc/elements/1.1/"><dc:title>B</dc:title><dc:identifier id="id">x</dc:identifier></metadata>'
                   f'<manifest>{man}</manifest><spine>{spine}</spine></package>')
        for i, h in enumerate(htmls, 1):
            z.writestr(f"OEBPS/c{i}.xhtml", h.encode("utf-8"))
    return bio.getvalue()


def _extract_history(path, htmls):
    """what the library extracts for each document of the history: the chapters of ONE book (epub) or consecutive
    calls of the reader in this process (html, mhtml, msg).  None for a document that was not reported at all."""
    if path != "epub":
        return [_extract(path, h) for h in htmls]
    from sharepoint2text.parsing.extractors.epub_extractor import read_epub
    d = next(read_epub(io.BytesIO(wrap_epub_book(htmls)), path="t.epub"))
    by_href = {}
    for ch in d.chapters:
        out = [ch.text, ch.title or ""]
        for t in ch.tables:
            for row in t:
                out.append(" | ".join(row))
        by_href[ch.href.rsplit("/", 1)[-1]] = "\n".join(out)
    return [by_href.get(f"c{i}.xhtml") for i in range(1, len(htmls) + 1)]


def _msg_wrap(h):
    # prefix only: the document may end inside a removed element / an incomplete construct, which must stay its end
    # (an XHTML rendition starts with the XML declaration and has its own root: wrapping it would move its <title> into a body)
    return h if h.startswith(("<!DOCTYPE", "<html", "<?xml")) else "<html><body>" + h


def oracle_history(path, hist):
    """The property statement on a HISTORY of documents: for every document, its visible text (all of it lies before the
    place where the document ends inside a removed element) is extracted, no removed content of ANY document of the
    history appears anywhere, and the result is that of the history with the removed elements deleted."""
    docs = hist
    if path == "msg":
        docs = [dict(d, html=_msg_wrap(d["html"]), stripped=_msg_wrap(d["stripped"])) for d in hist]
    try:
        outs = _extract_history(path, [d["html"] for d in docs])
    except Exception as e:
        return [("raised", f"{path}: extraction of the history raised {type(e).__name__}: {e}")]
    fails = []
    all_hidden = [t for d in docs for t in d["hidden"]]
    for i, (d, out) in enumerate(zip(docs, outs)):
        if out == "BODY-NOT-TREATED-AS-HTML":
            return []
        if out is None:
            fails.append(("visible-lost", f"{path}: document {i + 1} of {len(docs)} is not reported at all"))
            continue
        in_title = " ".join(_RE_TITLE.findall(d["html"]))
        visible = [t for t in d["visible"] if not (path == "msg" and t in in_title)]
        lost = [t for t in visible if t not in out]
        leaked = [t for t in all_hidden if t in out]
        if lost:
            prev = [j + 1 for j in range(i) if _ends_inside(docs[j]["html"])]
            fails.append(("visible-lost", f"{path}: document {i + 1} of {len(docs)}: visible text {lost[:4]} ({len(lost)} of "
                          f"{len(visible)}) not extracted" + (f" (document(s) {prev} before it end inside a removed element)" if prev else "")))
        if leaked:
            fails.append(("hidden-leaked", f"{path}: document {i + 1} of {len(docs)}: removed content {leaked[:4]} appears in the extracted text"))
    if not fails:
        try:
            refs = _extract_history(path, [d["stripped"] for d in docs])
        except Exception as e:
            return [("raised", f"{path}: extraction of the stripped history raised {type(e).__name__}")]
        for i, (a, b) in enumerate(zip(outs, refs)):
            same = (_squash(a) == _squash(b or "")) if path == "epub" else (a == b)
            if not same:
                fails.append(("not-transparent", f"{path}: document {i + 1} of {len(docs)}: extracted text differs from that of the "
                              f"same history with the removed elements deleted"))
                break
    return fails


def _ends_inside(html_text):
    p = _logging_class("html")()
    try:
        p.feed(html_text)
    except Exception:
        return False
    return p.skip_depth > 0 or bool(p.rawdata)


# A failure that depends on what THIS process read before (a pooled / cached / class-level parser state) cannot be judged or
# shrunk in this process, and its replay must fail in a NEW process: histories are confirmed and shrunk there.
_FRESH = {"hist": 0, "single": 0, "confirmed": []}
_FRESH_BUDGET = {"hist": 60, "single": 16}


def _fresh_oracle(payload):
    """kinds of failure of a replay payload ({"history":…,"path":…} or a single document) in a new interpreter; None = not run"""
    import os
    import subprocess
    import sys as _sys
    import tempfile
    pool = "hist" if "history" in payload else "single"
    if _FRESH[pool] >= _FRESH_BUDGET[pool]:
        return None
    _FRESH[pool] += 1
    here = os.path.dirname(os.path.dirname(os.path.abspath(__file__)))
    code = ("import sys, json, logging, warnings; logging.disable(logging.CRITICAL); warnings.filterwarnings('ignore')\n"
            f"sys.path[:0] = [{here!r}, {os.environ.get('S2T_REPO', '/repo')!r}]\n"
            "from props import c17\n"
            "rep = json.load(open(sys.argv[1]))\n"
            "if 'history' in rep:\n"
            "    fs = c17.oracle_history(rep['path'], rep['history'])\n"
            "else:\n"
            "    fs = c17.oracle(rep['path'], rep['html'], rep.get('visible', []), rep.get('hidden', []), rep.get('stripped'))\n"
            "print('C17FRESH ' + json.dumps(fs))\n")
    with tempfile.NamedTemporaryFile("w", suffix=".json", delete=False) as fh:
        json.dump(payload, fh)
    try:
        r = subprocess.run([_sys.executable, "-c", code, fh.name], capture_output=True, text=True, timeout=120)
    except subprocess.TimeoutExpired:
        return None
    finally:
        os.unlink(fh.name)
    for line in r.stdout.splitlines():
        if line.startswith("C17FRESH "):
            return [tuple(x) for x in json.loads(line[9:])]
    return None


def _confirm_history(path, kind, what, hist, tag=""):
    """Violation for a failing history: confirmed and shrunk in a new process where possible"""
    fs = _fresh_oracle({"history": hist, "path": path})
    if fs is None:
        return _hist_violation(path, kind, what, hist, tag + " [not re-run in a new process: budget]")
    if fs and not any(k == kind for k, _ in fs):  # in a new process the same history fails in another way: report that one
        kind, what = fs[0]
    if not fs:
        return _hist_violation(path, kind, what, hist, tag + " [fails in this process only after the documents it had read before; "
                               "the recorded history alone does not fail in a new process]")

    def fails(h):
        r = _fresh_oracle({"history": h, "path": path})
        return r is not None and any(k == kind for k, _ in r)
    cur = list(hist)
    i = len(cur) - 1
    while i >= 0 and len(cur) > 1:  # drop documents
        cand = cur[:i] + cur[i + 1:]
        if fails(cand):
            cur = cand
        i -= 1
    for i, d in enumerate(list(cur)):  # minimal documents
        for c in _minimal_docs(d):
            cand = cur[:i] + [c] + cur[i + 1:]
            if fails(cand):
                cur = cand
                break
    r = _fresh_oracle({"history": cur, "path": path})
    w = [w for k, w in (r or []) if k == kind]
    if not w:
        cur, w = hist, [w for k, w in fs if k == kind]
    v = _hist_violation(path, kind, w[0], cur, tag)
    _FRESH["confirmed"].append(v.key)
    return v


def _minimal_docs(d):
    vis = d["visible"][:1]
    out = []
    if vis and _ends_inside(d["html"]):  # "<p>vis</p>" + the part after the last visible block
        k = d["html"].rfind(d["visible"][-1])
        k = d["html"].find("</p>", k)
        if k >= 0:
            tail = d["html"][k + 4:].replace("</body></html>", "")
            out.append({"html": f"<p>{vis[0]}</p>" + tail, "stripped": f"<p>{vis[0]}</p>", "visible": vis,
                        "hidden": [t for t in d["hidden"] if t in tail]})
    if vis:
        out.append({"html": f"<p>{vis[0]}</p>", "stripped": f"<p>{vis[0]}</p>", "visible": vis, "hidden": []})
    return out


def _drop_explained(vs):
    """single-document violations that do NOT fail in a new process are consequences of what this process read before; when a
    confirmed history violation explains them they are dropped (per key: the first two are re-run), otherwise they stay"""
    if not _FRESH["confirmed"]:
        return vs
    out, verdict, tried = [], {}, {}
    for v in vs:
        rep = v.replay
        if "history" in rep or "html" not in rep:
            out.append(v)
            continue
        if verdict.get(v.key) == "keep":
            continue  # one confirmed representative per key is enough (run.py prints one per key)
        if tried.get(v.key, 0) >= 2:
            continue
        tried[v.key] = tried.get(v.key, 0) + 1
        fs = _fresh_oracle(rep)
        if fs is None or fs:
            verdict[v.key] = "keep"
            out.append(v)
    return out


def _hist_violation(path, kind, what, hist, tag=""):
    rep = {"history": hist, "path": path}
    first = next((d["html"] for d in hist if _ends_inside(d["html"])), hist[0]["html"])
    return Violation(f"{path}.history.{kind}", what + tag + f" :: history of {len(hist)} documents, e.g. {first[-160:]!r}", rep)


def _history_violations(hist, paths=PATHS, tag="", shrink=True):
    vs = []
    for path in paths:
        for kind, what in oracle_history(path, hist):
            vs.append(_confirm_history(path, kind, what, hist, tag) if kind != "raised" else _hist_violation(path, kind, what, hist, tag))
    return vs


# committed witnesses of Props/C17_Life.lean (wBookObject, wBookNested): they HOLD on a reader that makes a new parser per
# document and fail on one whose parser's gate state survives into the next document
HISTORY_WITNESSES = {
    "book-object": [
        {"html": '<p>vis0000d0q</p><object data="x"><param name="q"><p>hid0000d0q', "stripped": "<p>vis0000d0q</p>",
         "visible": ["vis0000d0q"], "hidden": ["hid0000d0q"]},
        {"html": "<p>vis0000d1q</p>", "stripped": "<p>vis0000d1q</p>", "visible": ["vis0000d1q"], "hidden": []}],
    "book-nested": [
        {"html": "<p>vis0000d0q</p><noscript><noscript>hid0000d0q</noscript>", "stripped": "<p>vis0000d0q</p>",
         "visible": ["vis0000d0q"], "hidden": ["hid0000d0q"]},
        {"html": "<p>vis0000d1q</p><script>hid0000d1q</script>", "stripped": "<p>vis0000d1q</p>", "visible": ["vis0000d1q"],
         "hidden": ["hid0000d1q"]},
        {"html": "<p>vis0000d2q</p>", "stripped": "<p>vis0000d2q</p>", "visible": ["vis0000d2q"], "hidden": []}],
    "book-rawtext-cut": [
        {"html": "<p>vis0000d0q</p><script>var hid0000d0q = '<p>", "stripped": "<p>vis0000d0q</p>",
         "visible": ["vis0000d0q"], "hidden": ["hid0000d0q"]},
        {"html": "<p>vis0000d1q</p><style>hid0000d1q</style><p>vis0001d1q</p><!-- hid0001d1q", "stripped": "<p>vis0000d1q</p><p>vis0001d1q</p>",
         "visible": ["vis0000d1q", "vis0001d1q"], "hidden": ["hid0000d1q", "hid0001d1q"]},
        {"html": "<table><tr><td>vis0000d2q</td></tr></table><p>vis0001d2q</p>", "stripped": "<table><tr><td>vis0000d2q</td></tr></table><p>vis0001d2q</p>",
         "visible": ["vis0000d2q", "vis0001d2q"], "hidden": []}],
}


class _Spy:
    """Replaces the two parser classes, in every loaded module of the package that refers to them, by logging subclasses and
    records every construction and every feed (with the handler calls of that feed and the object state after it)."""

    def __init__(self):
        self.feeds = []   # (machine, object serial, feed number on that object, events of this feed, snapshot after it)
        self.made = []    # (machine, serial)
        self.objs = []    # the parser objects themselves (handler calls that did not come from a feed are counted on them)

    def outside_feed(self, machine):
        """handler calls some parser object of `machine` received from something other than HTMLParser.feed"""
        return sum(len(o._c17_log) - o._c17_infeed for o in self.objs if o._m == machine)

    def __enter__(self):
        import sys as _sys
        spy = self
        self._saved = []
        for machine, cls in _classes().items():
            L = _logging_class(machine)

            class S(L):
                _m = machine

                def __init__(self):
                    super().__init__()
                    self._c17_serial = len(spy.made)
                    self._c17_nfeeds = 0
                    spy.made.append((self._m, self._c17_serial))
                    self._c17_infeed = 0
                    spy.objs.append(self)

                def feed(self, data):
                    k0 = len(self._c17_log)
                    try:
                        return super().feed(data)
                    finally:
                        self._c17_nfeeds += 1
                        self._c17_infeed += len(self._c17_log) - k0
                        snap = _snapshot(self._m, self)
                        snap["trace"] = snap["trace"][k0:]
                        spy.feeds.append((self._m, self._c17_serial, self._c17_nfeeds, json.loads(json.dumps(self._c17_log[k0:])), snap))
            S.__name__, S.__qualname__ = cls.__name__, cls.__qualname__
            for mod in list(_sys.modules.values()):
                if getattr(mod, "__name__", "").startswith("sharepoint2text") and getattr(mod, cls.__name__, None) is cls:
                    self._saved.append((mod, cls.__name__, cls))
                    setattr(mod, cls.__name__, S)
        return self

    def __exit__(self, *exc):
        for mod, name, cls in self._saved:
            setattr(mod, name, cls)
        return False


def _merge_text_items(items):
    """adjacent visible text items are ONE run of character data for HTMLParser (one handle_data call)"""
    out = []
    for it in items:
        if it[0] == "text" and out and out[-1][0] == "text":
            out[-1] = ["text", out[-1][1] + it[1]]
        else:
            out.append(list(it))
    return out


def _history_correspondence(ctx, broken, violations):
    """(D) histories: every feed of every parser object the real readers make = `run (init …)` of the model on that feed's
    calls (a NEW parser per document: Props/C17_Life.lean, Gen/HtmlLife.lean), the class-specific state after it = the
    right-hand side of `C17_book` (visible items before the unclosed tail); (E) the property oracle on the histories."""
    rng = ctx.rng
    import sharepoint2text.parsing.extractors.mail.msg_email_extractor  # noqa: F401  (loaded before the spy looks for the classes)
    import sharepoint2text.parsing.extractors.mhtml_extractor  # noqa: F401
    hists = [gen_history(rng) for _ in range(ctx.n(50, 1500))]
    reqs, meta, book_reqs, book_meta = [], [], [], []
    life_bad = 0
    for hi, chs in enumerate(hists):
        htmls = [render_chapter(c) for c in chs]
        case = history_case(chs)
        for reader in (("epub", "html", "msg", "mhtml") if hi % 3 == 0 else ("epub", "html")):
            machine = "epub" if reader == "epub" else "html"
            with _Spy() as spy:
                try:
                    _extract_history(reader, [_msg_wrap(h) for h in htmls] if reader == "msg" else htmls)
                except Exception as e:
                    ctx.count(f"history/{reader}/raised-{type(e).__name__}")
                    continue
            feeds = [f for f in spy.feeds if f[0] == machine]
            ctx.count(f"history/{reader}")
            ctx.case(("history", reader, json.dumps(htmls)))
            # lifecycle as observed: one new object per document, fed once
            serials = [f[1] for f in feeds]
            stray = spy.outside_feed(machine)
            if stray:
                ctx.count(f"history/{reader}/handler-calls-outside-feed")
            if len(feeds) != len(htmls) or len(set(serials)) != len(serials) or any(f[2] != 1 for f in feeds) or stray:
                life_bad += 1
                if life_bad <= 4:
                    broken.append(Broken("correspondence", "c17.lifecycle",
                                         f"reader={reader}: {len(htmls)} documents were read with {len(set(serials))} parser object(s) and "
                                         f"{len(feeds)} feed(s) (feeds per object: {[f[2] for f in feeds]}), {stray} handler call(s) reached a "
                                         f"parser object from outside HTMLParser.feed; the model is one new parser per document, driven by "
                                         f"one feed", case=dict(case, reader=reader)))
            for k, f in enumerate(feeds):
                if not _jsonable(f[3]):
                    continue
                reqs.append({"op": "c17.run", "m": machine, "ev": f[3]})
                meta.append((reader, k, len(feeds), f[4], case))
            if reader in ("epub", "html") and len(feeds) == len(htmls):
                book_reqs.append({"op": "c17.book", "m": machine, "chapters": [{"doc": _merge_text_items(c["doc"]), "tail": c["tail"]} for c in chs]})
                book_meta.append((reader, chs, [f[3] for f in feeds], [f[4] for f in feeds], case))
    outs = ctx.drive(reqs)
    mism = 0
    for (reader, k, n, snap, case), o in zip(meta, outs):
        ctx.case(("history-feed", reader, k, json.dumps(snap, sort_keys=True)))
        ctx.count("history/feed")
        if snap["trace"] and snap["trace"][-1][0] > 0:
            ctx.count("history/feed-ends-inside-removed")
        if "drv_error" in o:
            broken.append(Broken("correspondence", "driver", o["drv_error"], case=case))
        elif o != snap:
            mism += 1
            if mism <= 6:
                diff = [x for x in snap if snap[x] != o.get(x)]
                broken.append(Broken("correspondence", "c17.run/history",
                                     f"reader={reader}: state after the feed of document {k + 1} of {n} differs from the model's NEW parser "
                                     f"fed with the same calls; fields differing: {diff}", case=dict(case, reader=reader)))
    ctx.coverage["history_feed_mismatches"] = mism
    bouts = ctx.drive(book_reqs)
    bad = 0
    for (reader, chs, evs, snaps, case), o in zip(book_meta, bouts):
        ctx.count("history/spec")
        if "drv_error" in o:
            broken.append(Broken("correspondence", "driver", o["drv_error"], case=case))
            continue
        problems = []
        for i, (c, sp) in enumerate(zip(chs, o["spec"])):
            if not (sp["ok"] and sp["ok_html"] and sp["ok_epub"]):
                problems.append(f"document {i + 1}: generated chapter is not SpecChapterOk / ChapterOk")
            nd = sp["n_doc_events"]
            real = _merge(evs[i])
            want_prefix = _merge(sp["events"][:nd])
            if real[:len(want_prefix)] != want_prefix:
                problems.append(f"document {i + 1}: HTMLParser calls differ from the Spec events of the part before the tail")
            elif c["tail"] is not None and (len(real) <= len(want_prefix) or real[len(want_prefix)][:2] != ["s", c["tail"][1]]):
                problems.append(f"document {i + 1}: HTMLParser did not deliver the start tag of the unclosed element")
            if sp["visible"] != [it[1] for it in _merge_text_items(c["doc"]) if it[0] == "text"]:
                problems.append(f"document {i + 1}: visibleData differs")
            got = {k2: v for k2, v in snaps[i].items() if k2 != "trace"}
            if got != o["want"][i]:
                which = "what ONE reused parser would hold" if got == o["reuse"][i] and o["reuse"][i] != o["fresh"][i] else "neither"
                dk = [k2 for k2 in got if got[k2] != o["want"][i].get(k2)]
                problems.append(f"document {i + 1}: class-specific state after the real feed differs from C17_book's right-hand side "
                                f"(visible items before the unclosed tail fed to a new parser) in {dk} [{which}]: "
                                f"{json.dumps(got[dk[0]])[-300:]} vs {json.dumps(o['want'][i].get(dk[0]))[-300:]}")
            if o["fresh"][i] != o["want"][i]:
                problems.append(f"document {i + 1}: model readBook differs from C17_book's right-hand side")
        if problems:
            bad += 1
            if bad <= 4:
                broken.append(Broken("correspondence", "c17.book", f"reader={reader}: " + "; ".join(problems[:4]), case=dict(case, reader=reader)))
    ctx.coverage["history_spec_mismatches"] = bad
    ctx.coverage["history_lifecycle_mismatches"] = life_bad
    # (E) the property itself on histories, all four paths
    seen_keys = set()
    for hi, chs in enumerate(hists[:ctx.n(40, 600)]):
        case = history_case(chs)
        for path in PATHS if hi % 2 == 0 else ("epub", "html"):
            ctx.case(("e2e-history", path, json.dumps([d["html"] for d in case["history"]])))
            ctx.count(f"e2e-history/{path}")
            for kind, what in oracle_history(path, case["history"]):
                key = f"{path}.history.{kind}"
                if key in seen_keys:
                    continue
                seen_keys.add(key)
                violations.append(_confirm_history(path, kind, what, case["history"]) if kind != "raised"
                                  else _hist_violation(path, kind, what, case["history"]))
    violations[:] = _drop_explained(violations)

# ----------------------------------------------------------------------------- search / replay
def search(ctx, broken):
    """Property oracle on the real code: committed witnesses, the documents of broken cases, fresh token documents."""
    found = {}

    def note(vs):
        for v in vs:
            found.setdefault(v.key, v)

    note(known_witnesses(ctx))
    for b in broken:
        c = b.case or {}
        if "html" in c and "visible" in c:
            note(_violations_for(c))
        if "history" in c:
            note(_history_violations(c["history"]))
    rng = ctx.rng
    for i in range(ctx.n(60, 1200)):
        hist = history_case(gen_history(rng))["history"]
        for path in PATHS if i % 3 == 0 else ("epub", "html"):
            for kind, what in oracle_history(path, hist):
                if f"{path}.history.{kind}" not in found:
                    v = _confirm_history(path, kind, what, hist) if kind != "raised" else _hist_violation(path, kind, what, hist)
                    found[v.key] = v
        if any(".history." in k for k in found) and i >= 20:
            break
    for i in range(ctx.n(400, 6000)):
        items, tk = gen_doc(rng, p_hidden=rng.choice((0.3, 0.6)), blocks=rng.choice((1, 2, 3)), full=rng.random() < 0.3)
        case = doc_case(items, tk)
        for path in ("html", "epub") if i % 4 else PATHS:
            c = case
            if path == "msg":
                c = dict(case, html="<html><body>" + case["html"] + "</body></html>", stripped="<html><body>" + case["stripped"] + "</body></html>")
            for kind, what in oracle(path, c["html"], c["visible"], c["hidden"], c["stripped"]):
                key = f"{path}.{kind}"
                if key in found and len(found[key].replay.get("html", "")) <= 200:
                    continue
                v = _report(path, kind, what, items, tk, c)
                if key not in found or len(v.replay["html"]) < len(found[key].replay.get("html", "")):
                    found[key] = v
        if len(found) >= 6 and i > 150:
            break
    for i in range(ctx.n(300, 4000)):
        items, tk = gen_xhtml_doc(rng, p_hidden=rng.choice((0.3, 0.6)), blocks=rng.choice((1, 2, 3)))
        case = doc_case(items, tk)
        for path in ("html", "epub") if i % 4 else PATHS:
            for kind, what in oracle(path, case["html"], case["visible"], case["hidden"], case["stripped"]):
                key = f"{path}.{kind}"
                if key in found and len(found[key].replay.get("html", "")) <= 400:
                    continue
                v = _report(path, kind, what + " [well-formed XHTML rendition]", items, tk, case)
                if key not in found or "html" not in found[key].replay or len(v.replay["html"]) < len(found[key].replay["html"]):
                    found[key] = v
        if i > 100 and any(len(v.replay.get("html", "")) <= 400 for v in found.values()):
            break
    return _drop_explained(list(found.values()))


def replay(ctx, payload):
    rep = payload.get("replay", {})
    if "history" in rep:
        paths = [rep["path"]] if rep.get("path") in PATHS else list(PATHS)
        fs = []
        for p in paths:
            fs += oracle_history(p, rep["history"])
        return (not fs), "; ".join(w for _, w in fs) or f"property holds on the recorded history of {len(rep['history'])} documents ({', '.join(paths)})"
    if "html" not in rep:
        return False, "replay names a broken obligation, not an input: " + payload.get("what", "")
    paths = [rep["path"]] if rep.get("path") in PATHS else list(PATHS)
    fs = []
    for p in paths:
        fs += oracle(p, rep["html"], rep.get("visible", []), rep.get("hidden", []), rep.get("stripped"))
    return (not fs), "; ".join(w for _, w in fs) or f"property holds on the recorded input ({', '.join(paths)})"
