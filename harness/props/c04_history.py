"""C04 helper: process histories.

The property quantifies over every call: the metadata of a result is derived from the path argument of THAT call
(and the host as it is then).  A single call per case cannot see state carried from one call to the next (a
memoised folder lookup, a metadata object shared between results, a working directory remembered at import time).
A history is a list of operations executed in ONE process inside a fresh directory:

  ["mkdir", rel] ["write", rel, text] ["rm", rel] ["rmtree", rel] ["symlink", target_rel, link_rel] ["chdir", rel]
  ["meta", pathspec]                    FileMetadataInterface().populate_from_path(path)
  ["extract", pathspec, name, text]     get_extractor(name)(BytesIO(text), path)
  ["read_file", pathspec]               sharepoint2text.read_file(path)      (the library opens the file itself)

pathspec: null | ["rel", s] (given as is: relative to the working directory of that moment) | ["abs", s] (root/s).
After every call the property oracle (c04_oracle) judges the result against the file system AS IT IS THEN; at the
end every earlier result must still report what it reported when it was yielded.
"""
from __future__ import annotations

import io
import os
import shutil
import tempfile
from pathlib import PurePosixPath

from props import c04_oracle as O

CALLS = ("meta", "extract", "read_file")


def _host(sp):
    try:
        return os.path.realpath(sp) if os.path.exists(sp) else None
    except (OSError, ValueError):
        return None


def _exists(p):
    try:
        return p is not None and os.path.exists(p)
    except (OSError, ValueError):
        return False


def _resolve(spec, root):
    if spec is None:
        return None
    kind, s = spec
    return s if kind == "rel" else (root + "/" + s if s else root)


def _fields(md):
    return {"filename": getattr(md, "filename", "<missing>"), "file_extension": getattr(md, "file_extension", "<missing>"),
            "file_path": getattr(md, "file_path", "<missing>"), "folder_path": getattr(md, "folder_path", "<missing>")}


def execute(ops):
    """run a history in a fresh directory -> [step dict]; a step of a call op has
    {"i", "op", "path", "fields" (of the first result / the metadata object), "host_file", "host_folder", "findings": [(key, what)]}"""
    from sharepoint2text.parsing.extractors import data_types as dt
    from sharepoint2text.parsing import router
    import sharepoint2text
    start = os.getcwd()
    root = os.path.realpath(tempfile.mkdtemp(prefix="s2t_c04h_"))
    steps, kept = [], []
    try:
        os.chdir(root)
        for i, op in enumerate(ops):
            k = op[0]
            if k == "mkdir":
                os.makedirs(os.path.join(root, op[1]), exist_ok=True)
            elif k == "write":
                p = os.path.join(root, op[1])
                os.makedirs(os.path.dirname(p), exist_ok=True)
                with open(p, "w", encoding="utf-8") as fh:
                    fh.write(op[2])
            elif k == "rm":
                try:
                    os.unlink(os.path.join(root, op[1]))
                except OSError:
                    pass
            elif k == "rmtree":
                shutil.rmtree(os.path.join(root, op[1]), ignore_errors=True)
            elif k == "symlink":
                link = os.path.join(root, op[2])
                if os.path.islink(link):
                    os.unlink(link)
                os.symlink(os.path.join(root, op[1]), link)
            elif k == "chdir":
                os.chdir(os.path.join(root, op[1]) if op[1] else root)
            elif k in CALLS:
                path = _resolve(op[1], root)
                step = {"i": i, "op": k, "path": path, "spec": op[1], "findings": [], "fields": None,
                        "host_file": None, "host_folder": None}
                if path is not None:
                    pp = PurePosixPath(path)
                    step["host_file"], step["host_folder"] = _host(str(pp)), _host(str(pp.parent))
                try:
                    if k == "meta":
                        m = dt.FileMetadataInterface()
                        m.populate_from_path(path)
                        w = O.Walk(path)
                        w.path_fields("FileMetadataInterface", m)
                        step["findings"] = list(w.out)
                        step["fields"] = _fields(m)
                        kept.append((i, m, _fields(m)))
                    else:
                        if k == "extract":
                            fn = router.get_extractor(op[2])
                            results = list(fn(io.BytesIO(op[3].encode("utf-8")), path))
                        else:
                            results = list(sharepoint2text.read_file(path))
                        if not results:
                            step["findings"].append((f"history-no-result:{k}", f"{k}({path!r}) yielded nothing"))
                        for r in results[:5]:
                            step["findings"] += [f for f in O.walk(r, path) if f not in step["findings"]]
                            md = r.get_metadata()
                            if step["fields"] is None:
                                step["fields"] = _fields(md)
                            kept.append((i, md, _fields(md)))
                except Exception as e:  # noqa: BLE001
                    import corpus
                    if isinstance(e, corpus.family()):
                        step["status"] = "rejected:" + type(e).__name__          # a documented refusal: not this property's business
                    elif k == "read_file" and isinstance(e, OSError) and not _exists(path):
                        step["status"] = "no-such-file"                          # documented: FileNotFoundError for a missing file
                    else:   # same rule as for single extractions: an undocumented exception instead of a result
                        step["findings"].append((f"history-raises:{k}", f"{k}({path!r}) raised {type(e).__name__}: {str(e)[:120]}"))
                steps.append(step)
            else:
                raise ValueError("unknown history op " + repr(op))
        # earlier results are not changed by later calls
        for i, md, was in kept:
            now = _fields(md)
            if now != was:
                for s in steps:
                    if s["i"] == i:
                        s["findings"].append(("history-result-changed", f"the metadata yielded at step {i} reported {was} and, after later calls, reports {now}"))
    finally:
        os.chdir(start)
        shutil.rmtree(root, ignore_errors=True)
    # findings mention the temporary root: make messages stable
    for s in steps:
        s["findings"] = [(k, w.replace(root, "$ROOT")) for k, w in s["findings"]]
        s["root"] = root
    return steps


# ----------------------------------------------------------------------------- generators
_DOCS = {"txt": "hello\n", "md": "# t\n\nbody\n", "csv": "a,b\n1,2\n", "html": "<html><head><title>T</title></head><body><p>b</p></body></html>",
         "json": "{\"a\": 1}\n", "rtf": "{\\rtf1 hi}"}


def _call(kind, spec, ext="txt", exists=True):
    if kind == "meta":
        return ["meta", spec]
    if kind == "read_file" and exists and spec is not None:
        return ["read_file", spec]
    return ["extract", spec, "doc." + ext, _DOCS[ext]]


def scenarios(u, kind, ext="txt"):
    """the fixed histories, with names made unique by the token `u` (a parent string is never shared between two
    histories of a run, so a history fails or holds on its own — also when replayed alone in a fresh process)"""
    d, f = u + "data", "r." + ext
    body = _DOCS[ext]
    S = []
    # 1. the same relative path below two working directories
    S.append(("chdir-same-relative-path", [
        ["write", f"first/{d}/{f}", body], ["write", f"second/{d}/{f}", body],
        ["chdir", "first"], _call(kind, ["rel", f"{d}/{f}"], ext), ["chdir", "second"], _call(kind, ["rel", f"{d}/{f}"], ext),
        ["chdir", "first"], _call(kind, ["rel", f"{d}/{f}"], ext)]))
    # 2. a bare file name (parent string "."), two working directories
    S.append(("chdir-bare-name", [
        ["write", f"{u}one/{f}", body], ["write", f"{u}two/{f}", body],
        ["chdir", f"{u}one"], _call(kind, ["rel", f], ext), ["chdir", f"{u}two"], _call(kind, ["rel", f], ext)]))
    # 3. a path that does not exist at the first call and exists at the second (relative and absolute)
    for form in ("rel", "abs"):
        S.append((f"appears-{form}", [
            ["chdir", ""], _call(kind, [form, f"{u}in{form}/{f}"], ext, exists=False), ["write", f"{u}in{form}/{f}", body],
            _call(kind, [form, f"{u}in{form}/{f}"], ext)]))
    # 4. … exists, then is gone
        S.append((f"disappears-{form}", [
            ["chdir", ""], ["write", f"{u}out{form}/{f}", body], _call(kind, [form, f"{u}out{form}/{f}"], ext),
            ["rmtree", f"{u}out{form}"], _call(kind, [form, f"{u}out{form}/{f}"], ext, exists=False)]))
    # 5. a symlinked folder that is re-targeted between two calls
    S.append(("symlink-retargeted", [
        ["write", f"{u}A/{f}", body], ["write", f"{u}B/{f}", body], ["symlink", f"{u}A", f"{u}L"], _call(kind, ["abs", f"{u}L/{f}"], ext),
        ["symlink", f"{u}B", f"{u}L"], _call(kind, ["abs", f"{u}L/{f}"], ext)]))
    # 6. a path, then no path, then the path again (nothing of the first call may show in the second)
    S.append(("path-none-path", [
        ["write", f"{u}p/{f}", body], _call(kind, ["abs", f"{u}p/{f}"], ext), _call("extract" if kind != "meta" else "meta", None, ext),
        _call(kind, ["abs", f"{u}p/{f}"], ext), _call("extract" if kind != "meta" else "meta", None, ext)]))
    # 7. two files of one folder; the same name in two folders; an archive!/member form behind an existing file
    S.append(("siblings", [
        ["write", f"{u}s/a.{ext}", body], ["write", f"{u}s/b.{ext}", body], ["write", f"{u}t/a.{ext}", body],
        _call(kind, ["abs", f"{u}s/a.{ext}"], ext), _call(kind, ["abs", f"{u}s/b.{ext}"], ext), _call(kind, ["abs", f"{u}t/a.{ext}"], ext),
        _call(kind, ["abs", f"{u}s/a.{ext}!/in/m.{ext}"], ext, exists=False), _call(kind, ["rel", f"{u}s/a.{ext}"], ext),
        ["chdir", f"{u}t"], _call(kind, ["rel", f"a.{ext}"], ext), _call(kind, ["rel", f"../{u}s/b.{ext}"], ext)]))
    # 8. a folder that is first a directory, then a symlink to another directory of the same name elsewhere
    S.append(("dir-becomes-link", [
        ["write", f"{u}x/{d}/{f}", body], ["write", f"{u}y/{d}/{f}", body], ["chdir", f"{u}x"], _call(kind, ["rel", f"{d}/{f}"], ext),
        ["rmtree", f"{u}x/{d}"], ["symlink", f"{u}y/{d}", f"{u}x/{d}"], _call(kind, ["rel", f"{d}/{f}"], ext)]))
    return S


def random_history(rng, u, n_ops=14):
    """random walk over a small name space: directories, files, links, working directory, calls of all three kinds"""
    dirs = [f"{u}a", f"{u}b", f"{u}a/sub", f"{u}b/sub"]
    names = ["r.txt", "n.html", "t.csv"]
    ops = [["mkdir", dirs[0]], ["mkdir", dirs[1]]]
    existing_dirs, files, cwd = {dirs[0], dirs[1]}, set(), ""
    for _ in range(n_ops):
        r = rng.random()
        if r < 0.2:
            dd, nm = rng.choice(dirs), rng.choice(names)
            ops.append(["write", f"{dd}/{nm}", _DOCS[nm.rsplit(".", 1)[1]]])
            files.add(f"{dd}/{nm}")
            existing_dirs.add(dd)
            if "/" in dd:
                existing_dirs.add(dd.split("/")[0])
        elif r < 0.27 and files:
            x = rng.choice(sorted(files))
            ops.append(["rm", x])
            files.discard(x)
        elif r < 0.37:
            cand = sorted(existing_dirs) + [""]
            cwd = rng.choice(cand)
            ops.append(["chdir", cwd])
        elif r < 0.45:
            tgt = rng.choice(sorted(existing_dirs))
            ops.append(["symlink", tgt, f"{u}link"])
        else:
            dd, nm = rng.choice(dirs + [f"{u}link"]), rng.choice(names)
            ext = nm.rsplit(".", 1)[1]
            q = rng.random()
            if q < 0.15:
                spec = None
            elif q < 0.55:
                spec = ["abs", f"{dd}/{nm}"]
            else:
                # relative to the current working directory: a path below it, or a bare name
                if cwd and dd.startswith(cwd + "/"):
                    spec = ["rel", dd[len(cwd) + 1:] + "/" + nm]
                elif cwd == dd:
                    spec = ["rel", nm]
                elif not cwd:
                    spec = ["rel", f"{dd}/{nm}"]
                else:
                    spec = ["rel", ("../" * (cwd.count("/") + 1)) + f"{dd}/{nm}"]
            kind = rng.choice(CALLS)
            exists = f"{dd}/{nm}" in files and rng.random() < 0.9
            ops.append(_call(kind, spec, ext, exists=exists and kind == "read_file"))
    return ops
