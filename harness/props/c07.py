"""C07 — routing.  Correspondence of S2T.Model.Router with router.is_supported_file /
get_extractor / read_file dispatch, over path strings x mimetypes configurations."""
from __future__ import annotations

import importlib
import mimetypes
import os
import tempfile

from run import Broken, Violation

GEN = ["Router", "PyRouter"]
RULE = ("paths = stem x '.' x extension x case variant (+ compound, dot-only, URL-like, unicode stems), "
        "extensions drawn from router tables, README, mimetypes.types_map; x mimetypes configs "
        "(default / emptied / hostile add_type). distinct = distinct (lowered path, mime answer) pairs; "
        "non-trivial = path has an extension or a MIME answer; mime-only = data: URLs (the MIME answer comes from the string, often without any dot)")
ASSUMPTIONS = [
    "str.lower() is CPython's; the model receives the lowered path",
    "mimetypes.guess_type is a parameter of the model (any answer allowed in the theorems); it must not raise",
    "posixpath.splitext is modelled (stdlib, not verified) and tied by this correspondence",
    "importlib.import_module succeeds for registry entries (checked for every registry entry each run)",
]
TRUSTED = ["model of posixpath.splitext / str.endswith / dict lookup in S2T/Model/Router.lean"]


def _impl(path: str):
    """(is_supported, 'module:function' | 'ERR:<class>') of the real router."""
    from sharepoint2text.parsing import router
    from sharepoint2text.parsing.exceptions import ExtractionFileFormatNotSupportedError
    try:
        sup = bool(router.is_supported_file(path))
    except Exception as e:  # property says nothing else may be raised
        sup = f"RAISED:{type(e).__name__}"
    try:
        f = router.get_extractor(path)
        ext = f"{f.__module__}:{f.__name__}"
    except ExtractionFileFormatNotSupportedError:
        ext = "ERR:formatNotSupported"
    except Exception as e:
        ext = f"ERR:{type(e).__name__}"
    return sup, ext


def _stems(rng):
    base = ["a", "report", "my file", "dir/file", "/abs/path/x", "a.b", "a.tar", "x.v1.2", ".hidden", "..", ".",
            "", "dir.d/", "dir.d/name", "http://host/x", "http://[x", "C:\\dir\\f", "ünï", "a/.b", "a/..b",
            "x.", "..x", "a b.c d", "tar", ".tar", "x.TAR", "q?x=1", "#frag", "a\n", "\u0130stanbul", "ǅ", "ß.x"]
    alphabet = "ab./ .\\Tİ-_"
    for _ in range(40):
        base.append("".join(rng.choice(alphabet) for _ in range(rng.randint(0, 8))))
    return base


# characters related to ASCII letters by some Unicode case operation other than str.lower() on ASCII: the statement fixes
# "lower-cased", so an extension spelt with them is known exactly when its str.lower() is (casefold / upper / NFKC differ)
_LOOKALIKE = {"s": ["\u017f"], "k": ["\u212a"], "i": ["\u0130", "\u0131"], "ss": ["\u00df"], "fi": ["\ufb01"], "fl": ["\ufb02"],
              "st": ["\ufb06", "\ufb05"], "a": ["\uff41", "\uff21", "\u00aa"], "x": ["\uff58", "\u2179"], "m": ["\u217f", "\uff4d"],
              "d": ["\u217e", "\uff44"], "c": ["\u217d"], "l": ["\u217c"], "o": ["\u00ba"], "t": ["\uff54"], "p": ["\uff50"]}


def _lookalike_variants(ext):
    out = []
    for pat, subs in _LOOKALIKE.items():
        i = ext.find(pat)
        while i >= 0:
            out += [ext[:i] + c + ext[i + len(pat):] for c in subs]
            i = ext.find(pat, i + 1)
    return out


def _case_variants(rng, ext):
    vs = {ext, ext.upper(), ext.capitalize()}
    vs.add("".join(c.upper() if rng.random() < 0.5 else c for c in ext))
    return sorted(vs)


def _extensions():
    from sharepoint2text.parsing import router
    exts = set(router._EXTRACTOR_REGISTRY) | set(router._EXTENSION_ALIASES)
    exts |= {e.lstrip(".") for e in router._COMPOUND_EXTENSIONS}
    exts |= {e.lstrip(".") for e in router._SUPPORTED_EXTENSIONS}
    known = set(exts)
    mt = {e.lstrip(".") for e in mimetypes.types_map} | {e.lstrip(".") for e in mimetypes.common_types}
    mt |= {e.lstrip(".") for e in mimetypes.suffix_map} | {e.lstrip(".") for e in mimetypes.encodings_map}
    other = {"", "exe", "docx2", "xdocx", "tar.gz.bak", "gz.tar", "tar.zip", "d0c", "taz", "tz", "svgz", "Z", "br",
             "xhtml", "xht", "text", "markdown", "eml.txt", "txt.eml", "7Z", "mbox.gz", "tar.GZ"}
    return sorted(known), sorted(mt - known), sorted(other - known)


class _MimeConfig:
    """Context manager installing a mimetypes configuration and restoring the default afterwards."""

    def __init__(self, kind, rng):
        self.kind, self.rng = kind, rng

    def __enter__(self):
        mimetypes.init()
        if self.kind == "empty":
            for d in (mimetypes.types_map, mimetypes.common_types, mimetypes.suffix_map, mimetypes.encodings_map):
                d.clear()
            db = mimetypes._db
            for d in (*db.types_map, *db.types_map_inv):
                d.clear()
            db.suffix_map.clear()
            db.encodings_map.clear()
        elif self.kind == "hostile":
            from sharepoint2text.parsing.mime_types import MIME_TYPE_MAPPING
            from sharepoint2text.parsing import router
            vals = sorted(MIME_TYPE_MAPPING)
            exts = sorted(set(router._EXTRACTOR_REGISTRY) | set(router._EXTENSION_ALIASES) | {"exe", "xyz", "bak", "", "zz"})
            for e in exts:
                mimetypes.add_type(self.rng.choice(vals + ["application/x-unknown", ""]), "." + e, strict=True)
        return self

    def __exit__(self, *a):
        mimetypes._default_mime_types() if hasattr(mimetypes, "_default_mime_types") else None
        mimetypes._db = None
        mimetypes.inited = False
        mimetypes.init()
        return False


def _paths(ctx):
    rng = ctx.rng
    known, mt, other = _extensions()
    stems = _stems(rng)
    paths = []
    k_stem = ctx.n(6, 30)
    for group, exts, per in (("known-ext", known, k_stem), ("mimetypes-ext", mt, ctx.n(1, 4)), ("other-ext", other, ctx.n(3, 10))):
        for e in exts:
            for v in _case_variants(rng, e):
                for s in rng.sample(stems, min(per, len(stems))):
                    paths.append((group, s + "." + v))
    for e in known:
        for v in _lookalike_variants(e):
            for s in rng.sample(stems, 2) + ["x"]:
                paths.append(("lookalike-ext", s + "." + v))
                paths.append(("lookalike-ext", s + "." + v.upper()))
    # URL-like and plain paths whose known extension is followed by a query / fragment / parameter: the trailing
    # extension of the path STRING decides ('plan.docx?web=1' ends in 'docx?web=1'), whatever a URL parser would say
    for e in known:
        for pre in ("https://contoso.sharepoint.com/sites/x/Shared%20Documents/Plan", "file:///srv/share/Deck", "dir/plain", "http://h/a.b/c"):
            for deco in rng.sample(["?web=1", "#slide=3", "?download=1&f=.pdf", ";v=2", "?", "#", "?x=.txt", "#a.docx"], 3):
                paths.append(("url-decorated", pre + "." + rng.choice(_case_variants(rng, e)) + deco))
    for s in stems:
        paths.append(("no-ext", s))
    # path strings whose MIME answer comes from the string itself, not from an extension: mimetypes.guess_type reads the
    # media type out of a `data:` URL.  Many of them contain no '.' at all, so the MIME fallback of BOTH entry points is
    # the only thing that can decide them (a shortcut for dot-less names in one of the two is invisible elsewhere).
    from sharepoint2text.parsing.mime_types import MIME_TYPE_MAPPING
    for m in sorted(MIME_TYPE_MAPPING) + ["application/x-unknown", "text/x-nothing", "", "plain"]:
        for form in ("data:{m};base64,QUJD", "data:{m},abc", "DATA:{M},x", "data:{m};charset=utf-8,a%20b", "data:{m},a.b",
                     "data:{m};base64,QUJD.docx", "data:{m}", "Data:{m},"):
            paths.append(("mime-only", form.format(m=m, M=m.upper())))
    return paths


def correspondence(ctx):
    broken, violations = [], []
    from sharepoint2text.parsing import router
    # every registry entry must be importable and name a callable (assumption of the model's `_get_extractor`)
    for ft, (modname, fn) in router._EXTRACTOR_REGISTRY.items():
        try:
            f = getattr(importlib.import_module(modname), fn)
            assert callable(f)
        except Exception as e:
            broken.append(Broken("correspondence", f"registry-import:{ft}", repr(e), case={"file_type": ft}))
    paths = _paths(ctx)
    total_mismatch = 0
    for cfg in ("default", "empty", "hostile"):
        with _MimeConfig(cfg, ctx.rng):
            reqs, impls = [], []
            for group, p in paths:
                pl = p.lower()
                try:
                    mime = mimetypes.guess_type(pl)[0]
                except Exception as e:
                    broken.append(Broken("correspondence", "guess_type-raises", repr(e), case={"path": p, "cfg": cfg}))
                    continue
                try:
                    json_ok = pl.encode("utf-8") is not None
                except UnicodeEncodeError:
                    continue
                reqs.append({"op": "c07.route", "pl": pl, "mime": mime})
                impls.append((group, p, mime, _impl(p)))
            outs = ctx.drive(reqs)
        for (group, p, mime, (sup, ext)), o in zip(impls, outs):
            ctx.case((p.lower(), mime), nontrivial=("." in p or mime is not None))
            ctx.count(f"{cfg}/{group}/" + ("routed" if not ext.startswith("ERR") else "unsupported") + ("/by-mime" if o.get("ft") is None and not ext.startswith("ERR") else ""))
            if "drv_error" in o:
                broken.append(Broken("correspondence", "driver", o["drv_error"], case={"path": p}))
                continue
            if o["sup"] != sup or o["ext"] != ext:
                total_mismatch += 1
                if total_mismatch <= 20:
                    broken.append(Broken("correspondence", "c07.route", f"impl=({sup},{ext}) model=({o['sup']},{o['ext']})",
                                         case={"path": p, "mime": mime, "cfg": cfg}))
        ctx.sample({"cfg": cfg, "path": impls[len(impls) // 3][1], "mime": impls[len(impls) // 3][2], "impl": list(impls[len(impls) // 3][3]), "model": outs[len(impls) // 3]})
    # history: the same small batch of paths under a changing mimetypes configuration (a memoised
    # decision would go stale here although every single-configuration sweep agrees)
    rng = ctx.rng
    pool = [p for g, p in paths if g != "known-ext"] + [p for g, p in paths if g == "known-ext"][:200]
    rng.shuffle(pool)
    nb = ctx.n(12, 80)
    for bi in range(nb):
        batch = pool[bi * 40:(bi + 1) * 40]
        if not batch:
            break
        for cfg in ("default", "hostile", "empty", "default", "hostile"):
            with _MimeConfig(cfg, rng):
                reqs, impls = [], []
                for p in batch:
                    pl = p.lower()
                    try:
                        pl.encode("utf-8")
                        mime = mimetypes.guess_type(pl)[0]
                    except Exception:
                        continue
                    reqs.append({"op": "c07.route", "pl": pl, "mime": mime})
                    impls.append((p, mime, _impl(p), _impl(p.upper()) if p.upper().lower() == pl else None))
                outs = ctx.drive(reqs)
            for (p, mime, (sup, ext), up), o in zip(impls, outs):
                ctx.case(("hist", bi, cfg, p.lower(), mime))
                ctx.count(f"history/{cfg}/" + ("routed" if not ext.startswith("ERR") else "unsupported"))
                bad = o.get("sup") != sup or o.get("ext") != ext or (up is not None and up != (sup, ext))
                if bad:
                    total_mismatch += 1
                    if total_mismatch <= 20:
                        broken.append(Broken("correspondence", "c07.route-history", f"impl=({sup},{ext}) upper={up} model=({o.get('sup')},{o.get('ext')})",
                                             case={"path": p, "mime": mime, "cfg": cfg, "history": True}))
    # the documented extensions (README rows) under every configuration: judged on the real code on every run
    violations += _documented_violations(ctx)
    # read_file dispatches to the same extractor (stubs installed in the extractor modules)
    broken += _read_file_dispatch(ctx)
    ctx.coverage["mismatches"] = total_mismatch
    return {"broken": broken, "violations": violations}


class _Stubs:
    """replace every registered extractor function by a stub recording its registry identity"""

    def __init__(self):
        self.called = []
        self.saved = []

    def __enter__(self):
        from sharepoint2text.parsing import router
        for ft, (modname, fn) in router._EXTRACTOR_REGISTRY.items():
            mod = importlib.import_module(modname)
            orig = getattr(mod, fn)
            if any(m is mod and n == fn for m, n, _ in self.saved):
                continue
            self.saved.append((mod, fn, orig))

            def mk(tag):
                def stub(file_like, path=None):
                    self.called.append(tag)
                    return iter(())
                stub._s2t_tag = tag
                return stub
            setattr(mod, fn, mk(f"{modname}:{fn}"))
        return self

    def __exit__(self, *a):
        for mod, fn, orig in self.saved:
            setattr(mod, fn, orig)
        return False


def _read_file_names(ctx):
    """(given name, symlink target name or None): plain files, and links whose target has another / no extension"""
    known, mt, other = _extensions()
    names = []
    for e in known + ctx.rng.sample(mt, min(len(mt), ctx.n(20, 200))) + other:
        for v in _case_variants(ctx.rng, e)[: ctx.n(2, 4)]:
            for s in ("f", "a.b", "x.tar", ".h", "my file"):
                names.append((s + "." + v, None))
    names += [(n, None) for n in ("noext", ".docx", "..pdf", "x.")]
    exts = ctx.rng.sample(known, min(len(known), ctx.n(8, 30))) + ["bin", "zzz"]
    for i, a in enumerate(exts):
        for b in (ctx.rng.choice(known), "zzz", None):
            if a == b:
                continue
            names.append((f"link{i}.{a}", "objects/%04x" % i if b is None else f"objects/t{i}.{b}"))
            names.append((f"plain{i}", f"objects/u{i}.{a}"))          # extension-less link to a supported file
    # the extension decides whatever the bytes look like: every routed extension with content of other formats
    kinds = [k for k in _CONTENTS if k != "x"]
    for e in known + ["bin", "zzz"]:
        for k in kinds:
            names.append((f"c_{k}.{e}", None, k))
    return names


_CONTENTS = {
    "x": b"x",
    "rtf": b"{\\rtf1\\ansi hello\\par}",
    "zip": b"PK\x03\x04" + b"\x14\x00" * 13,
    "ole": b"\xd0\xcf\x11\xe0\xa1\xb1\x1a\xe1" + b"\x00" * 504,
    "pdf": b"%PDF-1.4\n%%EOF\n",
    "html": b"<!DOCTYPE html><html><body><p>x</p></body></html>",
    "7z": b"7z\xbc\xaf\x27\x1c\x00\x04" + b"\x00" * 24,
    "gz": b"\x1f\x8b\x08\x00" + b"\x00" * 16,
    "mbox": b"From a@b Thu Jan  1 00:00:00 1970\nSubject: x\n\nbody\n",
    "eml": b"Subject: x\nFrom: a@b\n\nbody\n",
    "empty": b"",
}


def _read_file_one(stubs, td, nm, target, content="x"):
    """-> (path string handed to read_file, what read_file did, what get_extractor(path) says) with stubs installed"""
    import sharepoint2text
    from sharepoint2text.parsing import router
    from sharepoint2text.parsing.exceptions import ExtractionFileFormatNotSupportedError
    fp = os.path.join(td, nm)
    try:
        data = _CONTENTS.get(content, b"x")
        if target is None:
            with open(fp, "wb") as fh:
                fh.write(data)
        else:
            tp = os.path.join(td, target)
            os.makedirs(os.path.dirname(tp), exist_ok=True)
            with open(tp, "wb") as fh:
                fh.write(data)
            if os.path.lexists(fp):
                os.unlink(fp)
            os.symlink(tp, fp)
    except OSError:
        return None
    stubs.called.clear()
    try:
        list(sharepoint2text.read_file(fp))
        got = stubs.called[0] if stubs.called else "NO-EXTRACTOR-CALLED"
    except ExtractionFileFormatNotSupportedError:
        got = "ERR:formatNotSupported"
    except Exception as e:
        got = f"ERR:{type(e).__name__}"
    try:
        want = getattr(router.get_extractor(fp), "_s2t_tag", "NOT-A-REGISTERED-EXTRACTOR")
    except ExtractionFileFormatNotSupportedError:
        want = "ERR:formatNotSupported"
    except Exception as e:
        want = f"ERR:{type(e).__name__}"
    return fp, got, want


def _read_file_dispatch(ctx):
    broken = []
    with _Stubs() as stubs:
        with tempfile.TemporaryDirectory(prefix="s2t_c07_") as td:
            reqs, exp = [], []
            for item in _read_file_names(ctx):
                nm, target, content = (tuple(item) + ("x",))[:3]
                if "/" in nm or "\x00" in nm or len(nm.encode("utf-8", "ignore")) > 200:
                    continue
                r = _read_file_one(stubs, td, nm, target, content)
                if r is None:
                    continue
                fp, got, _ = r
                pl = fp.lower()
                reqs.append({"op": "c07.route", "pl": pl, "mime": mimetypes.guess_type(pl)[0]})
                exp.append((nm, target, got, content))
            outs = ctx.drive(reqs)
            bad = 0
            for (nm, target, got, content), o in zip(exp, outs):
                ctx.case(("read_file", nm, target, content))
                ctx.count("read_file/" + ("link/" if target else ("content/" if content != "x" else "file/")) + ("routed" if not got.startswith("ERR") else "unsupported"))
                if o.get("ext") != got:
                    bad += 1
                    if bad <= 10:
                        broken.append(Broken("correspondence", "c07.read_file", f"impl={got} model={o.get('ext')}",
                                             case={"name": nm, "target": target, "content": content}))
    return broken


def _read_file_oracle(ctx, cases):
    """the property's last clause on the real code, independent of the Lean model: read_file(path) hands the file to
    the extractor get_extractor(path) returns (and raises format-not-supported exactly when get_extractor does)"""
    out = []
    with _Stubs() as stubs:
        with tempfile.TemporaryDirectory(prefix="s2t_c07_") as td:
            for item in cases:
                nm, target, content = (tuple(item) + ("x",))[:3]
                if "/" in nm or "\x00" in nm:
                    continue
                r = _read_file_one(stubs, td, nm, target, content)
                if r is None:
                    continue
                fp, got, want = r
                if got != want:
                    how = f"a symlink to {target!r}" if target else f"a regular file with {content} content"
                    out.append(Violation("read_file-dispatch", f"read_file({nm!r}) ({how}) -> {got}, get_extractor({nm!r}) -> {want}",
                                         {"name": nm, "target": target, "content": content}))
                    return out
    return out


# ----------------------------------------------------------------------------- oracle / search
def _oracle_violations(ctx, paths):
    """Ground truth of the property statement itself on the real code (independent of the Lean model)."""
    from sharepoint2text.parsing import router
    out = []
    reg = router._EXTRACTOR_REGISTRY
    ali = router._EXTENSION_ALIASES

    def add(key, what, rep):
        if not any(v.key == key for v in out):
            out.append(Violation(key, what, rep))

    for cfg in ("default", "empty", "hostile", "default", "hostile", "empty"):
        by_ext = {}
        with _MimeConfig(cfg, ctx.rng):
            for p in paths:
                sup, ext = _impl(p)
                if isinstance(sup, str):
                    add("is_supported-raises", f"is_supported_file({p!r}) raised {sup}", {"path": p, "cfg": cfg})
                    continue
                if ext.startswith("ERR:") and ext != "ERR:formatNotSupported":
                    add("get_extractor-other-error", f"get_extractor({p!r}) raised {ext}", {"path": p, "cfg": cfg})
                if sup != (not ext.startswith("ERR:")):
                    add("equiv", f"is_supported_file({p!r})={sup} but get_extractor -> {ext} (mimetypes={cfg})", {"path": p, "cfg": cfg})
                # case-insensitivity
                for q in (p.upper(), p.lower()):
                    if q.lower() == p.lower() and _impl(q) != (sup, ext):  # 'ſ'.upper() is 'S': not a case variant in the sense of str.lower()
                        add("case", f"routing of {p!r} and {q!r} differs", {"path": p, "variant": q, "cfg": cfg})
                by_ext.setdefault(p, (sup, ext))
        # extension decides: a known trailing extension gives the documented extractor under every config
        for p, (sup, ext) in by_ext.items():
            base = p.lower().rsplit("/", 1)[-1]
            if "." in base.strip(".") and base.rsplit(".", 1)[0].strip(".") != "":
                e = base.rsplit(".", 1)[1]
                t = ali.get(e, e)
                if t in reg:
                    want = f"{reg[t][0]}:{reg[t][1]}"
                    if ext != want:
                        add("ext-decides", f"{p!r} routed to {ext}, documented {want} (mimetypes={cfg})", {"path": p, "cfg": cfg})
    return out


def _readme_rows():
    """Rows of the README format tables (back-quoted extensions of the "Extension" column): the documented extensions,
    read here independently of tools/gen/router.py."""
    import os, re
    rows, on = [], False
    for line in open(os.path.join(ctx_repo(), "README.md"), encoding="utf-8").read().splitlines():
        cells = [c.strip() for c in line.strip().strip("|").split("|")]
        if line.startswith("|") and len(cells) >= 3 and cells[1] == "Extension":
            on = True
            continue
        if not line.startswith("|"):
            on = False
            continue
        if on and not set(cells[1]) <= set("-: "):
            exts = re.findall(r"`(\.[^`]+)`", cells[1])
            if exts:
                rows.append(exts)
    return rows


def ctx_repo():
    import os
    import sharepoint2text
    return os.path.dirname(os.path.dirname(os.path.abspath(sharepoint2text.__file__)))


def _documented_violations(ctx):
    """The statement on the documented extensions themselves: each is supported by its EXTENSION (under the default, an
    emptied and a hostile mimetypes configuration alike, in every case variant), the extensions documented in one row
    reach one extractor, and the extractor does not change with the configuration."""
    out, seen = [], {}
    rows = _readme_rows()
    for cfg in ("default", "empty", "hostile", "default"):
        with _MimeConfig(cfg, ctx.rng):
            for row in rows:
                got = {}
                for e in row:
                    for v in (e, e.upper(), e.capitalize()):
                        for stem in ("x", "Dir.d/My File", "backup"):
                            p = stem + v
                            sup, ext = _impl(p)
                            ctx.case(("documented", cfg, p))
                            if sup is not True or ext.startswith("ERR"):
                                if not any(x.key == "documented-ext-unsupported" for x in out):
                                    out.append(Violation("documented-ext-unsupported", f"{p!r}: documented extension {e} gives is_supported_file={sup}, get_extractor -> {ext} (mimetypes={cfg})", {"path": p, "cfg": cfg, "documented": True}))
                                continue
                            got.setdefault(ext, p)
                            if seen.setdefault(p, ext) != ext and not any(x.key == "documented-ext-mime-dependent" for x in out):
                                out.append(Violation("documented-ext-mime-dependent", f"{p!r} reaches {seen[p]} and {ext} under different mimetypes configurations", {"path": p, "cfg": cfg, "documented": True}))
                if len(got) > 1 and not any(x.key == "documented-row-differs" for x in out):
                    out.append(Violation("documented-row-differs", f"extensions documented together {row} reach different extractors {got} (mimetypes={cfg})", {"path": sorted(got.values())[0], "cfg": cfg, "documented": True}))
    return out


def search(ctx, broken):
    rf = [(b.case["name"], b.case.get("target"), b.case.get("content", "x")) for b in broken if b.case and "name" in b.case]
    if rf or any(b.name == "c07.read_file" for b in broken):
        vs = _read_file_oracle(ctx, rf + _read_file_names(ctx))
        if vs:
            return vs
    seeds = [b.case["path"] for b in broken if b.case and "path" in b.case]
    if seeds:  # small set first: history-dependent defects (memoisation) only show on a few paths revisited
        vs = _oracle_violations(ctx, seeds[:40])
        if vs:
            return vs
    vs = _documented_violations(ctx)
    if vs:
        return vs
    allp = sorted(_paths(ctx), key=lambda gp: 0 if gp[0] in ("lookalike-ext", "url-decorated") else 1)
    allp = [p for _, p in allp]
    for i in range(0, len(allp), 40):     # every generated path (the cap of 4000 cut off the later groups once new groups were put in front)
        vs = _oracle_violations(ctx, allp[i:i + 40])
        if vs:
            return vs
    return []


def replay(ctx, payload):
    rep = payload.get("replay", {})
    if "name" in rep:
        vs = _read_file_oracle(ctx, [(rep["name"], rep.get("target"), rep.get("content", "x"))])
        return (not vs), "; ".join(v.what for v in vs) or "read_file dispatches like get_extractor on the recorded name"
    if "path" not in rep:
        return False, "replay names a broken obligation, not an input: " + payload.get("what", "")
    if rep.get("documented"):
        vs = _documented_violations(ctx)
        return (not vs), "; ".join(v.what for v in vs) or "every documented extension is routed by its extension"
    vs = _oracle_violations(ctx, [rep["path"]])
    return (not vs), "; ".join(v.what for v in vs) or "property holds on the recorded path"
