"""C02 (part "ooxml") — main-text fidelity for DOCX, PPTX, XLSX, HTML, MHTML, EPUB.

correspondence : seed-derived abstract documents -> Lean (`c02ooxml.*` ops render them with the renderer the
                 theorems are about, run the model walkers and give the expected words) -> this module packages
                 the rendered XML into real containers, runs the REAL extractors end to end and compares
                 get_full_text() with the model text (exact string equality); plus a malformed stream (random
                 element trees / tag soup) through the real walkers vs. the model walkers.
search / oracle: the property statement itself on the real code, independent of the Lean model: a Python
                 reference linearisation of the abstract document gives the expected word sequence; the output
                 must have exactly those words (same multiplicity and order, boundaries kept), no excluded
                 token, and nothing else but documented decoration.
"""
from __future__ import annotations

import io
import json
import re

from run import Broken, Violation

GEN = ["Ooxml", "HtmlSkip"]
RULE = ("abstract documents (paragraphs of runs with tab/break, headings, nested lists and tables, hyperlinks, "
        "tracked insertions/deletions, inline and block content controls, text boxes, reference marks; slides of "
        "positioned placeholder/plain/table shapes with notes and comments; sheets of optional string cells) drawn "
        "from ctx.rng, every leaf a unique class-tagged token (sometimes two words, leading/trailing blank, "
        "XML-special or non-ASCII characters); each rendered to docx/pptx/xlsx/html/mhtml/epub; malformed stream = "
        "random element trees over the walkers' tag vocabulary, HTML tag soup and table markup with omitted end tags "
        "(rows inside cells, tables in cells). distinct = distinct (format, "
        "document) pairs; non-trivial = the document has at least two text leaves")
ASSUMPTIONS = [
    "zipfile / xml.etree / defusedxml deliver the parts and the element tree of the package (not modelled)",
    "html.parser.HTMLParser event sequence and _HtmlTreeBuilder's tree are taken from property C17's model (S2T.HtmlSkip); here they are exercised end to end only",
    "openpyxl returns the cell grid written by the builder (rows of equal length, None for empty cells); only string cells are generated",
    "email (MIME) decoding of the MHTML wrapper is stdlib behaviour; the HTML inside is the same as for .html",
    "formulas (m:oMath) are outside this part (property C19): the model returns no text for them and no generated document contains one",
    "comments / notes / headers / footers / speaker notes live in package parts the full-text path never opens: proved only in the sense that the modelled functions take the body (slide) alone; the absence of their tokens is checked on the real extractor for every generated package",
]
TRUSTED = [
    "hand model S2T/Model/Ooxml{Text,Docx,Html,Pptx}.lean of the repo's walkers, tied by this correspondence",
    "Spec/Ooxml{Doc,Html,Deck}.lean: abstract document, renderers, reference linearisation `lin` (my reading of 'visible body text in source order with its boundaries')",
    "harness/builders/c02_ooxml_build.py (XML serialisation, OPC / EPUB / MIME packaging)",
]

BODY, DEL, COMMENT, NOTE, HDR, SPEAKER = "b", "d", "c", "n", "h", "s"
EXCL_RE = re.compile(r"[dcnhs]\d+q")
DECO_HTML = {"-", "|", "---"}


# ----------------------------------------------------------------------------- generation
class Gen:
    def __init__(self, rng):
        self.rng = rng
        self.n = 0

    def tok(self, cls=BODY):
        self.n += 1
        r = self.rng.random()
        core = f"{cls}{self.n}q"
        if r < 0.05:
            core = core + "&x"
        elif r < 0.10:
            core = "<" + core
        elif r < 0.15:
            core = core + "é"
        return core

    def leaf(self):
        r = self.rng.random()
        t = self.tok()
        if r < 0.12:
            return t + " " + self.tok()
        if r < 0.20:
            return " " + t
        if r < 0.28:
            return t + " "
        return t

    def inlines(self, depth, rich=True):
        rng = self.rng
        out = []
        for _ in range(rng.randint(0, 4) if depth else rng.randint(1, 5)):
            r = rng.random()
            if r < 0.45 or not rich:
                out.append(["t", self.leaf()])
            elif r < 0.53:
                out.append(["tab"])
            elif r < 0.61:
                out.append(["br"])
            elif r < 0.68 and depth < 2:
                out.append(["link", "ref%d" % self.n, self.inlines(depth + 1)])
            elif r < 0.74 and depth < 2:
                out.append(["ins", self.inlines(depth + 1)])
            elif r < 0.80:
                out.append(["del", self.tok(DEL)])
            elif r < 0.85 and depth < 2:
                out.append(["ctl", self.inlines(depth + 1)])
            elif r < 0.90:
                out.append(["mark", str(rng.randint(1, 9))])
            elif r < 0.95 and depth < 1:
                out.append(["box", self.blocks(2, top=False, n=rng.randint(0, 2))])
            else:
                out.append(["t", self.leaf()])
        return out

    def blocks(self, depth, top=True, n=None, nested_tables=True):
        rng = self.rng
        out = []
        for _ in range(n if n is not None else rng.randint(1, 5)):
            r = rng.random()
            if r < 0.45 or depth >= 3:
                out.append(["p", rng.choice(["Normal", "ListParagraph", "Quote", ""]), self.inlines(0 if depth < 2 else 1)])
            elif r < 0.55:
                out.append(["h", rng.randint(1, 6), self.inlines(1)])
            elif r < 0.68:
                out.append(["list", [self.blocks(depth + 1, False, rng.randint(1, 2), nested_tables) for _ in range(rng.randint(1, 3))]])
            elif r < 0.88 and (nested_tables or depth == 0):
                rows = []
                for _ in range(rng.randint(1, 3)):
                    rows.append([self.blocks(depth + 1, False, rng.randint(0, 2), nested_tables) for _ in range(rng.randint(1, 3))])
                out.append(["table", rows])
            elif r < 0.95:
                out.append(["ctl", self.blocks(depth + 1, False, rng.randint(0, 2), nested_tables)])
            else:
                out.append(["p", "", []])
        return out

    def doc(self, nested_tables=True):
        return self.blocks(0, nested_tables=nested_tables)

    def runs(self):
        rng = self.rng
        out = []
        for _ in range(rng.randint(0, 4)):
            r = rng.random()
            if r < 0.7:
                out.append(["t", self.leaf()])
            elif r < 0.85:
                out.append(["br"])
            else:
                out.append(["fld", self.tok()])
        return out

    def deck(self):
        rng = self.rng
        slides = []
        for _ in range(rng.randint(1, 3)):
            shapes = []
            for _ in range(rng.randint(0, 5)):
                r = rng.random()
                pos = None if rng.random() < 0.25 else [rng.choice([0, 100, 100, 5000, 1524000, -5]), rng.choice([0, 7, 300, 914400])]
                grp = rng.random() < 0.15
                if r < 0.2:
                    rows = [[[self.runs() for _ in range(rng.randint(1, 2))] for _ in range(rng.randint(1, 3))] for _ in range(rng.randint(1, 3))]
                    shapes.append({"role": "plain", "idx": "", "pos": pos, "table": rows, "group": grp})
                else:
                    role = rng.choice(["title", "ctrTitle", "body", "subTitle", "obj", "idxOnly", "sldNum", "unknown", "plain",
                                       "plain", "footer", "date", "header"])
                    idx = "" if role in ("plain", "title") and rng.random() < 0.7 else rng.choice(["1", "2", "10", "x", "13"])
                    if role == "idxOnly" and not idx:
                        idx = "1"
                    sh = {"role": role, "idx": idx, "pos": pos, "paras": [self.runs() for _ in range(rng.randint(1, 3))], "group": grp}
                    if role == "unknown":
                        sh["ty"] = rng.choice(["pic", "chart", "dgm", "media", "clipArt"])
                    if role in ("footer", "date", "header"):  # excluded material carries excluded-class tokens
                        sh["paras"] = [[["t", self.tok(HDR)]]]
                    shapes.append(sh)
            sl = {"shapes": shapes}
            if rng.random() < 0.6:
                sl["notes"] = self.tok(SPEAKER) + " " + self.tok(SPEAKER)
            if rng.random() < 0.5:
                sl["comments"] = [self.tok(COMMENT) for _ in range(rng.randint(1, 2))]
            slides.append(sl)
        return slides

    def workbook(self):
        rng = self.rng
        sheets = []
        for k in range(rng.randint(1, 3)):
            nr, nc = rng.randint(0, 5), rng.randint(1, 5)
            rows = []
            for r in range(nr):
                row = []
                for c in range(nc):
                    x = rng.random()
                    if x < 0.6:
                        row.append(self.leaf().strip() if rng.random() < 0.8 else self.leaf())
                    elif x < 0.65:
                        row.append(" ")
                    else:
                        row.append(None)
                rows.append(row)
            sheets.append({"name": "Sh%d%s" % (k, rng.choice(["", " x", "é"])), "rows": rows})
        return sheets


def _outside(g: Gen, rng):
    return {"comments": [g.tok(COMMENT) for _ in range(rng.randint(0, 2))],
            "footnotes": [g.tok(NOTE) for _ in range(rng.randint(0, 2))],
            "endnotes": [g.tok(NOTE) for _ in range(rng.randint(0, 1))],
            "headers": [g.tok(HDR) for _ in range(rng.randint(0, 1))],
            "footers": [g.tok(HDR) for _ in range(rng.randint(0, 1))]}


# ----------------------------------------------------------------------------- reference linearisation (oracle)
def _has_nested_table(blocks, inside=False):
    for b in blocks:
        k = b[0]
        if k == "table":
            if inside:
                return True
            if any(_has_nested_table(c, True) for row in b[1] for c in row):
                return True
        elif k == "list":
            if any(_has_nested_table(it, inside) for it in b[1]):
                return True
        elif k == "ctl":
            if _has_nested_table(b[1], inside):
                return True
        elif k in ("p", "h"):
            if _inl_nested(b[2], inside):
                return True
    return False


def _inl_nested(xs, inside):
    for x in xs:
        if x[0] in ("link",):
            if _inl_nested(x[2], inside):
                return True
        elif x[0] in ("ins", "ctl"):
            if _inl_nested(x[1], inside):
                return True
        elif x[0] == "box":
            if _has_nested_table(x[1], inside):
                return True
    return False


class Ref:
    """expected text per format as a list of pieces: ('w', text) source text, ('s',) boundary, ('d', word) decoration.
    Independent of the Lean spec: written from the property statement."""

    def __init__(self, fmt):
        self.fmt = fmt  # docx | html | epub

    def inl(self, xs, deco):
        out = []
        for x in xs:
            k = x[0]
            if k == "t":
                out.append(("w", x[1]))
            elif k in ("tab", "br"):
                out.append(("s",))
            elif k == "link":
                out += self.inl(x[2], deco)
            elif k in ("ins", "ctl"):
                out += self.inl(x[1], deco)
            elif k in ("del", "mark"):
                pass
            elif k == "box":
                inner = self.blocks(x[1], deco)
                if self.fmt != "docx" or any(p[0] == "w" and p[1].strip() for p in inner):
                    out += [("s",)] + inner + [("s",)]
        return out

    def blocks(self, bs, deco):
        out = []
        for b in bs:
            k = b[0]
            if k == "p":
                out += [("s",)] + self.inl(b[2], deco) + [("s",)]
            elif k == "h":
                out += [("s",)] + self.inl(b[2], deco and self.fmt != "html") + [("s",)]
            elif k == "list":
                for it in b[1]:
                    out.append(("s",))
                    if deco and self.fmt == "html":
                        out += [("d", "-"), ("s",)]
                    out += self.blocks(it, deco) + [("s",)]
            elif k == "table":
                ncols = max((len(r) for r in b[1]), default=0)
                for row in b[1]:
                    if not row:
                        continue
                    out.append(("s",))
                    for i in range(ncols if (deco and self.fmt == "html") else len(row)):
                        if i and deco and self.fmt == "html":
                            out += [("s",), ("d", "|"), ("s",)]
                        if i < len(row):
                            out += [("s",)] + self.blocks(row[i], deco and self.fmt != "html") + [("s",)]
                    out.append(("s",))
            elif k == "ctl":
                out += self.blocks(b[1], deco)
        return out

    def words(self, bs):
        return pieces_words(self.blocks(bs, True))


def pieces_words(pieces):
    """[(word, is_decoration)]: source text glued across piece borders exactly as in the source"""
    s, marks = "", []
    for p in pieces:
        if p[0] == "w":
            s += p[1]
        elif p[0] == "s":
            s += " "
        else:
            s += " \x00" + p[1] + " "
    res = []
    for w in s.split():
        if w.startswith("\x00"):
            res.append((w[1:], True))
        else:
            res.append((w, False))
    return res


def compare_words(fmt, got_words, expected, allowed_deco=()):
    """property check on word sequences -> (kind, message) or None"""
    exp = [w for w, _ in expected]
    got = list(got_words)
    leaked = [w for w in got if EXCL_RE.search(w)]
    if leaked:
        return "leaked-excluded", f"excluded text in the output: {leaked[:3]}"
    if got == exp:
        return None
    # classify
    from collections import Counter
    src = [w for w, d in expected if not d]
    cg, cs = Counter(got), Counter(src)
    lost = [w for w in cs if cg[w] < cs[w]]
    dup = [w for w in cs if cg[w] > cs[w]]
    src_join = set(src)
    extra = [w for w in got if w not in src_join and w not in allowed_deco and w not in {d for d, f in expected if f}]
    merged = [w for w in extra if any(t in w and t != w for t in src_join if len(t) > 2)]
    if merged:
        return "merged", f"pieces the source separates are fused: {merged[:3]} (expected {_near(exp, merged[0])})"
    if lost and not dup:
        return "lost", f"source text missing from the output: {lost[:4]}"
    if dup:
        return "duplicated", f"source text appears more often than in the source: {dup[:4]}"
    if extra:
        return "invented", f"text that is neither source nor documented decoration: {extra[:4]}"
    if sorted(got) == sorted(exp):
        return "reordered", f"same words in another order: got {got[:8]} expected {exp[:8]}"
    return "decoration", f"decoration differs: got {got[:10]} expected {exp[:10]}"


def _near(exp, w):
    return [e for e in exp if e in w][:4]


# ----------------------------------------------------------------------------- attribute dressing
# Attributes WordprocessingML really carries on the elements the Lean renderer writes bare (ECMA-376 part 1, 17.3 / 17.4 /
# 17.13 / 17.16, MCE part 3, VML).  None of them is text, none of them changes what the source separates: a w:br of ANY
# type is a break, a run with revision ids is the same run.  Lean: S2T.C02.Ooxml.Docx.fullText_attr_blind (the model
# walk reads no attribute) - the dressed documents tie that to the real extractor.  A dress maps a wire tag name to ONE
# attribute set that is put on every element of that name (so a replay is the abstract document + a few attributes).
_XML_SPACE = "{http://www.w3.org/XML/1998/namespace}space"
DRESS_VOCAB = {
    "#wBr": [{"w:type": "page"}, {"w:type": "column"}, {"w:type": "textWrapping"}, {"w:type": "textWrapping", "w:clear": "all"},
             {"w:clear": "left"}, {"w:type": "page", "w:clear": "none"}],
    "#wCr": [{"w:type": "page"}],
    "#wTab": [{"w:val": "left", "w:pos": "720"}, {"w:leader": "dot"}],
    "#wT": [{_XML_SPACE: "preserve"}, {_XML_SPACE: "default"}],
    "#wR": [{"w:rsidR": "00A1B2C3"}, {"w:rsidRPr": "00D4E5F6", "w:rsidDel": "00112233"}],
    "#wP": [{"w:rsidR": "00A1B2C3", "w:rsidRDefault": "00D4E5F6"}, {"w:rsidP": "00778899", "w:rsidRPr": "00D4E5F6"},
            {"{http://schemas.microsoft.com/office/word/2010/wordml}paraId": "1A2B3C4D"}],
    "#wTr": [{"w:rsidR": "00A1B2C3", "w:rsidTr": "00D4E5F6"}],
    "#wTc": [{"w:id": "c1"}],
    "#wSdt": [{"w:rsidR": "00A1B2C3"}],
    "#choice": [{"Requires": "wps"}, {"Requires": "wpg"}, {"Requires": "w14"}, {"Requires": "wps wpg"}],
    "#alt": [{"mc:Ignorable": "w14"}],
    "#wTxbxContent": [{"w:rsidR": "00A1B2C3"}],
    "w:hyperlink": [{"r:id": "rId9"}, {"w:history": "1", "w:tooltip": "tip t0"}, {"w:tgtFrame": "_blank", "w:docLocation": "x"}],
    "w:ins": [{"w:id": "7", "w:author": "Ann", "w:date": "2024-01-01T00:00:00Z"}],
    "w:del": [{"w:id": "8", "w:author": "Bob", "w:date": "2024-01-02T00:00:00Z"}],
    "w:delText": [{_XML_SPACE: "preserve"}],
    "w:footnoteReference": [{"w:customMarkFollows": "1"}],
    "wp:anchor": [{"distT": "0", "distB": "0", "behindDoc": "1", "simplePos": "0", "allowOverlap": "1"}],
    "wps:txbx": [{"id": "3"}],
    "v:shape": [{"id": "tb1", "type": "#_x0000_t202", "style": "position:absolute"}],
    "v:textbox": [{"style": "mso-fit-shape-to-text:t"}, {"inset": "0,0,0,0"}],
    "w:sectPr": [{"w:rsidR": "00A1B2C3", "w:rsidSect": "00D4E5F6"}],
}


def gen_dress(rng, p=0.5):
    """one attribute set for about half of the dressable element names"""
    return {t: dict(rng.choice(v)) for t, v in DRESS_VOCAB.items() if rng.random() < p}


def dress_json(j, dress):
    """the rendered element (wire format) with the dress put on: existing attributes win"""
    if not dress:
        return j
    have = {k for k, _ in j.get("a", [])}
    extra = [[k, v] for k, v in dress.get(j["t"], {}).items() if k not in have]
    return {"t": j["t"], "a": list(j.get("a", [])) + extra, "x": j.get("x", ""), "k": [dress_json(c, dress) for c in j.get("k", [])]}


def _dress_used(j, dress):
    """the entries of the dress that meet an element of the tree"""
    seen = set()

    def walk(n):
        if n["t"] in dress:
            seen.add(n["t"])
        for c in n.get("k", []):
            walk(c)
    for n in j:
        walk(n)
    return {t: a for t, a in dress.items() if t in seen}


# ----------------------------------------------------------------------------- running the real extractors
def _real_docx(data: bytes):
    from sharepoint2text.parsing.extractors.ms_modern.docx_extractor import read_docx
    return next(read_docx(io.BytesIO(data), path="x.docx")).get_full_text()


def _real_html(data: bytes):
    from sharepoint2text.parsing.extractors.html_extractor import read_html
    return next(read_html(io.BytesIO(data), path="x.html")).get_full_text()


def _real_mhtml(data: bytes):
    from sharepoint2text.parsing.extractors.mhtml_extractor import read_mhtml
    return next(read_mhtml(io.BytesIO(data), path="x.mhtml")).get_full_text()


def _real_epub(data: bytes):
    from sharepoint2text.parsing.extractors.epub_extractor import read_epub
    r = next(read_epub(io.BytesIO(data), path="x.epub"))
    return r.get_full_text(), [ch.text for ch in r.chapters], [ch.tables for ch in r.chapters]


def _real_pptx(data: bytes):
    from sharepoint2text.parsing.extractors.ms_modern.pptx_extractor import read_pptx
    r = next(read_pptx(io.BytesIO(data), path="x.pptx"))
    return r.get_full_text(), [s.base_text for s in r.slides]


def _real_xlsx(data: bytes):
    from sharepoint2text.parsing.extractors.ms_modern.xlsx_extractor import read_xlsx
    r = next(read_xlsx(io.BytesIO(data), path="x.xlsx"))
    return r.get_full_text(), [s.text for s in r.sheets]


def _grid(rows):
    """what openpyxl's iter_rows(values_only=True) returns for the cells the builder wrote"""
    mr = max((i + 1 for i, r in enumerate(rows) if any(v is not None for v in r)), default=0)
    mc = max((j + 1 for r in rows for j, v in enumerate(r) if v is not None), default=0)
    return [[(r[j] if j < len(r) else None) for j in range(mc)] for r in rows[:mr]]


def _safe(f, *a):
    try:
        return f(*a), None
    except Exception as e:  # the property is about text; a crash is reported as a broken case
        return None, f"{type(e).__name__}: {e}"


# ----------------------------------------------------------------------------- per-format evaluation (real code + oracle)
def eval_doc(fmt, doc, extra=None):
    """runs the REAL extractor on the document rendered for `fmt`; returns (text, oracle verdict or None).
    Needs the Lean renderer's output `extra` (xml / tree / bodies)."""
    from builders import c02_ooxml_build as B
    extra = extra or {}
    if fmt == "docx":
        data = B.docx_package([B.to_et(dress_json(k, extra.get("dress"))) for k in extra["xml"]], extra.get("outside"), extra.get("title", ""))
        text, err = _safe(_real_docx, data)
        if err:
            return None, ("crash", err)
        return text, compare_words("docx", text.split(), Ref("docx").words(doc))
    if fmt in ("html", "mhtml"):
        html = B.html_bytes(extra["tree"], bare=bool(extra.get("bare")), tight=bool(extra.get("tight")))
        if fmt == "mhtml":
            text, err = _safe(_real_mhtml, B.mhtml_bytes(html, extra.get("enc", "quoted-printable")))
        else:
            text, err = _safe(_real_html, html)
        if err:
            return None, ("crash", err)
        return text, compare_words(fmt, text.split(), Ref("html").words(doc), DECO_HTML)
    if fmt == "epub":
        tree = B.tighten(extra["tree"]) if extra.get("tight") else extra["tree"]
        chapter = "".join(B.node_html(c, xhtml=True, bare=bool(extra.get("bare"))) for c in tree["children"][0]["children"])  # <head>…</head><body>…</body>
        res, err = _safe(_real_epub, B.epub_package([chapter, "<head><title>two</title></head><body><p>b0q</p></body>"]))
        if err:
            return None, ("crash", err)
        full, texts, tables = res
        return (full, texts, tables), epub_oracle(doc, full, texts, tables)
    raise ValueError(fmt)


def epub_ref(doc):
    """(pieces of the text outside tables, [pieces of each table cell in document order])"""
    cells = []

    def inl(xs):
        out = []
        for x in xs:
            k = x[0]
            if k == "t":
                out.append(("w", x[1]))
            elif k in ("tab", "br"):
                out.append(("s",))
            elif k == "link":
                out += inl(x[2])
            elif k in ("ins", "ctl"):
                out += inl(x[1])
            elif k == "box":
                out += [("s",)] + blocks(x[1]) + [("s",)]
        return out

    def blocks(bs):
        out = []
        for b in bs:
            k = b[0]
            if k == "table":
                for row in b[1]:
                    for c in row:
                        cells.append(None)
                        i = len(cells) - 1
                        cells[i] = blocks(c)
            elif k == "list":
                for it in b[1]:
                    out += [("s",)] + blocks(it) + [("s",)]
            elif k == "ctl":
                out += blocks(b[1])
            else:
                out += [("s",)] + inl(b[2]) + [("s",)]
        return out

    return blocks(doc), cells


def epub_oracle(doc, full, texts, tables):
    """EPUB: text outside tables is in the chapter text; table cell text is in the chapter's tables (the extractor
    'also extracts tables'), both in source order, nothing excluded, nothing else."""
    from collections import Counter
    flow, cells = epub_ref(doc)
    exp_flow = [w for w, _ in pieces_words(flow)]
    got_flow = (texts[0] if texts else "").split()
    got_cells = [w for t in (tables[0] if tables else []) for row in t for cell in row for w in cell.split()]
    leaked = [w for w in got_flow + got_cells if EXCL_RE.search(w)]
    if leaked:
        return "leaked-excluded", f"excluded text in the output: {leaked[:3]}"
    # the cell text joins the data pieces of a cell with " " (a word may be split at an element border, never fused):
    # compare with blanks removed — order and multiplicity of every character of every leaf
    exp_cells_s = "".join("".join(w for w, _ in pieces_words(c)) for c in cells)
    got_cells_s = "".join(got_cells)
    if got_flow != exp_flow:
        v = compare_words("epub", got_flow, [(w, False) for w in exp_flow])
        return (v[0] if v else "reordered"), "chapter text: " + (v[1] if v else f"got {got_flow[:12]} expected {exp_flow[:12]}")
    if got_cells_s != exp_cells_s:
        exp_tokens = re.findall(r"b\d+q", exp_cells_s)
        got_tokens = re.findall(r"b\d+q", got_cells_s)
        cg, ce = Counter(got_tokens), Counter(exp_tokens)
        lost = [t for t in ce if cg[t] < ce[t]]
        dup = [t for t in ce if cg[t] > ce[t]]
        kind = "lost" if lost else ("duplicated" if dup else "reordered")
        return kind, f"table cell text is in neither the chapter text nor the tables / out of order: lost {lost[:4]} duplicated {dup[:4]}"
    return None


def eval_deck(slides, bodies):
    from builders import c02_ooxml_build as B
    res, err = _safe(_real_pptx, B.pptx_package(slides, bodies, title="t0q"))
    if err:
        return None, ("crash", err)
    full, base = res
    return (full, base), deck_oracle(slides, full)


_ROLE_TYPE = {"title": "title", "ctrTitle": "ctrTitle", "body": "body", "subTitle": "subTitle", "obj": "obj", "idxOnly": "",
              "sldNum": "sldNum", "footer": "ftr", "date": "dt", "header": "hdr"}


def _ref_position(sh):
    """documented ordering key (docstring of _get_shape_position)"""
    if sh.get("pos") is not None:
        return (sh["pos"][0], sh["pos"][1])
    if "table" in sh or sh["role"] == "plain":
        return (999999999, 999999999)
    ty = sh.get("ty", "") if sh["role"] == "unknown" else _ROLE_TYPE[sh["role"]]
    idx = sh.get("idx", "")
    if ty in ("title", "ctrTitle"):
        return (0, 0)
    if ty in ("body", "subTitle", "obj", "tbl") or (not ty and idx):
        return (1 + (int(idx) if idx.isdigit() else 0), 0)
    if ty in ("ftr", "sldNum"):
        return (999999998, 0)
    return (999999999, 999999999)


def _runs_pieces(paras):
    out = []
    for p in paras:
        out.append(("s",))
        for r in p:
            out.append(("s",) if r[0] == "br" else ("w", r[1]))
        out.append(("s",))
    return out


def deck_oracle(slides, full):
    exp = []
    for sl in slides:
        sps = [s for s in sl["shapes"] if "table" not in s]
        frames = [s for s in sl["shapes"] if "table" in s]
        for sh in sorted(sps + frames, key=_ref_position):  # stable
            if "table" in sh:
                for row in sh["table"]:
                    for cell in row:
                        exp += _runs_pieces(cell)
            elif sh["role"] not in ("footer", "date", "header"):
                exp += _runs_pieces(sh["paras"])
    return compare_words("pptx", full.split(), pieces_words(exp))


def eval_workbook(sheets):
    from builders import c02_ooxml_build as B
    res, err = _safe(_real_xlsx, B.xlsx_package(sheets))
    if err:
        return None, ("crash", err)
    full, texts = res
    return (full, texts), workbook_oracle(sheets, full)


def workbook_oracle(sheets, full):
    exp = []
    for sh in sheets:
        exp += [(w, True) for w in sh["name"].split()]
        for row in _grid(sh["rows"]):
            for v in row:
                if v is not None:
                    exp += [(w, False) for w in v.split()]
    got = full.split()
    v = compare_words("xlsx", got, exp)
    if v and any(w == "Unnamed:" for w in got):
        # remove the 'Unnamed: i' pairs and see whether that alone explains it
        g2, i = [], 0
        while i < len(got):
            if got[i] == "Unnamed:" and i + 1 < len(got) and got[i + 1].isdigit():
                i += 2
                continue
            g2.append(got[i])
            i += 1
        if compare_words("xlsx", g2, exp) is None:
            return "unnamed-header-invented", "'Unnamed: i' printed for an empty first-row cell: text that is neither in the source nor documented decoration"
    return v


# ----------------------------------------------------------------------------- malformed stream
_W = "http://schemas.openxmlformats.org/wordprocessingml/2006/main"
_VOCAB_W = ["p", "r", "t", "tab", "br", "cr", "tbl", "tr", "tc", "sdt", "sdtContent", "customXml", "txbxContent", "hyperlink",
            "ins", "del", "delText", "pPr", "drawing", "smartTag", "fldSimple", "body", "pict"]
_VOCAB_X = ["{http://schemas.openxmlformats.org/markup-compatibility/2006}AlternateContent",
            "{http://schemas.openxmlformats.org/markup-compatibility/2006}Choice",
            "{http://schemas.openxmlformats.org/markup-compatibility/2006}Fallback",
            "{urn:other}AlternateContent", "{urn:other}Fallback", "{urn:other}p", "{urn:other}Choice"]


def _rand_tree(g: Gen, depth, vocab):
    from xml.etree import ElementTree as ET
    rng = g.rng
    e = ET.Element(rng.choice(vocab))
    if rng.random() < 0.5:
        e.text = rng.choice([g.tok(), " ", "", g.tok() + " ", "\n"])
    if depth < 5:
        for _ in range(rng.choice([0, 1, 1, 2, 3]) if depth else rng.randint(1, 4)):
            e.append(_rand_tree(g, depth + 1, vocab))
    return e


def _odd_docx(g: Gen, kind, depth):
    """structured-but-unusual WordprocessingML: wrappers (sdt / customXml / smartTag / ins) at every level, several or
    no sdtContent, rows and cells in the wrong container, text boxes with tables, stray text"""
    from xml.etree import ElementTree as ET
    rng = g.rng
    W = "{%s}" % _W

    def mk(tag, kids=(), text=None):
        e = ET.Element(tag if tag.startswith("{") else W + tag)
        if text is not None:
            e.text = text
        for k in kids:
            e.append(k)
        return e

    def wrap(inner_kind, d):
        r = rng.random()
        kids = [_odd_docx(g, inner_kind, d + 1) for _ in range(rng.randint(0, 2))]
        if r < 0.4:
            conts = [mk("sdtContent", kids)]
            if rng.random() < 0.2:
                conts.append(mk("sdtContent", [_odd_docx(g, inner_kind, d + 1)]))
            if rng.random() < 0.1:
                conts = []
            return mk("sdt", [mk("sdtPr")] + conts)
        if r < 0.8:
            return mk("customXml", kids)
        return mk(rng.choice(["ins", "smartTag", "moveTo"]), kids)

    if depth > 4:
        kind = "run"
    if kind == "run":
        r = rng.random()
        if r < 0.5:
            return mk("r", [mk("t", text=g.tok())])
        if r < 0.6:
            return mk("r", [mk(rng.choice(["tab", "br", "cr", "noBreakHyphen"]))])
        if r < 0.7:
            return mk("hyperlink", [_odd_docx(g, "run", depth + 1)])
        if r < 0.8:
            return mk("r", [mk(_VOCAB_X[0], [mk(_VOCAB_X[1], [mk("drawing", [mk("txbxContent", [_odd_docx(g, "block", depth + 1)
                                                                                      for _ in range(rng.randint(0, 2))])])]),
                                             mk(_VOCAB_X[2], [mk("pict", [mk("txbxContent", [_odd_docx(g, "block", depth + 1)])])])])])
        if r < 0.9:
            return wrap("run", depth)
        return mk("t", text=g.tok())
    if kind == "cell":
        if rng.random() < 0.25:
            return wrap("cell", depth)
        return mk("tc", [_odd_docx(g, rng.choice(["block", "block", "run", "row"]), depth + 1) for _ in range(rng.randint(0, 3))])
    if kind == "row":
        if rng.random() < 0.25:
            return wrap("row", depth)
        return mk("tr", [_odd_docx(g, rng.choice(["cell", "cell", "cell", "block"]), depth + 1) for _ in range(rng.randint(0, 3))])
    # block
    r = rng.random()
    if r < 0.4:
        return mk("p", [mk("pPr")] + [_odd_docx(g, rng.choice(["run", "run", "run", "block"]), depth + 1) for _ in range(rng.randint(0, 3))])
    if r < 0.65:
        return mk("tbl", [_odd_docx(g, rng.choice(["row", "row", "row", "cell", "block"]), depth + 1) for _ in range(rng.randint(0, 3))])
    if r < 0.9:
        return wrap("block", depth)
    return mk("txbxContent", [_odd_docx(g, "block", depth + 1)])


_SOUP_TAGS = ["p", "div", "span", "b", "a", "ul", "ol", "li", "table", "tbody", "tr", "td", "th", "h1", "h3", "br", "hr", "pre",
              "section", "body", "caption", "img", "dl", "dt", "dd", "blockquote", "form", "title"]


_SOUP_TABLE_TAGS = ["table", "tr", "td", "th", "tbody", "tr", "td", "p", "br", "div", "li", "h3", "span"]


def _odd_table(g: Gen, depth=0):
    """table markup as found in the wild: optional end tags left out (so rows end up inside cells of the row before),
    th/td mixed, tbody or not, tables / paragraphs / line breaks in cells"""
    rng = g.rng
    out = ["<table>"]
    if rng.random() < 0.3:
        out.append("<tbody>")
    for _ in range(rng.randint(1, 3)):
        out.append("<tr>")
        for _ in range(rng.randint(0, 3)):
            out.append(rng.choice(["<td>", "<td>", "<th>"]))
            r = rng.random()
            if r < 0.55:
                out.append(g.tok())
            elif r < 0.7 and depth < 2:
                out.append(g.tok() + _odd_table(g, depth + 1))
            elif r < 0.8:
                out.append("<p>" + g.tok() + "</p><p>" + g.tok() + "</p>")
            elif r < 0.9:
                out.append(g.tok() + "<br>" + g.tok())
            if rng.random() < 0.7:
                out.append(rng.choice(["</td>", "</td>", "</th>"]))
        if rng.random() < 0.7:
            out.append("</tr>")
    if rng.random() < 0.8:
        out.append("</table>")
    return "".join(out)


def _soup(g: Gen):
    rng = g.rng
    out = []
    if rng.random() < 0.25:
        return rng.choice(["", g.tok(), "<p>" + g.tok()]) + _odd_table(g) + rng.choice(["", g.tok(), "<h3>" + g.tok() + "<br>" + g.tok() + "</h3>"])
    # a third of the soups is table-heavy (rows in rows, cells without rows, tables in cells, unclosed cells)
    tags = _SOUP_TABLE_TAGS if rng.random() < 0.35 else _SOUP_TAGS
    for _ in range(rng.randint(3, 30)):
        r = rng.random()
        t = rng.choice(tags)
        if r < 0.4:
            out.append("<%s>" % t)
        elif r < 0.65:
            out.append("</%s>" % t)
        elif r < 0.7:
            out.append("<%s/>" % t)
        else:
            out.append(rng.choice([g.tok(), " ", "\n", g.tok() + " ", "&amp;", "\t" + g.tok()]))
    return "".join(out)


# ----------------------------------------------------------------------------- correspondence
def _nontrivial_doc(doc):
    return json.dumps(doc).count('"t"') >= 2


def correspondence(ctx):
    from builders import c02_ooxml_build as B
    rng = ctx.rng
    g = Gen(rng)
    broken, violations = [], []
    bad = {"n": 0}

    def report(name, detail, case):
        bad["n"] += 1
        if bad["n"] <= 25:
            broken.append(Broken("correspondence", name, detail, case=case))

    # ---- DOCX
    n = ctx.n(120, 3000)
    docs = [g.doc() for _ in range(n)]
    outs = ctx.drive([{"op": "c02ooxml.docx", "doc": d} for d in docs])
    for d, o in zip(docs, outs):
        ctx.case(("docx", json.dumps(d)), _nontrivial_doc(d))
        if "drv_error" in o:
            report("driver", o["drv_error"], {"fmt": "docx", "doc": d})
            continue
        outside = _outside(g, rng)
        text, verdict = eval_doc("docx", d, {"xml": o["xml"], "outside": outside, "title": g.tok(HDR)})
        ctx.count("docx/" + ("nested-table" if _has_nested_table(d) else "flat"))
        if text != o["text"]:
            report("c02ooxml.docx", f"impl={text!r:.300} model={o['text']!r:.300}", {"fmt": "docx", "doc": d})
        elif o["out_words"] != o["words"]:
            report("c02ooxml.docx-spec", f"model words {o['out_words'][:10]} != spec words {o['words'][:10]}", {"fmt": "docx", "doc": d})
        elif verdict is not None:  # model and code agree but the independent oracle objects
            report("c02ooxml.docx-oracle", f"{verdict}", {"fmt": "docx", "doc": d})
    ctx.sample({"fmt": "docx", "doc": docs[0], "model": outs[0].get("text")})

    # ---- DOCX dressed: the same rendered documents with attributes WordprocessingML really carries (break types, xml:space,
    # revision ids, tracked-change ids, Requires, VML styles): by Docx.fullText_attr_blind the model text cannot move; the
    # model walk is run on the dressed tree as well (op docx_walk) and the real extractor on the dressed package
    dressed, reqs = [], []
    for d, o in zip(docs, outs):
        if "drv_error" in o:
            continue
        dress = _dress_used(o["xml"], gen_dress(rng))
        if not dress:
            continue
        kids = [B.to_et(dress_json(k, dress)) for k in o["xml"]]
        dressed.append((d, o, dress))
        reqs.append({"op": "c02ooxml.docx_walk", "kids": [B.et_to_json(k) for k in kids]})
    for (d, o, dress), w in zip(dressed, ctx.drive(reqs)):
        case = {"fmt": "docx", "doc": d, "dress": dress}
        ctx.case(("docx-dressed", json.dumps(d), json.dumps(dress, sort_keys=True)), _nontrivial_doc(d))
        ctx.count("docx/dressed")
        for t in dress:
            ctx.count("docx/dressed:" + t)
        text, verdict = eval_doc("docx", d, {"xml": o["xml"], "dress": dress, "outside": _outside(g, rng), "title": g.tok(HDR)})
        if w.get("text") != o["text"]:
            report("c02ooxml.docx-dressed-model", f"the model walk reads an attribute: dressed {w.get('text')!r:.200} bare {o['text']!r:.200}", case)
        elif text != o["text"]:
            report("c02ooxml.docx-dressed", f"dress={dress} impl={text!r:.300} model={o['text']!r:.300}", case)
        elif verdict is not None:
            report("c02ooxml.docx-dressed-oracle", f"{verdict}", case)
    if dressed:
        ctx.sample({"fmt": "docx", "doc": dressed[0][0], "dress": dressed[0][2]})

    # ---- DOCX malformed: random element trees through the real walk and the model walk
    from sharepoint2text.parsing.extractors.ms_modern import docx_extractor as dx
    vocab = ["{%s}%s" % (_W, t) for t in _VOCAB_W] + _VOCAB_X
    from xml.etree import ElementTree as ET
    n = ctx.n(200, 6000)
    trees, reqs = [], []
    for _ in range(n):
        body = ET.Element("{%s}body" % _W)
        odd = rng.random() < 0.6
        for _ in range(rng.randint(1, 4)):
            body.append(_odd_docx(g, "block", 0) if odd else _rand_tree(g, 0, vocab))
        trees.append(body)
        reqs.append({"op": "c02ooxml.docx_walk", "kids": [B.et_to_json(c) for c in body]})
    outs = ctx.drive(reqs)
    for body, rq, o in zip(trees, reqs, outs):
        ctx.case(("docx-tree", ET.tostring(body)), True)
        ctx.count("docx/malformed-tree")
        real, err = _safe(dx._extract_full_text_from_body, body, True)
        if err or real != o.get("text"):
            report("c02ooxml.docx_walk", f"impl={real!r:.300} err={err} model={o.get('text')!r:.300}",
                   {"fmt": "docx-tree", "xml": ET.tostring(body).decode()})

    # ---- HTML / MHTML / EPUB
    n = ctx.n(120, 3000)
    docs = [g.doc(nested_tables=(rng.random() < 0.5)) for _ in range(n)]
    outs = ctx.drive([{"op": "c02ooxml.html", "doc": d, "title": "t0q"} for d in docs])
    for i, (d, o) in enumerate(zip(docs, outs)):
        ctx.case(("html", json.dumps(d)), _nontrivial_doc(d))
        if "drv_error" in o:
            report("driver", o["drv_error"], {"fmt": "html", "doc": d})
            continue
        ctx.count("html/" + ("nested-table" if _has_nested_table(d) else "flat"))
        text, verdict = eval_doc("html", d, {"tree": o["tree"]})
        if text != o["text"]:
            report("c02ooxml.html", f"impl={text!r:.300} model={o['text']!r:.300}", {"fmt": "html", "doc": d})
        elif o["text"].split() != o["words"]:
            report("c02ooxml.html-spec", f"model words {o['text'].split()[:12]} != spec words {o['words'][:12]}", {"fmt": "html", "doc": d})
        elif verdict is not None:
            report("c02ooxml.html-oracle", f"{verdict}", {"fmt": "html", "doc": d})
        # the same page with its text as plain character data (text / tail of the neighbours): same output
        for variant in ({"bare": True}, {"tight": True}, {"bare": True, "tight": True}):
            btext, bverdict = eval_doc("html", d, {"tree": o["tree"], **variant})
            ctx.case(("html-variant", sorted(variant), json.dumps(d)), _nontrivial_doc(d))
            ctx.count("html/variant-" + "+".join(sorted(variant)))
            if btext != o["text"]:
                report("c02ooxml.html-variant", f"{variant} impl={btext!r:.300} model={o['text']!r:.300}", {"fmt": "html", "doc": d, **variant})
        if i % 3 == 0:
            enc = ("quoted-printable", "base64", "8bit")[(i // 3) % 3]
            mt, mv = eval_doc("mhtml", d, {"tree": o["tree"], "enc": enc})
            ctx.case(("mhtml", enc, json.dumps(d)), _nontrivial_doc(d))
            ctx.count("mhtml/" + enc)
            if mt != o["text"]:
                report("c02ooxml.mhtml", f"enc={enc} impl={mt!r:.300} model={o['text']!r:.300}", {"fmt": "mhtml", "doc": d, "enc": enc})
        if i % 2 == 0:
            res, ev = eval_doc("epub", d, {"tree": o["tree"]})
            ctx.case(("epub", json.dumps(d)), _nontrivial_doc(d))
            nested = _has_nested_table(d)
            ctx.count("epub/" + ("nested-table" if nested else "flat"))
            if res is None:
                report("c02ooxml.epub", f"crash {ev}", {"fmt": "epub", "doc": d})
            else:
                full, texts, tables = res
                if (texts[0] if texts else None) != o["epub_text"] or (tables[0] if tables else None) != o["epub_tables"]:
                    report("c02ooxml.epub", f"impl={texts[:1]!r:.300}/{tables[:1]!r:.200} model={o['epub_text']!r:.300}/{o['epub_tables']!r:.200}",
                           {"fmt": "epub", "doc": d})
                elif ev is not None and not nested:
                    report("c02ooxml.epub-oracle", f"{ev}", {"fmt": "epub", "doc": d})
    ctx.sample({"fmt": "html", "doc": docs[0], "model": outs[0].get("text")})

    # ---- HTML malformed: tag soup through the real builder; the model walks the real builder's tree
    from sharepoint2text.parsing.extractors import html_extractor as hx
    n = ctx.n(250, 8000)
    soups, reqs, reals = [], [], []
    for _ in range(n):
        s = _soup(g)
        tb = hx._HtmlTreeBuilder()
        tb.feed(s)
        tb.close()
        root = tb.get_tree()
        soups.append(s)
        reqs.append({"op": "c02ooxml.html_walk", "tree": _plain_tree(root)})
        reals.append(_safe(lambda: hx._HtmlTextExtractor(root).extract().strip()))
    outs = ctx.drive(reqs)
    for s, (real, err), o in zip(soups, reals, outs):
        ctx.case(("html-soup", s), True)
        ctx.count("html/tag-soup")
        if err or real != o.get("text"):
            report("c02ooxml.html_walk", f"impl={real!r:.300} err={err} model={o.get('text')!r:.300}", {"fmt": "html-soup", "html": s})

    # ---- EPUB get_text on the real machine's text_parts (malformed stream)
    from sharepoint2text.parsing.extractors import epub_extractor as ex
    reqs, reals = [], []
    for s in soups[: ctx.n(120, 4000)]:
        p = ex._XhtmlTextExtractor()
        p.feed(s)
        p.close()
        reqs.append({"op": "c02ooxml.epub_text", "parts": list(p.text_parts)})
        reals.append((s, p.get_text()))
    outs = ctx.drive(reqs)
    for (s, real), o in zip(reals, outs):
        ctx.case(("epub-soup", s), True)
        ctx.count("epub/tag-soup")
        if real != o.get("text"):
            report("c02ooxml.epub_text", f"impl={real!r:.300} model={o.get('text')!r:.300}", {"fmt": "epub-soup", "html": s})

    # ---- PPTX
    n = ctx.n(80, 2000)
    decks = [g.deck() for _ in range(n)]
    outs = ctx.drive([{"op": "c02ooxml.pptx", "slides": dk} for dk in decks])
    for dk, o in zip(decks, outs):
        ctx.case(("pptx", json.dumps(dk)), sum(len(s["shapes"]) for s in dk) >= 2)
        if "drv_error" in o:
            report("driver", o["drv_error"], {"fmt": "pptx", "deck": dk})
            continue
        ctx.count("pptx/slides=%d" % len(dk))
        res, verdict = eval_deck(dk, o["bodies"])
        if res is None:
            report("c02ooxml.pptx", f"crash {verdict}", {"fmt": "pptx", "deck": dk})
            continue
        full, base = res
        if full != o["text"] or base != o["slide_texts"]:
            report("c02ooxml.pptx", f"impl={full!r:.300} model={o['text']!r:.300}", {"fmt": "pptx", "deck": dk})
        elif o["text"].split() != o["words"]:
            report("c02ooxml.pptx-spec", f"model words {o['text'].split()[:12]} != spec words {o['words'][:12]}", {"fmt": "pptx", "deck": dk})
        elif verdict is not None:
            report("c02ooxml.pptx-oracle", f"{verdict}", {"fmt": "pptx", "deck": dk})
    ctx.sample({"fmt": "pptx", "deck": decks[0], "model": outs[0].get("text")})
    # PPTX malformed: random drawingml trees through _extract_text_from_paragraphs
    from sharepoint2text.parsing.extractors.ms_modern import pptx_extractor as px
    A = "http://schemas.openxmlformats.org/drawingml/2006/main"
    avocab = ["{%s}%s" % (A, t) for t in ("p", "r", "t", "br", "fld", "pPr", "rPr", "txBody", "endParaRPr", "tab")] + ["{urn:other}p", "{urn:other}t"]
    n = ctx.n(150, 4000)
    trees = [_rand_tree(g, 0, avocab) for _ in range(n)]
    outs = ctx.drive([{"op": "c02ooxml.pptx_walk", "txBody": B.et_to_json(t)} for t in trees])
    for t, o in zip(trees, outs):
        ctx.case(("pptx-tree", ET.tostring(t)), True)
        ctx.count("pptx/malformed-tree")
        real, err = _safe(px._extract_text_from_paragraphs, t)
        if err or real != o.get("text"):
            report("c02ooxml.pptx_walk", f"impl={real!r:.300} err={err} model={o.get('text')!r:.300}", {"fmt": "pptx-tree", "xml": ET.tostring(t).decode()})

    # ---- XLSX
    n = ctx.n(60, 1500)
    books = [g.workbook() for _ in range(n)]
    outs = ctx.drive([{"op": "c02ooxml.xlsx", "sheets": [{"name": s["name"], "rows": _grid(s["rows"])} for s in wb]} for wb in books])
    for wb, o in zip(books, outs):
        ctx.case(("xlsx", json.dumps(wb)), True)
        if "drv_error" in o:
            report("driver", o["drv_error"], {"fmt": "xlsx", "book": wb})
            continue
        ctx.count("xlsx/sheets=%d" % len(wb))
        res, verdict = eval_workbook(wb)
        if res is None:
            report("c02ooxml.xlsx", f"crash {verdict}", {"fmt": "xlsx", "book": wb})
            continue
        full, texts = res
        if full != o["text"] or texts != o["sheet_texts"]:
            report("c02ooxml.xlsx", f"impl={full!r:.300} model={o['text']!r:.300}", {"fmt": "xlsx", "book": wb})
        elif verdict is not None and verdict[0] != "unnamed-header-invented":
            report("c02ooxml.xlsx-oracle", f"{verdict}", {"fmt": "xlsx", "book": wb})
    ctx.sample({"fmt": "xlsx", "book": books[0], "model": outs[0].get("text")})
    ctx.coverage["mismatches"] = bad["n"]
    return {"broken": broken, "violations": violations}


def _plain_tree(n):
    return {"tag": n["tag"], "text": n["text"], "tail": n["tail"], "children": [_plain_tree(c) for c in n["children"]]}


# ----------------------------------------------------------------------------- search (oracle on the real code)
KNOWN = {"epub.nested-table-outer-rows-lost", "xlsx.unnamed-header-invented"}


def _inl_any(xs, pred):
    for x in xs:
        if pred(x):
            return True
        k = x[0]
        if k == "link" and _inl_any(x[2], pred):
            return True
        if k in ("ins", "ctl") and _inl_any(x[1], pred):
            return True
        if k == "box" and _blk_any(x[1], lambda b: False, pred):
            return True
    return False


def _blk_any(bs, bpred, ipred):
    """does any block satisfy bpred / any inline (at any depth) satisfy ipred"""
    for b in bs:
        if bpred(b):
            return True
        k = b[0]
        if k in ("p", "h"):
            if _inl_any(b[2], ipred):
                return True
        elif k == "list":
            if any(_blk_any(it, bpred, ipred) for it in b[1]):
                return True
        elif k == "table":
            if any(_blk_any(c, bpred, ipred) for row in b[1] for c in row):
                return True
        elif k == "ctl":
            if _blk_any(b[1], bpred, ipred):
                return True
    return False


def _mechanism(fmt, kind, doc, extra=None):
    """key of ONE failing mechanism: the oracle's verdict kind refined by what the (shrunk) failing document
    contains; anything not recognised keeps the generic '<fmt>.<kind>'"""
    no_b, no_i = (lambda b: False), (lambda x: False)
    if fmt == "docx" and extra and extra.get("dress"):
        # (the shrinker drops every attribute the failure does not need: what is left is the attribute the walk reads)
        return f"docx.{kind}.attribute:" + ",".join(sorted(f"{t.lstrip('#')}@{k.split('}')[-1]}" for t, a in extra["dress"].items() for k in a))
    if fmt == "docx":
        if kind == "merged" and _blk_any(doc, no_b, lambda x: x[0] == "box"):
            return "docx.textbox-paragraphs-fused"
        if kind == "merged" and _blk_any(doc, no_b, lambda x: x[0] in ("tab", "br")):
            return "docx.run-tab-break-ignored"
        if kind == "lost" and _blk_any(doc, lambda b: b[0] == "ctl", no_i):
            return "docx.body-sdt-dropped"
        if kind == "duplicated" and _has_nested_table(doc):
            return "docx.nested-table-duplicated"
    if fmt in ("html", "mhtml"):
        brk = lambda x: x[0] in ("br", "box")
        if kind == "merged" and _blk_any(doc, lambda b: b[0] == "h" and _inl_any(b[2], brk), no_i):
            return "html.heading-breaks-fused"
    if fmt == "epub" and _has_nested_table(doc):
        return "epub.nested-table-outer-rows-lost"
    return f"{fmt}.{kind}"


def _render(ctx, fmt, doc):
    if fmt == "docx":
        o = ctx.drive([{"op": "c02ooxml.docx", "doc": doc}])[0]
        return {"xml": o["xml"]}
    o = ctx.drive([{"op": "c02ooxml.html", "doc": doc, "title": "t0q"}])[0]
    return {"tree": o["tree"]}


def _check_doc(ctx, fmt, doc, extra=None, rendered=None):
    """oracle verdict of the REAL extractor on one document -> Violation or None"""
    ex = dict(rendered if rendered is not None else _render(ctx, fmt, doc))
    ex.update(extra or {})
    if fmt == "docx":
        ex.setdefault("outside", {"comments": ["c1q"], "footnotes": ["n2q"], "endnotes": ["n3q"], "headers": ["h4q"], "footers": ["h5q"]})
    res, v = eval_doc(fmt, doc, ex)
    if v is None:
        return None
    shown = res if isinstance(res, str) else (res[1][:1] if res else None)
    dressed = f" [elements dressed with the attributes {extra['dress']}]" if extra and extra.get("dress") else ""
    viol = Violation(_mechanism(fmt, v[0], doc, extra), f"{fmt}{dressed}: {v[1]} — output {shown!r:.200}",
                     {"fmt": fmt, "doc": doc, **{k: extra[k] for k in ("enc", "bare", "tight", "dress") if extra and k in extra}})
    viol.kind = f"{fmt}.{v[0]}"  # the oracle's verdict alone (what shrinking preserves)
    return viol


def _inl_reductions(xs):
    """every inline list one step smaller: an element deleted, a wrapper replaced by its content, a part reduced"""
    for i, x in enumerate(xs):
        pre, post = xs[:i], xs[i + 1:]
        yield pre + post
        k = x[0]
        if k == "link":
            yield pre + x[2] + post
            for r in _inl_reductions(x[2]):
                yield pre + [["link", x[1], r]] + post
        elif k in ("ins", "ctl"):
            yield pre + x[1] + post
            for r in _inl_reductions(x[1]):
                yield pre + [[k, r]] + post
        elif k == "box":
            for r in _reductions(x[1]):
                yield pre + [["box", r]] + post
        elif k == "t" and len(x[1].split()) > 1:
            yield pre + [["t", x[1].split()[0]]] + post


def _reductions(bs):
    """every block list one step smaller"""
    for i, b in enumerate(bs):
        pre, post = bs[:i], bs[i + 1:]
        yield pre + post
        k = b[0]
        if k == "ctl":
            yield pre + b[1] + post
            for r in _reductions(b[1]):
                yield pre + [["ctl", r]] + post
        elif k == "list":
            yield pre + [x for it in b[1] for x in it] + post
            for j, it in enumerate(b[1]):
                if len(b[1]) > 1:
                    yield pre + [["list", b[1][:j] + b[1][j + 1:]]] + post
                for r in _reductions(it):
                    yield pre + [["list", b[1][:j] + [r] + b[1][j + 1:]]] + post
        elif k == "table":
            rows = b[1]
            yield pre + [x for row in rows for c in row for x in c] + post
            for ri, row in enumerate(rows):
                if len(rows) > 1:
                    yield pre + [["table", rows[:ri] + rows[ri + 1:]]] + post
                for ci, c in enumerate(row):
                    if len(row) > 1:
                        yield pre + [["table", rows[:ri] + [row[:ci] + row[ci + 1:]] + rows[ri + 1:]]] + post
                    for r in _reductions(c):
                        yield pre + [["table", rows[:ri] + [row[:ci] + [r] + row[ci + 1:]] + rows[ri + 1:]]] + post
        elif k in ("p", "h"):
            for r in _inl_reductions(b[2]):
                yield pre + [[k, b[1], r]] + post


def _check_docs(ctx, fmt, docs, extra=None):
    """_check_doc for many documents with ONE driver call"""
    if not docs:
        return []
    if fmt == "docx":
        outs = ctx.drive([{"op": "c02ooxml.docx", "doc": d} for d in docs])
        rendered = [{"xml": o["xml"]} for o in outs]
    else:
        outs = ctx.drive([{"op": "c02ooxml.html", "doc": d, "title": "t0q"} for d in docs])
        rendered = [{"tree": o["tree"]} for o in outs]
    return [_check_doc(ctx, fmt, d, extra, rendered=r) for d, r in zip(docs, rendered)]


def _shrink(ctx, fmt, doc, kind, extra=None):
    """a locally minimal sub-document that still fails with the same verdict kind: repeatedly take the smallest
    one-step reduction (element deleted / wrapper unwrapped, at any depth) that keeps the verdict"""
    import itertools
    best = doc
    for _ in range(120):
        cands = list(itertools.islice(_reductions(best), 400))
        vs = _check_docs(ctx, fmt, cands, extra)
        ok = [c for c, v in zip(cands, vs) if v is not None and v.kind == kind]
        if not ok:
            break
        best = min(ok, key=lambda c: len(json.dumps(c)))
    return best


def _shrink_dress(ctx, fmt, doc, kind, extra):
    """drop element names, then single attributes, while the verdict stays"""
    dress = {t: dict(a) for t, a in extra["dress"].items()}

    def fails(dr):
        v = _check_doc(ctx, fmt, doc, dict(extra, dress=dr))
        return v is not None and v.kind == kind

    for t in sorted(dress):
        cand = {u: a for u, a in dress.items() if u != t}
        if cand and fails(cand):
            dress = cand
    for t in sorted(dress):
        for k in sorted(dress[t]):
            if len(dress[t]) > 1:
                cand = {u: ({x: y for x, y in a.items() if x != k} if u == t else a) for u, a in dress.items()}
                if fails(cand):
                    dress = cand
    return dress


# witnesses of the repaired defects of this part (known_findings.jsonl, status "fixed"): re-run on the real code whenever
# something broke, so that every one of these mechanisms that is back gets its own line with its own concrete input
REGRESSION = [
    ("docx", [["p", "", [["t", "b1q"], ["tab"], ["t", "b2q"], ["br"], ["t", "b3q"]]]]),
    ("docx", [["p", "", [["t", "b1q"]]], ["ctl", [["p", "", [["t", "b2q"]]]]], ["p", "", [["t", "b3q"]]]]),
    ("docx", [["table", [[[["p", "", [["t", "b1q"]]], ["table", [[[["p", "", [["t", "b2q"]]]]]]]]]]]]),
    ("docx", [["p", "", [["t", "b1q"], ["box", [["p", "", [["t", "b2q"]]], ["p", "", [["t", "b3q"]]]]], ["t", "b4q"]]]]),
    ("html", [["h", 2, [["t", "b1q"], ["br"], ["t", "b2q"]]]]),
]


def search(ctx, broken):
    found, seen = [], set()

    def add(v):
        if v is not None and v.key not in seen:
            seen.add(v.key)
            found.append(v)

    def shrunk(fmt, doc, extra):
        v = _check_doc(ctx, fmt, doc, extra)
        if v is None:
            return None
        if extra and extra.get("dress"):
            # a failure that does not need the attributes is a failure of the bare document
            bare = {k: x for k, x in extra.items() if k != "dress"} or None
            vb = _check_doc(ctx, fmt, doc, bare)
            if vb is not None and vb.kind == v.kind:
                return shrunk(fmt, doc, bare)
        small = _shrink(ctx, fmt, doc, v.kind, extra)
        if extra and extra.get("dress"):
            extra = dict(extra, dress=_shrink_dress(ctx, fmt, small, v.kind, extra))
        return _check_doc(ctx, fmt, small, extra) or v

    # 1. the disagreeing cases themselves (each shrunk, then keyed by its mechanism)
    budget = 10
    for b in broken:
        c = b.case if isinstance(b.case, dict) else {}
        fmt = c.get("fmt")
        if fmt in ("docx", "html", "mhtml", "epub") and "doc" in c:
            if budget <= 0:
                continue
            extra = {k: c[k] for k in ("enc", "bare", "tight", "dress") if k in c} or None
            v = _check_doc(ctx, fmt, c["doc"], extra)
            if v is not None:
                budget -= 1
                add(shrunk(fmt, c["doc"], extra))
        elif fmt == "pptx" and "deck" in c:
            add(_deck_violation(ctx, c["deck"]))
        elif fmt == "xlsx" and "book" in c:
            add(_book_violation(c["book"]))
    # 2. the witnesses of the repaired defects
    for fmt, doc in REGRESSION:
        add(_check_doc(ctx, fmt, doc))
    fresh = [v for v in found if v.key not in KNOWN]
    if fresh:
        return found
    # 3. a fresh stream per format
    g = Gen(ctx.rng)
    for _ in range(ctx.n(150, 1500)):
        d = g.doc()
        for fmt, extra in (("docx", None), ("docx", {"dress": gen_dress(ctx.rng, 0.7)}), ("html", None),
                           ("html", {"bare": True, "tight": True}), ("html", {"tight": True}),
                           ("epub", None), ("epub", {"bare": True, "tight": True})):
            v = _check_doc(ctx, fmt, d, extra)
            if v is not None and v.key not in seen:
                add(shrunk(fmt, d, extra))
        if any(v.key not in KNOWN for v in found):
            return found
    for _ in range(ctx.n(100, 1000)):
        add(_deck_violation(ctx, g.deck()))
        add(_book_violation(g.workbook()))
        if any(v.key not in KNOWN for v in found):
            return found
    return found


def _deck_violation(ctx, deck):
    o = ctx.drive([{"op": "c02ooxml.pptx", "slides": deck}])[0]
    res, v = eval_deck(deck, o["bodies"])
    if v is None:
        return None
    # shrink: single slides, then single shapes
    for sl in deck:
        o1 = ctx.drive([{"op": "c02ooxml.pptx", "slides": [sl]}])[0]
        r1, v1 = eval_deck([sl], o1["bodies"])
        if v1 is not None and v1[0] == v[0]:
            deck, res, v = [sl], r1, v1
            break
    return Violation(f"pptx.{v[0]}", f"pptx: {v[1]} — output {(res[0] if res else None)!r:.200}", {"fmt": "pptx", "deck": deck})


def _book_violation(book):
    res, v = eval_workbook(book)
    if v is None:
        return None
    for sh in book:
        r1, v1 = eval_workbook([sh])
        if v1 is not None and v1[0] == v[0]:
            book, res, v = [sh], r1, v1
            break
    return Violation(f"xlsx.{v[0]}", f"xlsx: {v[1]} — output {(res[0] if res else None)!r:.200}", {"fmt": "xlsx", "book": book})


# ----------------------------------------------------------------------------- known findings / replay
WITNESS_EPUB = [["table", [[[["p", "", [["t", "b1q"]]]], [["p", "", [["t", "b2q"]]]]],
                           [[["p", "", [["t", "b3q"]]], ["table", [[[["p", "", [["t", "b4q"]]]]]]]], [["p", "", [["t", "b5q"]]]]]]]]
WITNESS_XLSX = [{"name": "S", "rows": [["b1q", None, "b2q"], ["b3q", "b4q", "b5q"]]}]


def known_witnesses(ctx):
    out = []
    v = _check_doc(ctx, "epub", WITNESS_EPUB)
    if v is not None:
        out.append(Violation("epub.nested-table-outer-rows-lost", v.what, v.replay))
    else:
        ctx.notes.append("known finding epub.nested-table-outer-rows-lost: the committed witness no longer fails")
    v = _book_violation(WITNESS_XLSX)
    if v is not None and v.key == "xlsx.unnamed-header-invented":
        out.append(v)
    else:
        ctx.notes.append("known finding xlsx.unnamed-header-invented: the committed witness no longer fails")
    return out


def replay(ctx, payload):
    rep = payload.get("replay", {})
    fmt = rep.get("fmt")
    if fmt in ("docx", "html", "mhtml", "epub") and "doc" in rep:
        v = _check_doc(ctx, fmt, rep["doc"], {k: rep[k] for k in ("enc", "bare", "tight", "dress") if k in rep} or None)
    elif fmt == "pptx":
        v = _deck_violation(ctx, rep["deck"])
    elif fmt == "xlsx":
        v = _book_violation(rep["book"])
    else:
        return False, "replay names a broken obligation, not an input: " + payload.get("what", "")
    return (v is None), (v.what if v else "property holds on the recorded input")
