"""C11 — ZIP-container bomb guard decides exactly and runs before any read.

Correspondence of S2T.Model.ZipBomb with zip_bomb.validate_zipfile / open_zipfile /
validate_zip_bytesio and with the nine ZIP-container extractors (runtime monitor), over a
boundary lattice of (limits, entry vectors); oracle = the property statement itself, evaluated
with exact rationals (fractions.Fraction), independent of the Lean model."""
from __future__ import annotations

import hashlib
import io
import os
import struct
import zipfile
from fractions import Fraction

from run import REPO, VERIF, Broken, Violation

GEN = ["ZipBomb", "ZipOpenSites", "PyZipBomb"]
RULE = ("(limits, entries) on a boundary lattice: for each of the six thresholds (entry count, single size, "
        "entry ratio, total size, total ratio, zero-compressed) a container placed at threshold-1/0/+1, alone and "
        "combined in pairs, plus directory entries with wild sizes, plus sizes where size/csize lies within 1 ulp "
        "of the ratio limit (2^40..2^70 bytes); realised as in-memory ZipInfo lists (validate_zipfile), as real ZIPs "
        "with forged central directories (open_zipfile, validate_zip_bytesio, random start positions; truncated / "
        "garbage containers as the malformed stream) and as re-packed fixture documents with forged extra members "
        "run through all nine container extractors under a runtime monitor. FIELDS: in about half of the cases every "
        "other ZipInfo / central-directory field is varied independently of (file_size, compress_size, trailing slash): "
        "member name (directory-looking file names 'd', 'd\\', 'd/.', 'd/ ', '', duplicates; directory names '/', "
        "'f.bin/'), external_attr (MS-DOS directory bit 0x10, unix S_IFDIR / S_IFLNK modes, 0xFFFFFFFF), internal_attr, "
        "create_system, create/extract version, flag_bits (encrypted, data descriptor, UTF-8, all), compress_type, CRC, "
        "DOS date/time, disk number, extra (timestamp / unix / NTFS / unicode-path / unknown / unreferenced ZIP64 "
        "TLVs), member comment, archive comment; sizes >= 2^32 as ZIP64 extras in real ZIPs; the `source=` label; the "
        "Lean driver receives the whole record and derives 'directory' from the NAME (Entry.ofRecord); forged fixture "
        "points '<point>@<decor>' (decor on the forged members) and '<point>@@<decor>' (on every member). distinct = "
        "distinct (limits, entries[, fields]) or (extractor, forged point); non-trivial = at least one non-directory entry")
ASSUMPTIONS = [
    "sizes in a ZipInfo are non-negative ints (unsigned ZIP/ZIP64 fields; zipfile unpacks them with '<L'/'<Q'); "
    "negative or non-integer sizes on hand-made ZipInfo objects are outside the model",
    "limits are finite and non-negative: int limits as Nat, ratio limits as the exact fraction of the int/float "
    "(inf/nan/negative limits are outside the model)",
    "zipfile.ZipFile(file) reads only the central directory (no member is decompressed by the constructor) and "
    "ZipFile.read/open never returns more than the central directory's file_size (DESIGN §4.5)",
    "zipfile's constructor result and the position it leaves the stream at are parameters of the model (any value)",
    "a ZIP-container document is one routed to read_docx/pptx/xlsx/odt/ods/odp/odg/odf/epub; the generic archive "
    "extractor (.zip/.tar/.7z) opens zipfile.ZipFile unguarded by design and belongs to C09/C12",
    "the entry-count clause counts central-directory records including directory entries (len(infolist())); "
    "'directory entries are ignored' is read as: their sizes never matter",
    "a 'directory entry' is a record whose NAME ends with '/' (CPython posix ZipInfo.is_dir()); CHECKED on every run: "
    "ZipInfo.is_dir() == filename.endswith('/') on every generated name, and zipfile hands out name / sizes / "
    "attributes of every forged central directory as written (own parser vs. zipfile) — c11.zipfile.is_dir / .parse",
    "not generated: names with NUL bytes or non-ASCII characters, unicode-path extras (0x7075) with a matching CRC "
    "(zipfile then replaces the member name), extract_version > 63 (zipfile refuses the archive), data prepended "
    "to the archive (self-extractor stubs), multi-disk archives",
]
TRUSTED = [
    "hand model S2T/Model/ZipBomb.lean of validate_zipfile/open_zipfile/validate_zip_bytesio/ZipContext.__init__",
    "AST dominance analysis in tools/gen/zipbomb.py (inventory of ZipFile(/load_workbook(/open_zipfile sites)",
    "runtime monitor: class-level wrappers of zipfile.ZipFile.__init__/open/read and of zip_bomb.validate_zipfile",
]

DOCUMENTED = dict(me=50_000, mt=4 * 1024 ** 3, ms=1024 ** 3, tr=200.0, er=500.0)
REASONS = [
    ("Failed to inspect ZIP container", "inspectFailed"),
    ("ZIP container has too many entries", "tooManyEntries"),
    ("ZIP entry too large", "entryTooLarge"),
    ("ZIP entry has zero compressed size", "entryZeroCompressed"),
    ("ZIP entry compression ratio too high", "entryRatio"),
    ("ZIP total uncompressed size too large", "totalTooLarge"),
    ("ZIP container has non-zero uncompressed content but zero total", "totalZeroCompressed"),
    ("ZIP total compression ratio too high", "totalRatio"),
]


# ----------------------------------------------------------------------------- library access
def _zb():
    from sharepoint2text.parsing.extractors.util import zip_bomb
    return zip_bomb


def _bomb_error():
    from sharepoint2text.parsing.exceptions import ExtractionZipBombError
    return ExtractionZipBombError


def _limits(limd):
    return _zb().ZipBombLimits(max_entries=limd["me"], max_total_uncompressed_bytes=limd["mt"],
                               max_single_uncompressed_bytes=limd["ms"], max_total_compression_ratio=limd["tr"],
                               max_entry_compression_ratio=limd["er"])


def _classify(exc):
    """'ok' | 'bomb' | 'other:<Class>' (+ reason tag from the message, informational only)"""
    if exc is None:
        return "ok", None
    if type(exc) is _bomb_error():
        msg = str(exc)
        for prefix, tag in REASONS:
            if prefix in msg:
                return "bomb", tag
        return "bomb", "?"
    return "other:" + type(exc).__name__, None


class _FakeZip:
    def __init__(self, infos, fail=False):
        self._infos, self._fail = infos, fail

    def infolist(self):
        if self._fail:
            raise RuntimeError("central directory unreadable")
        return self._infos


def _zipinfos(entries, dec=None):
    """in-memory ZipInfo list; `dec` (parallel list of field dicts, see `_decorate`) sets the member name and
    every other ZipInfo attribute independently of (file_size, compress_size)"""
    out = []
    for i, (fs, cs, d) in enumerate(entries):
        f = dec[i] if dec else None
        zi = zipfile.ZipInfo(f["name"] if f and "name" in f else (f"d{i}/" if d else f"f{i}.bin"))
        zi.file_size, zi.compress_size = fs, cs
        if f:
            _apply_fields(zi, f)
        out.append(zi)
    return out


SOURCES = [None, "", "c11", "a/b.docx", "trusted", "dir/", "s" * 300]


def _source_for(entries):
    """the `source=` label: must not influence the verdict; a function of the case so that replays need not store it"""
    es = entries or []
    return SOURCES[(len(es) + sum((f or 0) + 3 * (c or 0) for f, c, _ in es)) % len(SOURCES)]


def _run_validate(limd, entries, fail=False, dec=None):
    try:
        _zb().validate_zipfile(_FakeZip(_zipinfos(entries, dec) if entries is not None else None, fail), limits=_limits(limd),
                               source=_source_for(entries))
        return _classify(None)
    except Exception as e:  # noqa: BLE001 — every outcome is data here
        return _classify(e)


# ----------------------------------------------------------------------------- oracle: the property statement
def _spec(limd, entries):
    """set of limit clauses the container exceeds (exact rationals); empty = must be accepted"""
    cl = set()
    if len(entries) > limd["me"]:
        cl.add("count")
    tu = tc = 0
    er, tr = Fraction(limd["er"]), Fraction(limd["tr"])
    for fs, cs, d in entries:
        if d:
            continue
        fs, cs = fs or 0, cs or 0
        if fs > limd["ms"]:
            cl.add("single")
        if fs > 0 and cs == 0:
            cl.add("zero")
        if cs > 0 and Fraction(fs, cs) > er:
            cl.add("eratio")
        tu += fs
        tc += cs
    if tu > limd["mt"]:
        cl.add("total")
    if tc > 0 and Fraction(tu, tc) > tr:
        cl.add("tratio")
    return cl


def _lim_json(limd):
    tr, er = Fraction(limd["tr"]), Fraction(limd["er"])
    return {"me": limd["me"], "mt": limd["mt"], "ms": limd["ms"],
            "tr": [tr.numerator, tr.denominator], "er": [er.numerator, er.denominator]}


def _lim_replay(limd):
    return {k: (v.hex() if isinstance(v, float) else v) for k, v in limd.items()}


def _lim_from_replay(d):
    return {k: (float.fromhex(v) if isinstance(v, str) else v) for k, v in d.items()}


def _rle(entries):
    out = []
    for e in entries:
        e = [e[0], e[1], bool(e[2])]
        if out and out[-1][:3] == e:
            out[-1][3] += 1
        else:
            out.append(e + [1])
    return out


def _unrle(r):
    out = []
    for fs, cs, d, n in r:
        out += [(fs, cs, bool(d))] * n
    return out


# ----------------------------------------------------------------------------- lattice generator
RATIOS = [500.0, 200.0, 2.5, 0.1, 1 / 3, 10, 7, 1.0, 1e-3, 123.456, 2.0 ** -20, 65536.0, 1e6, 3, 0.75, 0.0]


def _rand_limits(rng, huge=False):
    if rng.random() < 0.15 and not huge:
        return dict(DOCUMENTED)
    me = rng.choice([0, 1, 2, 3, 4, 6, 9, 17])
    ms = rng.choice([0, 1, 2, 9, 100, 4096, 10 ** 6, 2 ** 30, 2 ** 31 - 1, 2 ** 32])
    mt = rng.choice([0, 1, 5, 64, 1000, 10 ** 5, 10 ** 7, 2 ** 32, 2 ** 33 + 1])
    if huge:
        ms, mt = 2 ** rng.choice([80, 100]), 2 ** 120
        me = rng.choice([2, 5, 9])
    return dict(me=me, mt=mt, ms=ms, tr=rng.choice(RATIOS), er=rng.choice(RATIOS))


def _cs_for(fs, ratio, rng):
    """a compressed size that keeps fs/cs <= ratio (so this entry trips no ratio clause by itself)"""
    r = Fraction(ratio)
    if r == 0:
        return rng.choice([1, 7])
    need = -(-Fraction(fs) // r)  # ceil(fs / r)
    return max(1, int(need) + rng.choice([0, 0, 1, 5]))


def _benign(rng, limd, k):
    es, tu = [], 0
    for _ in range(k):
        cs = rng.choice([1, 2, 10, 100, 1000, 4096])
        cap = min(limd["ms"], max(0, limd["mt"] - tu), int(Fraction(limd["er"]) * cs), int(Fraction(limd["tr"]) * cs))
        fs = rng.randint(0, cap) if cap > 0 and rng.random() < 0.9 else 0
        es.append((fs, cs, False))
        tu += fs
    return es


def _totals(es):
    return sum(f for f, c, d in es if not d), sum(c for f, c, d in es if not d)


def _perturb(rng, limd, es, which, d):
    es = list(es)
    er, tr = Fraction(limd["er"]), Fraction(limd["tr"])
    if which == "count":
        n = limd["me"] + d
        if n < 0:
            return es
        while len(es) > n:
            es.pop(rng.randrange(len(es)))
        while len(es) < n:
            es.insert(rng.randint(0, len(es)), rng.choice([(0, 0, True), (0, 0, False), (0, 5, False), (77, 0, True)]))
    elif which == "single":
        fs = limd["ms"] + d
        if fs >= 0:
            es.append((fs, _cs_for(fs, min(er, tr) if rng.random() < 0.7 else er, rng), False))
    elif which == "eratio":
        cs = rng.choice([1, 2, 3, 7, 10, 1000, 2 ** 20, 10 ** 9 + 7])
        fs = int(er * cs) + d
        if fs >= 0:
            es.append((fs, cs, False))
            if rng.random() < 0.7:      # dilute the total ratio so that only the entry clause is at stake
                es.append((0, _cs_for(fs + _totals(es)[0], tr, rng) + cs, False))
    elif which == "total":
        tu, _ = _totals(es)
        rest = limd["mt"] + d - tu
        chunks = 0
        while rest > 0 and chunks < 6:
            c = min(rest, limd["ms"]) if limd["ms"] > 0 and chunks < 5 else rest
            es.append((c, _cs_for(c, min(er, tr), rng), False))
            rest -= c
            chunks += 1
    elif which == "tratio":
        tu, tc = _totals(es)
        cs = rng.choice([1, 3, 10, 999, 2 ** 16])
        fs = int(tr * (tc + cs)) - tu + d
        if fs >= 0:
            es.append((fs, cs, False))
    elif which == "zero":
        es.append(((1 if d >= 0 else 0) + (rng.choice([0, 5]) if d > 0 else 0), 0, False))
    elif which == "dirs":
        for _ in range(rng.randint(1, 3)):
            es.insert(rng.randint(0, len(es)), (rng.choice([0, 1, 2 ** 31, 2 ** 64, 10 ** 30]), rng.choice([0, 1, 10 ** 12]), True))
    return es


CLAUSES = ["count", "single", "eratio", "total", "tratio", "zero", "dirs"]


def _ulp_case(rng):
    """sizes where size/csize is within a few ulps above the ratio limit"""
    limd = _rand_limits(rng, huge=True)
    which = rng.choice(["er", "tr"])
    L = rng.choice([500.0, 200.0, 2.5, 10, 7, 1.0, 123.456, 3, 0.75, 65536.0, 1 / 3, 0.1])
    limd[which] = L
    limd["tr" if which == "er" else "er"] = 1e30
    k = rng.randint(38, 70)
    cs = 2 ** k + rng.choice([0, 0, 1, rng.randrange(2 ** 20)])
    fs = int(Fraction(L) * cs) + rng.choice([0, 1, 1, 2, 3])
    es = [(fs, cs, False)]
    if rng.random() < 0.3:
        es.insert(0, (2 ** 70, 0, True))
    return limd, es, "ulp-" + which


def _canonical_ulp():
    """the tidiest inputs on which a float quotient rounds onto the limit: (L*2^k + 1) / 2^k"""
    for which, L in (("er", 500.0), ("tr", 200.0), ("er", 10), ("tr", 2.5)):
        for k in (45, 46, 52, 60):
            limd = dict(me=5, mt=2 ** 120, ms=2 ** 100, tr=1e30, er=1e30)
            limd[which] = L
            q = Fraction(L)
            yield limd, [(int(q * 2 ** k) + 1, 2 ** k, False)], "ulp-" + which


def _lattice(rng, n):
    """yields (limd, entries, tag)"""
    yield from _canonical_ulp()
    for i in range(n):
        r = rng.random()
        if r < 0.12:
            yield _ulp_case(rng)
            continue
        limd = _rand_limits(rng)
        small_me = limd["me"] if limd["me"] < 100 else 6
        es = _benign(rng, limd, rng.randint(0, max(0, min(small_me, 5))))
        if r < 0.50:
            w = rng.choice(CLAUSES)
            if w == "count" and limd["me"] > 100:
                w = "single"
            es = _perturb(rng, limd, es, w, rng.choice([-1, 0, 1]))
            tag = w
        elif r < 0.88:
            w1, w2 = rng.sample(CLAUSES, 2)
            if limd["me"] > 100:
                w1, w2 = (w if w != "count" else "dirs" for w in (w1, w2))
            es = _perturb(rng, limd, es, w1, rng.choice([-1, 0, 1]))
            es = _perturb(rng, limd, es, w2, rng.choice([-1, 0, 1]))
            if "count" in (w1, w2) and w2 != "count":      # keep the count where it was put
                es = _perturb(rng, limd, es, "count", len(es) - limd["me"] if abs(len(es) - limd["me"]) <= 1 else rng.choice([-1, 0, 1]))
            tag = f"{w1}+{w2}"
        else:
            tag = "random"
            es = [(rng.choice([0, 1, 5, 10 ** 3, 2 ** 30, 2 ** 32 + 1]), rng.choice([0, 1, 2, 10 ** 3, 2 ** 30]), rng.random() < 0.2)
                  for _ in range(rng.randint(0, 7))]
        if rng.random() < 0.3:
            rng.shuffle(es)
        yield limd, es, tag


# ----------------------------------------------------------------------------- real ZIPs with forged central directories
def _build_zip(members):
    """members: [(name, data, is_dir)] -> bytes"""
    buf = io.BytesIO()
    with zipfile.ZipFile(buf, "w") as zf:
        for name, data, is_dir in members:
            zi = zipfile.ZipInfo(name)
            zi.compress_type = zipfile.ZIP_STORED if (is_dir or name == "mimetype" or not data) else zipfile.ZIP_DEFLATED
            zf.writestr(zi, b"" if is_dir else data)
    return buf.getvalue()


def _central_directory(data):
    """own parser (independent of zipfile): [(offset_of_header, name, compress_size, file_size)]; no ZIP64"""
    eocd = data.rfind(b"PK\x05\x06")
    if eocd < 0:
        raise ValueError("no EOCD")
    n, size, off = struct.unpack_from("<HLL", data, eocd + 10)
    out, p = [], off
    for _ in range(n):
        if data[p:p + 4] != b"PK\x01\x02":
            raise ValueError("bad central header")
        cs, fs, nl, el, cl = struct.unpack_from("<LLHHH", data, p + 20)
        name = data[p + 46:p + 46 + nl].decode("utf-8", "replace")
        out.append((p, name, cs, fs))
        p += 46 + nl + el + cl
    return out


def _forge(data, sizes):
    """sizes: {member name: (file_size, compress_size)} written into the central directory (32-bit fields)"""
    b = bytearray(data)
    for p, name, cs, fs in _central_directory(data):
        if name in sizes:
            nfs, ncs = sizes[name]
            assert 0 <= nfs < 0xFFFFFFFF and 0 <= ncs < 0xFFFFFFFF
            struct.pack_into("<LL", b, p + 20, ncs, nfs)
    return bytes(b)


def _entries_of(data):
    """(file_size, compress_size, name ends with '/') per record, own parser (ZIP64 extra decoded)"""
    return [_eff_sizes(r) + (r["name"].endswith("/"),) for r in _cd_records(data)[0]]


def _recs_of(data):
    """full records of a real ZIP for the Lean driver, from the own parser"""
    return [_rec_json(*_eff_sizes(r), r["name"].endswith("/"), r) for r in _cd_records(data)[0]]


def _zip_for_entries(rng, entries, dec=None, zcomment=b""):
    """a real ZIP whose central directory claims exactly `entries` (sizes < 2^64; beyond 32 bits through ZIP64
    extras) with the names / other fields of `dec`, or None"""
    big = any(f >= 0xFFFFFFFF or c >= 0xFFFFFFFF for f, c, _ in entries)
    if any(f >= 2 ** 64 or c >= 2 ** 64 for f, c, _ in entries) or len(entries) > 2000:
        return None
    members, sizes = [], {}
    for i, (fs, cs, d) in enumerate(entries):
        name = f"d{i}/" if d else f"m{i}.bin"
        members.append((name, bytes(rng.getrandbits(8) for _ in range(rng.randint(0, 12))), d))
        sizes[name] = (fs, cs)
    base = _build_zip(members)
    if not dec and not big and not zcomment:
        return _forge(base, sizes)
    edits = {}
    for i, (fs, cs, d) in enumerate(entries):
        edits[i] = dict(dec[i]) if dec else {}
        edits[i]["sizes"] = (fs, cs)
    return _forge_fields(base, edits, zcomment)


# ----------------------------------------------------------------------------- every other ZipInfo / central-directory field
# The property quantifies over (file_size, compress_size, is_dir) per entry, "directory entry" = the member NAME
# ends with '/' (CPython's ZipInfo.is_dir(); theorem S2T.C11.Fields.dir_is_trailing_slash).  Everything else a
# central-directory record carries is varied INDEPENDENTLY here, so that a guard which starts to consult one of
# these fields (MS-DOS directory bit, unix mode, creating system, flags, method, extra, CRC, date, comment, …)
# meets records on which that field disagrees with the name.
S_IFDIR, S_IFREG, S_IFLNK = 0o040000, 0o100000, 0o120000


def _tlv(tag, body):
    return struct.pack("<HH", tag, len(body)) + body


EXTRAS = [
    _tlv(0x5455, b"\x03" + struct.pack("<LL", 0, 2 ** 31 - 1)),                              # extended timestamp
    _tlv(0x7875, b"\x01\x04" + struct.pack("<L", 0) + b"\x04" + struct.pack("<L", 0)),       # Info-ZIP unix uid/gid
    _tlv(0x000A, b"\0" * 4 + _tlv(1, b"\0" * 24)),                                           # NTFS times
    _tlv(0x7075, b"\x02" + struct.pack("<L", 0) + b"dir/"),       # unicode-path extra, version 2: zipfile ignores it
    _tlv(0xCAFE, b"/dir/"),                                       # unknown tag
    _tlv(0x5455, b"\x01" + struct.pack("<L", 1)) + _tlv(0xCAFE, b""),
    _tlv(0x0001, b""),                                            # ZIP64 tag with nothing in it
    _tlv(0x0001, struct.pack("<QQ", 2 ** 40, 1)),                 # ZIP64 values that no 32-bit field refers to
]
FIELD_POOLS = {
    "external_attr": [0x10, 0x30, 0x20, 0x01, (S_IFDIR | 0o755) << 16, ((S_IFDIR | 0o755) << 16) | 0x10,
                      (S_IFREG | 0o644) << 16, (S_IFLNK | 0o777) << 16, 0xFFFFFFFF, 0],
    "internal_attr": [1, 0xFFFF],
    "create_system": [0, 3, 10, 19, 255],
    "create_version": [10, 45, 63, 255],
    "extract_version": [0, 10, 45, 63],          # > 63: zipfile refuses the whole archive (NotImplementedError)
    "flag_bits": [0x1, 0x8, 0x800, 0x2000, 0x41, 0x809, 0xFFFF],
    "compress_type": [0, 8, 12, 14, 93, 99, 1, 0xFFFF],
    "CRC": [0, 0xFFFFFFFF, 0xDEADBEEF],
    "dos": [[0, 0], [0xFFFF, 0xFFFF], [0x21, 0], [(44 << 9) | (2 << 5) | 29, 12 << 11]],
    "extra": [e.hex() for e in EXTRAS],
    "comment": [b"/".hex(), b"directory".hex(), (b"c" * 300).hex()],
    "volume": [1, 0xFFFF],
}
FIELD_DEFAULT = {"external_attr": 0, "internal_attr": 0, "create_system": 3, "create_version": 20, "extract_version": 20,
                 "flag_bits": 0, "compress_type": 0, "CRC": 0, "dos": [0x21, 0], "extra": "", "comment": "", "volume": 0}
HOT = ("external_attr", "create_system", "flag_bits", "compress_type")
DIR_NAMES = ["d{i}/", "a/b/d{i}/", "f{i}.bin/", "D{i}\\/", "/", " {i}/", "d{i}//"]
FILE_NAMES = ["f{i}.bin", "d{i}", "d{i}\\", "d{i}/.", "d{i}/ ", "dir{i}/x", "d{i}//x", "{i}/\\", "", "word/document{i}.xml",
              "d{i}/\n"]


def _decorate(rng, entries, p=None):
    """parallel list of field dicts: a member name of the entry's kind (trailing slash or not; directory-looking
    file names, duplicates) and every other field drawn independently (each absent = zipfile's default)"""
    dec, names = [], {True: [], False: []}
    p = p if p is not None else rng.choice([0.15, 0.3, 0.6])
    for i, (fs, cs, d) in enumerate(entries):
        d = bool(d)
        if names[d] and rng.random() < 0.12:
            name = rng.choice(names[d])                       # duplicate member name
        else:
            name = rng.choice(DIR_NAMES if d else FILE_NAMES).replace("{i}", str(i))
        names[d].append(name)
        f = {"name": name}
        for k, pool in FIELD_POOLS.items():
            if rng.random() < (min(0.7, 2 * p) if k in HOT else p):
                f[k] = rng.choice(pool)
        dec.append(f)
    return dec


def _dos_datetime(d, t):
    return ((d >> 9) + 1980, (d >> 5) & 0xF, d & 0x1F, t >> 11, (t >> 5) & 0x3F, (t & 0x1F) * 2)


def _apply_fields(zi, f):
    for k in ("external_attr", "internal_attr", "create_system", "create_version", "extract_version", "flag_bits",
              "compress_type", "CRC", "volume"):
        if k in f:
            setattr(zi, k, f[k])
    if "dos" in f:
        zi._raw_time = f["dos"][1]
        zi.date_time = _dos_datetime(*f["dos"])
    if "extra" in f:
        zi.extra = bytes.fromhex(f["extra"])
    if "comment" in f:
        zi.comment = bytes.fromhex(f["comment"])


def _with_names(es, dec):
    """entries whose directory flag is what the NAME says (the property's notion), for the oracle"""
    if not dec:
        return list(es)
    return [(fs, cs, f["name"].endswith("/") if f and "name" in f else bool(d)) for (fs, cs, d), f in zip(es, dec)]


def _rec_json(fs, cs, d, f, i=0):
    """one full record for the Lean driver (op c11.validate with "recs"): the model derives is_dir from the name"""
    f = f or {}
    g = lambda k: f.get(k, FIELD_DEFAULT[k])
    return [fs or 0, cs or 0, f.get("name", f"d{i}/" if d else f"f{i}.bin"), g("external_attr"), g("internal_attr"),
            g("create_system"), g("create_version"), g("extract_version"), g("flag_bits"), g("compress_type"), g("CRC"),
            g("dos")[0], g("dos")[1], g("volume"), list(bytes.fromhex(g("extra"))), list(bytes.fromhex(g("comment")))]


_CDH = struct.Struct("<4s4B4HL2L5H2L")


def _cd_records(data):
    """own parser of the whole central directory (independent of zipfile): (records, cd offset, eocd offset)"""
    eocd = data.rfind(b"PK\x05\x06")
    if eocd < 0:
        raise ValueError("no EOCD")
    n, size, off = struct.unpack_from("<HLL", data, eocd + 10)
    recs, p = [], off
    for _ in range(n):
        (sig, cver, csys, xver, res, flags, ctype, t, d, crc, cs, fs, nl, el, cl, disk, iattr, eattr, hoff) = _CDH.unpack_from(data, p)
        if sig != b"PK\x01\x02":
            raise ValueError("bad central header")
        q = p + 46
        recs.append({"name": data[q:q + nl].decode("utf-8", "replace"), "create_version": cver, "create_system": csys,
                     "extract_version": xver, "reserved": res, "flag_bits": flags, "compress_type": ctype, "dos": [d, t],
                     "CRC": crc, "cs32": cs, "fs32": fs, "volume": disk, "internal_attr": iattr, "external_attr": eattr,
                     "header_offset": hoff, "extra": data[q + nl:q + nl + el].hex(), "comment": data[q + nl + el:q + nl + el + cl].hex()})
        p = q + nl + el + cl
    return recs, off, eocd


def _tlvs(extra):
    out = []
    while len(extra) >= 4:
        tp, ln = struct.unpack_from("<HH", extra)
        out.append((tp, extra[4:4 + ln]))
        extra = extra[4 + ln:]
    return out


def _eff_sizes(r):
    """(file_size, compress_size) a record claims: the 32-bit fields, or the ZIP64 extra where they say 0xFFFFFFFF"""
    fs, cs = r["fs32"], r["cs32"]
    if fs == 0xFFFFFFFF or cs == 0xFFFFFFFF:
        for tp, body in _tlvs(bytes.fromhex(r["extra"])):
            if tp == 1:
                if fs == 0xFFFFFFFF:
                    fs, body = struct.unpack_from("<Q", body)[0], body[8:]
                if cs == 0xFFFFFFFF:
                    cs = struct.unpack_from("<Q", body)[0]
                break
    return fs, cs


def _set_sizes(r, fs, cs):
    """claim (fs, cs) < 2^64; sizes that do not fit 32 bits go to a ZIP64 extra placed first"""
    extra = bytes.fromhex(r["extra"])
    body = b""
    r["fs32"], r["cs32"] = fs, cs
    if fs >= 0xFFFFFFFF:
        r["fs32"], body = 0xFFFFFFFF, body + struct.pack("<Q", fs)
    if cs >= 0xFFFFFFFF:
        r["cs32"], body = 0xFFFFFFFF, body + struct.pack("<Q", cs)
    if body:
        extra = _tlv(1, body) + b"".join(_tlv(tp, b) for tp, b in _tlvs(extra) if tp != 1)
    r["extra"] = extra.hex()


def _emit_cd(data, recs, off, zcomment=b""):
    out = [data[:off]]
    n = 0
    for r in recs:
        name, extra, comment = r["name"].encode("utf-8"), bytes.fromhex(r["extra"]), bytes.fromhex(r["comment"])
        out.append(_CDH.pack(b"PK\x01\x02", r["create_version"], r["create_system"], r["extract_version"], r["reserved"],
                             r["flag_bits"], r["compress_type"], r["dos"][1], r["dos"][0], r["CRC"], r["cs32"], r["fs32"],
                             len(name), len(extra), len(comment), r["volume"], r["internal_attr"], r["external_attr"],
                             r["header_offset"]) + name + extra + comment)
        n += len(out[-1])
    out.append(struct.pack("<4s4H2LH", b"PK\x05\x06", 0, 0, len(recs), len(recs), n, off, len(zcomment)) + zcomment)
    return b"".join(out)


def _forge_fields(data, edits, zcomment=b""):
    """edits: {index or member name: {"sizes": (file_size, compress_size), "name":…, <field>: …}} re-written into the
    central directory (variable-length fields included; the local headers and member data stay as they are)"""
    recs, off, _ = _cd_records(data)
    for i, r in enumerate(recs):
        for key in (i, r["name"]):
            f = edits.get(key)
            if not f:
                continue
            for k, v in f.items():
                if k != "sizes":
                    r[k] = v
            if "sizes" in f:
                _set_sizes(r, *f["sizes"])
            break
    return _emit_cd(data, recs, off, zcomment)


# ----------------------------------------------------------------------------- runtime monitor
class _Monitor:
    """logs ('c',k) ZipFile constructed / ('v',k,ok) validate_zipfile finished / ('r',k) member opened,
    k = digest of the container bytes"""

    def __init__(self):
        self.log, self.instances = [], []

    @staticmethod
    def _key(fp):
        try:
            if hasattr(fp, "getvalue"):
                raw = fp.getvalue()
            elif isinstance(fp, (str, bytes, os.PathLike)):
                with open(fp, "rb") as fh:
                    raw = fh.read()
            else:
                pos = fp.tell(); fp.seek(0); raw = fp.read(); fp.seek(pos)
            return int.from_bytes(hashlib.blake2b(raw, digest_size=7).digest(), "big")
        except Exception:  # noqa: BLE001
            return id(fp) % (1 << 56)

    def __enter__(self):
        zb = _zb()
        mon = self
        self._saved = (zipfile.ZipFile.__init__, zipfile.ZipFile.open, zipfile.ZipFile.read, zb.validate_zipfile)
        o_init, o_open, o_read, o_val = self._saved

        def init(zf, file, *a, **kw):
            k = mon._key(file)
            zf._c11_key = k
            mon.log.append(("c", k))
            mon.instances.append(zf)
            return o_init(zf, file, *a, **kw)

        def zopen(zf, *a, **kw):
            mon.log.append(("r", getattr(zf, "_c11_key", 0)))
            return o_open(zf, *a, **kw)

        def zread(zf, *a, **kw):
            mon.log.append(("r", getattr(zf, "_c11_key", 0)))
            return o_read(zf, *a, **kw)

        def val(zf, *a, **kw):
            k = getattr(zf, "_c11_key", None)
            if k is None:
                k = mon._key(getattr(zf, "fp", zf))
            try:
                r = o_val(zf, *a, **kw)
            except BaseException:
                mon.log.append(("v", k, False))
                raise
            mon.log.append(("v", k, True))
            return r

        zipfile.ZipFile.__init__, zipfile.ZipFile.open, zipfile.ZipFile.read = init, zopen, zread
        zb.validate_zipfile = val
        return self

    def __exit__(self, *a):
        zipfile.ZipFile.__init__, zipfile.ZipFile.open, zipfile.ZipFile.read, _zb().validate_zipfile = self._saved
        return False


def _log_ok(log):
    """python twin of the Lean acceptor (used only by the oracle)"""
    okd = set()
    for ev in log:
        if ev[0] == "v" and ev[2]:
            okd.add(ev[1])
        elif ev[0] == "r" and ev[1] not in okd:
            return False
    return True


# ----------------------------------------------------------------------------- extractors on forged fixture documents
FIXTURES = [
    ("read_xlsx", "sharepoint2text.parsing.extractors.ms_modern.xlsx_extractor", "modern_ms/mwe.xlsx"),
    ("read_docx", "sharepoint2text.parsing.extractors.ms_modern.docx_extractor", "modern_ms/headings.docx"),
    ("read_pptx", "sharepoint2text.parsing.extractors.ms_modern.pptx_extractor", "modern_ms/pptx_table.pptx"),
    ("read_odt", "sharepoint2text.parsing.extractors.open_office.odt_extractor", "open_office/sample_document.odt"),
    ("read_ods", "sharepoint2text.parsing.extractors.open_office.ods_extractor", "open_office/sample_spreadsheet.ods"),
    ("read_odp", "sharepoint2text.parsing.extractors.open_office.odp_extractor", "open_office/sample_presentation.odp"),
    ("read_odg", "sharepoint2text.parsing.extractors.open_office.odg_extractor", "open_office/drawing.odg"),
    ("read_odf", "sharepoint2text.parsing.extractors.open_office.odf_extractor", "open_office/formular.odf"),
    ("read_epub", "sharepoint2text.parsing.extractors.epub_extractor", "epub/sample.epub"),
]
X = ["zz_forged/x0.bin", "zz_forged/x1.bin", "zz_forged/x2.bin", "zz_forged/x3.bin", "zz_forged/x4.bin"]
XDIR = "zz_forged/sub/"


def _container_extractor_names():
    """registry functions whose module (transitively via its context class) uses the guarded openers"""
    import importlib
    from sharepoint2text.parsing import router
    names = set()
    for ft, (modname, fn) in router._EXTRACTOR_REGISTRY.items():
        mod = importlib.import_module(modname)
        src = open(mod.__file__, encoding="utf-8").read()
        if any(t in src for t in ("ZipContext", "open_zipfile", "validate_zip_bytesio")):
            names.add(fn)
    return names


def _repack(fixture_rel, extra_pad=0):
    """fixture members re-written with zipfile + forged-to-be extra members (+ optional padding entries)"""
    path = os.path.join(REPO, "sharepoint2text", "tests", "resources", fixture_rel)
    members = []
    with zipfile.ZipFile(path) as zf:
        for zi in zf.infolist():
            members.append((zi.filename, b"" if zi.is_dir() else zf.read(zi), zi.is_dir()))
    members += [(n, b"x" * 8, False) for n in X] + [(XDIR, b"", True)]
    members += [(f"zz_pad/{i}", b"", False) for i in range(extra_pad)]
    return _build_zip(members)


def _points(base):
    """forged lattice points at the DOCUMENTED default limits for a re-packed container `base`:
    [(tag, {member: (file_size, compress_size)})]; untouched members keep their real sizes"""
    D = DOCUMENTED
    real = [(fs, cs, d) for (fs, cs, d), (_, name, _, _) in zip(_entries_of(base), _central_directory(base))
            if not name.startswith("zz_forged/")]
    u0, c0 = _totals(real)
    PAD = (0, 50_000_000)                     # keeps the total ratio far below its limit
    G = 1024 ** 3
    pts = [("plain", {})]
    for d in (-1, 0, 1):
        pts.append((f"single{d:+d}", {X[0]: (D["ms"] + d, D["ms"] // 100), X[1]: PAD}))
        pts.append((f"eratio{d:+d}", {X[0]: (500 * 1000 + d, 1000), X[1]: PAD}))
        pts.append((f"eratio-big{d:+d}", {X[0]: (500 * 2_000_000 + d, 2_000_000), X[1]: PAD}))
        C = 1_000_000
        pts.append((f"tratio{d:+d}", {X[0]: (200 * (c0 + C + 8 * 4) - u0 - 8 * 4 + d, C)}))
        pts.append((f"total{d:+d}", {X[0]: (G, G // 2), X[1]: (G, G // 2), X[2]: (G, G // 2),
                                     X[3]: (G - u0 - 8 + d, G // 2)}))
    pts.append(("zero+1", {X[0]: (1, 0), X[1]: PAD}))
    pts.append(("zero0", {X[0]: (0, 0), X[1]: PAD}))
    pts.append(("dir-wild", {XDIR: (2 ** 31, 0), X[1]: PAD}))
    pts.append(("single+1&dir", {X[0]: (D["ms"] + 1, D["ms"] // 100), XDIR: (5, 0), X[1]: PAD}))
    pts.append(("eratio+1&tratio+1", {X[0]: (500 * 1000 + 1, 1000)}))
    return pts


# named decorations of central-directory records of a forged fixture document: "<point>@<decor>" puts it on the
# forged members the point is about, "<point>@@<decor>" on EVERY member of the container (only fields zipfile
# does not need for reading a member)
DECOR = {
    "dosdir": {"external_attr": 0x10},
    "dosdir-sys0": {"external_attr": 0x10, "create_system": 0},
    "unixdir": {"external_attr": (S_IFDIR | 0o755) << 16, "create_system": 3},
    "unixdir+dosdir": {"external_attr": ((S_IFDIR | 0o755) << 16) | 0x10},
    "symlink": {"external_attr": (S_IFLNK | 0o777) << 16},
    "attrs-ff": {"external_attr": 0xFFFFFFFF, "internal_attr": 0xFFFF},
    "encrypted": {"flag_bits": 0x1},
    "flags-all": {"flag_bits": 0xFFFF},
    "stored": {"compress_type": 0},
    "method99": {"compress_type": 99},
    "crc0": {"CRC": 0},
    "date0": {"dos": [0, 0]},
    "comment-slash": {"comment": b"/".hex()},
    "extra-junk": {"extra": EXTRAS[4].hex()},
    "extra-upath": {"extra": EXTRAS[3].hex()},
    "zip64-unused": {"extra": EXTRAS[7].hex()},
    "sys255": {"create_system": 255, "create_version": 255},
}
SAFE_FOR_REAL = ("dosdir-sys0", "unixdir+dosdir", "attrs-ff", "date0", "comment-slash", "sys255")
PAD = (0, 50_000_000)
OVER_TAGS = ["single+1", "eratio+1", "eratio-big+1", "tratio+1", "total+1", "zero+1", "single+1&dir"]
AT_TAGS = ["single+0", "eratio+0", "tratio+0", "total+0", "zero0", "dir-wild"]


def _decor_tags(rng, k):
    tags = [f"{t}@{d}" for t in OVER_TAGS + AT_TAGS for d in DECOR] + [f"{t}@@{d}" for t in OVER_TAGS + AT_TAGS + ["plain"] for d in SAFE_FOR_REAL]
    fixed = ["eratio+1@dosdir-sys0", "single+1@@unixdir+dosdir", "dir-wild@stored"] + [f"eratio+1@@{d}" for d in SAFE_FOR_REAL]
    return tags if k is None else fixed + rng.sample([t for t in tags if t not in fixed], k)


def _point_data(fixture, tag, base=None):
    """container bytes of a forged point; tag = '<point>' | '<point>@<decor>' | '<point>@@<decor>' """
    base = base if base is not None else _repack(fixture)
    stag, sep, decor = tag.partition("@")
    sizes = dict(_points(base))[stag]
    if not sep:
        return _forge(base, sizes)
    everywhere, decor = decor.startswith("@"), decor.lstrip("@")
    edits = {r["name"]: dict(DECOR[decor]) for r in _cd_records(base)[0]} if everywhere else {}
    for name, sz in sizes.items():
        e = edits.setdefault(name, {})
        if sz != PAD and not everywhere:
            e.update(DECOR[decor])
        e["sizes"] = sz
    return _forge_fields(base, edits)


def _run_extractor(fn, modname, data):
    """(verdict, monitor log, exception repr)"""
    import importlib
    f = getattr(importlib.import_module(modname), fn)
    with _Monitor() as mon:
        try:
            for _ in f(io.BytesIO(data), path="c11." + fn[5:]):
                pass
            exc = None
        except Exception as e:  # noqa: BLE001
            exc = e
    verdict, _ = _classify(exc)
    if verdict.startswith("other:"):
        verdict = "ok:" + verdict      # the guard accepted; a later parser error is not C11's business
    return verdict, mon.log, repr(exc)[:200] if exc else ""


def _extractor_cases(ctx, thorough_counts):
    """yields (fn, modname, fixture, tag, data)"""
    rng = ctx.rng
    count_for = set(f[0] for f in FIXTURES) if thorough_counts else {rng.choice(FIXTURES)[0]}
    for fn, modname, fixture in FIXTURES:
        base = _repack(fixture)
        for tag, sizes in _points(base):
            yield fn, modname, fixture, tag, _forge(base, sizes)
        for tag in _decor_tags(rng, 60 if thorough_counts else 7):
            yield fn, modname, fixture, tag, _point_data(fixture, tag, base)
        if fn in count_for:
            n0 = len(_central_directory(base))
            for d in (0, 1):
                yield fn, modname, fixture, f"count{d:+d}", _repack(fixture, extra_pad=DOCUMENTED["me"] + d - n0)


# ----------------------------------------------------------------------------- correspondence
def correspondence(ctx):
    broken, violations = [], []
    rng = ctx.rng
    B = lambda op, detail, case: broken.append(Broken("correspondence", op, detail, case=case)) if len(broken) < 40 else None

    # (A) validate_zipfile on in-memory ZipInfo lists vs. the model
    cases = list(_lattice(rng, ctx.n(8000, 120000)))
    # malformed stream: infolist() raising, None fields (int(x or 0))
    mal = [(dict(DOCUMENTED), None, "infolist-raises")] * 2
    for _ in range(ctx.n(20, 200)):
        limd, es, tag = list(_lattice(rng, 1))[-1]
        if es:
            i = rng.randrange(len(es))
            mal.append((limd, es[:i] + [(None if rng.random() < 0.5 else es[i][0], None if rng.random() < 0.5 else es[i][1], es[i][2])] + es[i + 1:], "none-field"))
    reqs, impls = [], []
    isdir_diff = []
    for limd, es, tag in cases + mal:
        dec = None
        if es is None:
            res = _run_validate(limd, None, fail=True)
            reqs.append({"op": "c11.validate", "lim": _lim_json(limd), "infos": None})
        else:
            # every other ZipInfo field varied independently of (file_size, compress_size, trailing slash); the
            # model gets the full records and derives "directory" from the name alone
            if es and tag != "none-field" and rng.random() < 0.55:
                dec = _decorate(rng, es)
            res = _run_validate(limd, es, dec=dec)
            if dec:
                reqs.append({"op": "c11.validate", "lim": _lim_json(limd), "recs": [_rec_json(f, c, d, dec[i], i) for i, (f, c, d) in enumerate(es)]})
                ctx.count("fields/decorated-infolist")
                for (f, c, d), fd, zi in zip(es, dec, _zipinfos(es, dec)):
                    if not d and fd.get("external_attr", 0) & 0x10:
                        ctx.count("fields/file-entry-with-msdos-dir-bit")
                    if not d and (fd.get("external_attr", 0) >> 16) & 0o170000 == S_IFDIR:
                        ctx.count("fields/file-entry-with-unix-dir-mode")
                    if d and not fd.get("external_attr", 0) & 0x10:
                        ctx.count("fields/dir-entry-without-dir-bit")
                    if zi.is_dir() != fd["name"].endswith("/") and len(isdir_diff) < 3:
                        isdir_diff.append(fd["name"])
            else:
                reqs.append({"op": "c11.validate", "lim": _lim_json(limd), "infos": [[f or 0, c or 0, bool(d)] for f, c, d in es]})
        impls.append((limd, es, tag, res, dec))
    if isdir_diff:
        broken.append(Broken("correspondence", "c11.zipfile.is_dir", f"ASSUMPTION broken: this interpreter's ZipInfo.is_dir() is not "
                             f"`filename.endswith('/')` on {isdir_diff!r} (S2T.C11.Fields.zipInfoOf)", case={"kind": "assumption"}))
    outs = ctx.drive(reqs)
    reason_diff = 0
    for (limd, es, tag, (res, reason), dec), o in zip(impls, outs):
        ctx.case((sorted(limd.items()), es), nontrivial=bool(es) and any(not d for _, _, d in es))
        ctx.count(f"validate/{tag.split('+')[0] if tag.startswith('ulp') is False else tag}/{res}")
        if "drv_error" in o:
            B("driver", o["drv_error"], {"lim": _lim_replay(limd), "entries": _rle(es or [])})
            continue
        if o["res"] != res:
            B("c11.validate", f"impl={res}({reason}) model={o['res']}({o.get('reason')}) tag={tag}",
              {"kind": "predicate", "lim": _lim_replay(limd), "entries": _rle([(f or 0, c or 0, d) for f, c, d in es] if es else []),
               "infolist_raises": es is None, **({"dec": dec} if dec else {})})
        elif res == "bomb" and o.get("reason") != reason:
            reason_diff += 1
    ctx.coverage["reason_order_differences (informational)"] = reason_diff
    k = len(impls) // 3
    ctx.sample({"lim": _lim_replay(impls[k][0]), "entries": _rle(impls[k][1] or [])[:8], "tag": impls[k][2], "impl": impls[k][3][0], "model": outs[k]})
    kd = next((i for i, x in enumerate(impls) if x[4]), None)
    if kd is not None:
        ctx.sample({"lim": _lim_replay(impls[kd][0]), "entries": _rle(impls[kd][1])[:4], "fields": impls[kd][4][:4], "impl": impls[kd][3][0], "model": outs[kd]})

    # (B) real ZIPs with forged central directories: validate_zip_bytesio / open_zipfile
    zb = _zb()
    reqs, impls = [], []
    nB = 0
    parse_diff = []
    for limd, es, tag in _lattice(rng, ctx.n(1500, 12000)):
        dec = _decorate(rng, es) if es and rng.random() < 0.55 else None
        zcomment = rng.choice([b"", b"", b"trusted", b"/" * 40]) if dec else b""
        data = _zip_for_entries(rng, es, dec, zcomment)
        if data is None:
            continue
        nB += 1
        parsed = _entries_of(data)
        recs = _recs_of(data) if dec else None
        if dec:
            ctx.count("fields/decorated-real-zip" + ("+zip64" if any(f >= 0xFFFFFFFF or c >= 0xFFFFFFFF for f, c, _ in es) else ""))
            # ASSUMPTION check: zipfile parses the forged directory as written (sizes, name, is_dir = trailing slash)
            try:
                with zipfile.ZipFile(io.BytesIO(data)) as zf0:
                    seen = [(i.file_size, i.compress_size, i.is_dir()) for i in zf0.infolist()]
                    FK = ("external_attr", "create_system", "flag_bits", "compress_type", "CRC", "internal_attr", "volume")
                    flds = [{"name": i.filename, **{k: getattr(i, k) for k in FK}} for i in zf0.infolist()]
                if (seen != parsed or any(a[k] != f[k] for a, f in zip(flds, dec) for k in f if k in a)) and len(parse_diff) < 3:
                    parse_diff.append((seen[:4], parsed[:4], flds[:4], dec[:4]))
            except Exception as e:  # noqa: BLE001
                if len(parse_diff) < 3:
                    parse_diff.append(repr(e))
        how = "ok"
        if rng.random() < 0.12:           # malformed stream: truncated / garbage / empty
            k = rng.choice(["trunc", "garbage", "empty", "noeocd"])
            data = {"trunc": data[: max(0, len(data) - rng.randint(1, 30))], "garbage": bytes(rng.getrandbits(8) for _ in range(64)),
                    "empty": b"", "noeocd": data.replace(b"PK\x05\x06", b"PK\x05\x07")}[k]
            how = "raise"
        pos = rng.choice([0, 1, 3, len(data) // 2, len(data), len(data) + 5])
        lim = _limits(limd)
        # validate_zip_bytesio
        buf = io.BytesIO(data)
        buf.seek(pos)
        try:
            zb.validate_zip_bytesio(buf, limits=lim, source=_source_for(es))
            exc = None
        except Exception as e:  # noqa: BLE001
            exc = e
        res = _classify(exc)[0]
        if how == "raise":
            if res in ("ok", "bomb"):
                how = "ok"        # zipfile still found a central directory (short truncation of the comment etc.)
                try:
                    parsed = _entries_of(data)
                    recs = _recs_of(data) if dec else None
                except Exception:  # noqa: BLE001
                    continue
            else:
                res = "zipOpen" if res.startswith("other:") else res
        fdec = {"dec": dec, "zcomment": zcomment.hex()} if dec else {}
        minfos = {"recs": recs} if recs is not None and how == "ok" else {"infos": [[f, c, d] for f, c, d in parsed]}
        impls.append(("bytesio", limd, parsed, tag, how, pos, res, buf.tell(), None, fdec))
        reqs.append({"op": "c11.bytesio", "lim": _lim_json(limd), "pos": pos, "open": how, "after": rng.randint(0, 99), **minfos})
        # open_zipfile
        buf = io.BytesIO(data)
        buf.seek(pos)
        with _Monitor() as mon:
            zf = None
            try:
                zf = zb.open_zipfile(buf, limits=lim, source=_source_for(es))
                exc = None
            except Exception as e:  # noqa: BLE001
                exc = e
        res2 = _classify(exc)[0]
        if how == "raise":
            res2 = "zipOpen" if res2.startswith("other:") else res2
        closed = bool(mon.instances) and all(i.fp is None for i in mon.instances)
        handle_open = zf is not None and zf.fp is not None
        if zf is not None:
            zf.close()
        impls.append(("open", limd, parsed, tag, how, pos, res2, None, (closed, handle_open), fdec))
        reqs.append({"op": "c11.open", "lim": _lim_json(limd), "pos": pos, "open": how, "after": 0, **minfos})
    if parse_diff:
        broken.append(Broken("correspondence", "c11.zipfile.parse", f"ASSUMPTION broken: zipfile does not hand out the forged central "
                             f"directory as written: {parse_diff!r}"[:900], case={"kind": "assumption"}))
    outs = ctx.drive(reqs)
    for (op, limd, es, tag, how, pos, res, endpos, extra, fdec), o in zip(impls, outs):
        ctx.case((op, sorted(limd.items()), es, pos, how, repr(fdec) if fdec else None))
        ctx.count(f"{op}/{'malformed' if how == 'raise' else 'zip'}/{res}")
        case = {"kind": op, "lim": _lim_replay(limd), "entries": _rle(es), "pos": pos, "malformed": how == "raise", **fdec}
        if "drv_error" in o:
            B("driver", o["drv_error"], case)
        elif o["res"] != res:
            B("c11." + op, f"impl={res} model={o['res']} tag={tag}", case)
        elif op == "bytesio" and o["pos"] != endpos:
            B("c11.bytesio.pos", f"impl leaves the stream at {endpos}, model at {o['pos']} (started at {pos})", case)
        elif op == "open":
            closed, handle_open = extra
            if res == "bomb" and not (o["closed"] and closed):
                B("c11.open.closed", f"rejected container left open: impl closed={closed} model closed={o['closed']}", case)
            if (res == "ok") != handle_open:
                B("c11.open.handle", f"verdict {res} but handle_open={handle_open}", case)
    ctx.coverage["real_zips"] = nB

    # (C) the container extractors under the runtime monitor (default limits, forged fixture documents)
    have = _container_extractor_names()
    want = {f[0] for f in FIXTURES}
    if have != want:
        broken.append(Broken("correspondence", "extractor-set", f"container extractors in the registry {sorted(have)} != covered {sorted(want)}",
                             case={"kind": "extractor-set"}))
    reqs, impls = [], []
    for fn, modname, fixture, tag, data in _extractor_cases(ctx, ctx.thorough):
        verdict, log, exc = _run_extractor(fn, modname, data)
        es = _entries_of(data)
        impls.append((fn, modname, fixture, tag, verdict, log, exc, len(es)))
        reqs.append({"op": "c11.validate", "lim": "default", "infos": [[f, c, d] for f, c, d in es]})
        reqs.append({"op": "c11.monitor", "log": [list(ev) for ev in log]})
    outs = ctx.drive(reqs)
    for i, (fn, modname, fixture, tag, verdict, log, exc, n) in enumerate(impls):
        o, m = outs[2 * i], outs[2 * i + 1]
        ctx.case((fn, tag))
        ctx.count(f"extractor/{fn}/{verdict.split(':')[0]}")
        case = {"kind": "extractor", "fn": fn, "module": modname, "fixture": fixture, "point": tag}
        if "drv_error" in o or "drv_error" in m:
            B("driver", str(o) + str(m), case)
            continue
        if o["res"] != verdict.split(":")[0]:
            B("c11.extractor", f"{fn} on {tag}: impl={verdict} {exc} model={o['res']}({o.get('reason')})", case)
        if not m["accept"]:
            B("c11.order", f"{fn} on {tag}: a member was read before a successful validation; log={_short(log)}", case)
        if not any(ev[0] == "v" for ev in log):
            B("c11.order", f"{fn} on {tag}: validate_zipfile never ran; log={_short(log)}", case)
        if verdict == "bomb" and any(ev[0] == "r" for ev in log):
            B("c11.order", f"{fn} on {tag}: rejected container but members were read; log={_short(log)}", case)
    if impls:
        s = impls[len(impls) // 2]
        ctx.sample({"extractor": s[0], "point": s[3], "impl": s[4], "entries": s[7], "log": _short(s[5])})
    return {"broken": broken, "violations": violations}


def _short(log):
    out, last, n = [], None, 0
    for ev in log:
        t = ev[0] + (":ok" if ev[0] == "v" and ev[2] else ":fail" if ev[0] == "v" else "")
        if t == last:
            n += 1
        else:
            if last:
                out.append(last + (f"x{n}" if n > 1 else ""))
            last, n = t, 1
    if last:
        out.append(last + (f"x{n}" if n > 1 else ""))
    return " ".join(out[:30])


# ----------------------------------------------------------------------------- oracle of the property on the real code
def _check_predicate(limd, es, infolist_raises=False, dec=None):
    """[(key, what)] — violations of the statement by validate_zipfile on this input.  With `dec` the ZipInfo
    objects carry the given names / other fields; a directory entry is one whose NAME ends with '/'."""
    if infolist_raises:
        res, _ = _run_validate(limd, None, fail=True)
        return [] if res == "bomb" else [("predicate.unreadable-directory", f"infolist() raises but validate_zipfile -> {res}")]
    res, reason = _run_validate(limd, es, dec=dec)
    es = _with_names(es, dec)
    want = _spec(limd, es)
    shown = f"limits={_lim_show(limd)} entries(file_size,compress_size,is_dir)={_show(es)}"
    if dec:
        shown += " ZipInfo fields per entry (name; non-default attributes)=" + _show_dec(dec)
    if res.startswith("other:"):
        return [("predicate.wrong-error." + res[6:], f"validate_zipfile raised {res[6:]} instead of deciding; {shown}")]
    if want and res == "ok":
        return [("predicate.false-accept." + "+".join(sorted(want)), f"accepted although {sorted(want)} exceeded; {shown}")]
    if not want and res == "bomb":
        return [("predicate.false-reject." + str(reason), f"rejected ({reason}) although every limit is respected; {shown}")]
    return []


def _lim_show(limd):
    return "{" + ", ".join(f"{k}={v!r}" for k, v in limd.items()) + "}"


def _show(es):
    r = _rle(es)
    return "[" + ", ".join(f"({f},{c},{'dir' if d else 'file'})" + (f"x{n}" if n > 1 else "") for f, c, d, n in r[:12]) + (", …]" if len(r) > 12 else "]")


def _show_dec(dec):
    return "[" + "; ".join(repr(f.get("name")) + "".join(
        f" {k}={v:#x}" if isinstance(v, int) else f" {k}={v!r}" for k, v in f.items() if k != "name") for f in dec[:8]) + (
        "; …]" if len(dec) > 8 else "]")


def _shrink(limd, es, key, dec=None):
    """greedy: drop entries, then decorations, while the same violation key persists"""
    if len(es) > 300:
        return (es, dec) if dec is not None else es
    es = list(es)
    d2 = list(dec) if dec else None
    i = 0
    while i < len(es):
        cand = es[:i] + es[i + 1:]
        cdec = d2[:i] + d2[i + 1:] if d2 else None
        if any(k == key for k, _ in _check_predicate(limd, cand, dec=cdec)):
            es, d2 = cand, cdec
        else:
            i += 1
    if dec is None:
        return es
    for i in range(len(d2)):                      # which fields matter: drop the others one by one
        for k in [k for k in d2[i] if k != "name"]:
            cand = d2[:i] + [{a: b for a, b in d2[i].items() if a != k}] + d2[i + 1:]
            if any(kk == key for kk, _ in _check_predicate(limd, es, dec=cand)):
                d2 = cand
    return es, d2


def _check_stream(limd, es, pos, malformed=False, rng=None, dec=None, zcomment=b""):
    """[(key, what)] for validate_zip_bytesio / open_zipfile on a real ZIP claiming `es` (names / other
    central-directory fields from `dec`)"""
    import random
    rng = rng or random.Random(0)
    data = _zip_for_entries(rng, es, dec, zcomment)
    if data is None:
        return []
    if malformed:
        data = data[: max(0, len(data) - 25)]
    zb, out = _zb(), []
    es = _with_names(es, dec)
    want = _spec(limd, es)
    shown = f"limits={_lim_show(limd)} central directory={_show(es)} start position={pos}"
    if dec:
        shown += " record fields (name; non-default)=" + _show_dec(dec) + (f" archive comment={zcomment!r}" if zcomment else "")
    buf = io.BytesIO(data)
    buf.seek(pos)
    try:
        zb.validate_zip_bytesio(buf, limits=_limits(limd), source=_source_for(es))
        res = "ok"
    except Exception as e:  # noqa: BLE001
        res = _classify(e)[0]
    if buf.tell() != pos:
        out.append(("position.validate_zip_bytesio", f"stream left at {buf.tell()} instead of {pos} (outcome {res}); {shown}"))
    if not malformed:
        if want and res != "bomb":
            out.append(("bytesio.false-accept." + "+".join(sorted(want)), f"validate_zip_bytesio -> {res} although {sorted(want)} exceeded; {shown}"))
        if not want and res != "ok":
            out.append(("bytesio.false-reject", f"validate_zip_bytesio -> {res} although every limit is respected; {shown}"))
    buf = io.BytesIO(data)
    buf.seek(pos)
    with _Monitor() as mon:
        zf = None
        try:
            zf = zb.open_zipfile(buf, limits=_limits(limd), source=_source_for(es))
            res = "ok"
        except Exception as e:  # noqa: BLE001
            res = _classify(e)[0]
    if not malformed:
        if want and (res != "bomb" or zf is not None):
            out.append(("open.false-accept." + "+".join(sorted(want)), f"open_zipfile -> {res} (handle={zf is not None}) although {sorted(want)} exceeded; {shown}"))
        if not want and (res != "ok" or zf is None or zf.fp is None):
            out.append(("open.false-reject", f"open_zipfile -> {res} although every limit is respected; {shown}"))
        if want and any(i.fp is not None for i in mon.instances):
            out.append(("open.left-open", f"open_zipfile rejected the container but left the ZipFile open; {shown}"))
        if not any(ev[0] == "v" for ev in mon.log):
            out.append(("open.no-validate", f"open_zipfile did not call validate_zipfile; {shown}"))
    if zf is not None:
        zf.close()
    return out


def _check_extractor(fn, modname, fixture, tag, data=None):
    """[(key, what)] for one extractor on one forged point (DOCUMENTED limits are the reference)"""
    if data is None:
        if tag.startswith("count"):
            base0 = _repack(fixture)
            data = _repack(fixture, extra_pad=DOCUMENTED["me"] + int(tag[5:]) - len(_central_directory(base0)))
        else:
            data = _point_data(fixture, tag)
    es = _entries_of(data)
    want = _spec(DOCUMENTED, es)
    verdict, log, exc = _run_extractor(fn, modname, data)
    recs = _cd_records(data)[0]
    shown = f"{fn} on fixture {fixture} re-packed, forged point '{tag}' ({len(es)} entries; forged: " + _show([e for e, r in zip(es, recs) if r["name"].startswith('zz_forged/')]) + ")"
    if "@" in tag:
        shown += f" central-directory fields {DECOR[tag.split('@')[-1]]} on " + ("every member" if "@@" in tag else "the forged members")
    out = []
    if not _log_ok(log):
        out.append((f"order.read-before-validate.{fn}", f"a member was read before a successful validate_zipfile: {_short(log)}; {shown}"))
    elif not any(ev[0] == "v" for ev in log) and any(ev[0] == "c" for ev in log):
        out.append((f"order.never-validated.{fn}", f"container opened but validate_zipfile never ran: {_short(log)}; {shown}"))
    if want and verdict != "bomb":
        out.append((f"extractor.false-accept.{fn}." + "+".join(sorted(want)), f"not rejected ({verdict} {exc}) although {sorted(want)} exceeded (documented defaults); {shown}"))
    if not want and verdict == "bomb":
        out.append((f"extractor.false-reject.{fn}", f"rejected ({exc}) although every documented default limit is respected; {shown}"))
    if verdict == "bomb" and any(ev[0] == "r" for ev in log):
        out.append((f"order.read-of-rejected.{fn}", f"members of a rejected container were read: {_short(log)}; {shown}"))
    return out


def _check_sites():
    """python twin of `siteOk` over the inventory (only used to name the site when the theorem breaks)"""
    import sys
    sys.path.insert(0, os.path.join(VERIF, "tools"))
    os.environ.setdefault("S2T_REPO", REPO)
    import importlib
    tr = importlib.import_module("translate")
    tr._discover() if not tr.GENERATORS else None
    inv = importlib.import_module("gen.zipbomb")
    sites, notes, _ = inv.inventory()
    bad = []
    for s in sites:
        k = s["kind"]
        if k in ("openZipfile", "validateBytesio"):
            ok = True
        elif k == "zipContext":
            ok = s["dominated"]
        elif k == "rawZipFile":
            ok = ((s["file"].endswith("util/zip_bomb.py") and s["guard"]) or s["file"].endswith("extractors/archive_extractor.py")
                  or s["dominated"] or s["refs"] == 0 or s["callers"])
        else:
            ok = s["dominated"] or s["refs"] == 0 or s["callers"]
        if not ok:
            bad.append(s)
    return bad, notes


def known_witnesses(ctx):
    """the witness of `float_rounding_counterexample` (Props/C11.lean) on the real code: with the exact
    comparison (fix-exact-ratio.patch) it is rejected; the float comparison accepts it"""
    out = []
    limd = dict(me=50_000, mt=2 ** 63, ms=2 ** 62, tr=1e9, er=500.0)
    es = [(500 * 2 ** 45 + 1, 2 ** 45, False)]
    for key, what in _check_predicate(limd, es):
        out.append(Violation(key, what + "  [witness of theorem float_rounding_counterexample: size/csize = 500 + 2^-45 "
                             "rounds to the double 500.0]", {"kind": "predicate", "lim": _lim_replay(limd), "entries": _rle(es)}))
    return out


def search(ctx, broken):
    found, seen = [], set()

    def add(key, what, rep):
        if key not in seen:
            seen.add(key)
            found.append(Violation(key, what, rep))

    import random
    rng = random.Random(ctx.seed * 7919 + 11)
    # 1. the disagreeing inputs themselves
    for b in broken:
        c = b.case or {}
        try:
            if c.get("kind") == "predicate":
                limd, es, dec = _lim_from_replay(c["lim"]), _unrle(c["entries"]), c.get("dec")
                for key, what in _check_predicate(limd, es, c.get("infolist_raises", False), dec=dec):
                    if dec:
                        es2, dec2 = _shrink(limd, es, key, dec)
                    else:
                        es2, dec2 = _shrink(limd, es, key), None
                    what2 = dict(_check_predicate(limd, es2, dec=dec2)).get(key, what)
                    add(key, what2, {"kind": "predicate", "lim": _lim_replay(limd), "entries": _rle(es2), **({"dec": dec2} if dec2 else {})})
            elif c.get("kind") in ("bytesio", "open"):
                limd, es, dec = _lim_from_replay(c["lim"]), _unrle(c["entries"]), c.get("dec")
                zc = bytes.fromhex(c.get("zcomment", ""))
                for key, what in _check_stream(limd, es, c["pos"], c.get("malformed", False), dec=dec, zcomment=zc):
                    add(key, what, {"kind": "stream", "lim": c["lim"], "entries": c["entries"], "pos": c["pos"], "malformed": c.get("malformed", False),
                                    **({"dec": dec, "zcomment": zc.hex()} if dec else {})})
            elif c.get("kind") == "extractor":
                for key, what in _check_extractor(c["fn"], c["module"], c["fixture"], c["point"]):
                    add(key, what, dict(c))
        except Exception as e:  # noqa: BLE001
            ctx.notes.append(f"search: re-check of a broken case crashed: {e!r}")
    # 2. the closed world
    if any(b.kind in ("theorem", "build", "translate", "audit") for b in broken) or not found:
        try:
            bad, notes = _check_sites()
            for s in bad:
                add(f"site.unguarded:{s['file']}:{s['func']}:{s['kind']}",
                    f"{s['file']}:{s['line']} {s['func']} opens a ZIP container ({s['kind']}) with no validating call "
                    f"dominating it (dominated={s['dominated']}, references to the function={s['refs']})",
                    {"kind": "site", "site": s})
            for n in notes:
                add("site.note:" + n[:80], n, {"kind": "site-note", "note": n})
            if bad or notes:
                # show the consequence at run time: a concrete container on which an extractor reads
                # (or accepts) before / without validation
                for fn, modname, fixture in FIXTURES:
                    for tag in ("plain", "eratio+1"):
                        for key, what in _check_extractor(fn, modname, fixture, tag):
                            add(key, what, {"kind": "extractor", "fn": fn, "module": modname, "fixture": fixture, "point": tag})
                found.sort(key=lambda v: not v.key.startswith(("order.", "extractor.")))
        except Exception as e:  # noqa: BLE001
            ctx.notes.append(f"search: inventory crashed: {e!r}")
    # 3. the whole lattice on the real code (only when the seeds did not already give an input)
    if not found:
        for limd, es, tag in _lattice(rng, 6000):
            for key, what in _check_predicate(limd, es):
                es2 = _shrink(limd, es, key)
                what2 = dict(_check_predicate(limd, es2)).get(key, what)
                add(key, what2, {"kind": "predicate", "lim": _lim_replay(limd), "entries": _rle(es2)})
            if es and len(es) <= 300:           # the same point with every other ZipInfo field varied independently
                dec = _decorate(rng, es)
                for key, what in _check_predicate(limd, es, dec=dec):
                    es2, dec2 = _shrink(limd, es, key, dec)
                    what2 = dict(_check_predicate(limd, es2, dec=dec2)).get(key, what)
                    add(key, what2, {"kind": "predicate", "lim": _lim_replay(limd), "entries": _rle(es2), "dec": dec2})
            if len(found) >= 5:
                break
        res, _ = _run_validate(dict(DOCUMENTED), None, fail=True)
        if res != "bomb":
            add("predicate.unreadable-directory", f"infolist() raises but validate_zipfile -> {res}", {"kind": "predicate", "lim": _lim_replay(DOCUMENTED), "entries": [], "infolist_raises": True})
    if not found:
        n = 0
        for limd, es, tag in _lattice(rng, 1500):
            if any(f >= 2 ** 64 or c >= 2 ** 64 for f, c, _ in es):
                continue
            pos = rng.choice([0, 1, 7, 40])
            mal = rng.random() < 0.1
            dec = _decorate(rng, es) if es and rng.random() < 0.6 else None
            zc = rng.choice([b"", b"trusted"]) if dec else b""
            for key, what in _check_stream(limd, es, pos, mal, dec=dec, zcomment=zc):
                add(key, what, {"kind": "stream", "lim": _lim_replay(limd), "entries": _rle(es), "pos": pos, "malformed": mal,
                                **({"dec": dec, "zcomment": zc.hex()} if dec else {})})
            n += 1
            if len(found) >= 5 or n > 600:
                break
    if not found:
        class _C:  # minimal ctx for the generator
            pass
        c2 = _C(); c2.rng = rng
        for fn, modname, fixture, tag, data in _extractor_cases(c2, True):
            for key, what in _check_extractor(fn, modname, fixture, tag, data):
                add(key, what, {"kind": "extractor", "fn": fn, "module": modname, "fixture": fixture, "point": tag})
            if len(found) >= 5:
                break
    return found


def replay(ctx, payload):
    rep = payload.get("replay", {})
    kind = rep.get("kind")
    if kind == "predicate":
        vs = _check_predicate(_lim_from_replay(rep["lim"]), _unrle(rep["entries"]), rep.get("infolist_raises", False), dec=rep.get("dec"))
    elif kind == "stream":
        vs = _check_stream(_lim_from_replay(rep["lim"]), _unrle(rep["entries"]), rep["pos"], rep.get("malformed", False),
                           dec=rep.get("dec"), zcomment=bytes.fromhex(rep.get("zcomment", "")))
    elif kind == "extractor":
        vs = _check_extractor(rep["fn"], rep["module"], rep["fixture"], rep["point"])
    elif kind == "site":
        bad, _ = _check_sites()
        s = rep["site"]
        vs = [("site", f"{b['file']}:{b['line']} {b['func']} still unguarded") for b in bad
              if (b["file"], b["func"], b["kind"]) == (s["file"], s["func"], s["kind"])]
    elif kind == "site-note":
        _, notes = _check_sites()
        vs = [("site-note", n) for n in notes if n == rep["note"]]
    else:
        return False, "replay names a broken obligation, not an input: " + payload.get("what", "")
    return (not vs), "; ".join(w for _, w in vs) or "property holds on the recorded input"
