"""C15: documents that LEAVE SOMETHING BEHIND — source-directed variants of small well-formed documents

A change that keeps history between extractions (an object reused from call to call, a module table updated through a
parameter, a flag set on a rare branch) shows only in a two-step sequence `odd document, then an ordinary one`, and only when the
odd document drives the code into the state that is not put back: a content part that ENDS inside a removed element, a part
written in a vocabulary (namespace URI) the code knows but ordinary documents never use, a part that breaks off in the middle.
Damaging the container as a whole (truncated zip) never reaches those branches.

`harvest(repo)` reads the CURRENT source of the package and returns
  * `pairs`  (prefix, URI) for every dict literal entry `"prefix": "<uri>"` (namespace tables, incl. ones a change adds),
  * `words`  every element name the code treats specially: members of literal collections / comparisons against a tag
             variable in the files that drive an event parser (HTMLParser / handle_starttag / iterparse / startElement).
`variants(name, data)` turns one base document into specs, each self-contained (a replay needs no harvest):
  ["ns", part, prefix, uri]     the declaration xmlns:prefix of that part rebound to the URI the source knows for that prefix
                                (prefix "" = the default namespace of the part, rebound to another URI the source knows for
                                the prefix under which it calls the part's namespace)
  ["unclosed", part, word]      an (x)html part cut before </body> and ended with an open <word> element
  ["cut", part]                 the part cut in the middle (at a tag boundary), container intact
`build(data, spec)` applies a spec.  The oracle (`run`) extracts `base, variant, base` on ONE thread and demands the third result
equal the first (and the isolated one when known) and the global snapshot unchanged — the statement itself.
"""
import ast
import io
import os
import re
import zipfile

URI = re.compile(r"^(https?://|urn:|ftp://)\S+$")
WORD = re.compile(r"^[a-z][a-z0-9]{0,11}$")
PART_EXT = (".xml", ".xhtml", ".html", ".htm", ".opf", ".ncx", ".rels")
HTML_EXT = (".xhtml", ".html", ".htm")
ZIP_EXT = (".epub", ".odt", ".ods", ".odp", ".odg", ".odf", ".docx", ".xlsx", ".pptx")
BASE_EXT = ZIP_EXT + (".html",)
PARSER_MARKS = ("HTMLParser", "handle_starttag", "iterparse", "startElement", "XMLPullParser", "TreeBuilder")
TAG_VARS = ("tag", "tag_name", "name", "local", "localname", "local_name", "el", "elem_tag")


def harvest(repo):
    pairs, words = set(), set()
    root = os.path.join(repo, "sharepoint2text")
    for dp, dns, fns in os.walk(root):
        dns[:] = sorted(d for d in dns if d not in ("tests", "__pycache__"))
        for fn in sorted(fns):
            if not fn.endswith(".py"):
                continue
            try:
                with open(os.path.join(dp, fn), encoding="utf-8") as fh:
                    src = fh.read()
                tree = ast.parse(src)
            except (OSError, SyntaxError, ValueError):
                continue
            drives_parser = any(m in src for m in PARSER_MARKS)
            for n in ast.walk(tree):
                if isinstance(n, ast.Dict):
                    for k, v in zip(n.keys, n.values):
                        if isinstance(k, ast.Constant) and isinstance(k.value, str) and isinstance(v, ast.Constant) \
                                and isinstance(v.value, str) and URI.match(v.value) and re.match(r"^[A-Za-z_][\w.-]{0,20}$", k.value):
                            pairs.add((k.value, v.value))
                if not drives_parser:
                    continue
                if isinstance(n, (ast.Set, ast.Tuple, ast.List)):
                    el = [e.value for e in n.elts if isinstance(e, ast.Constant) and isinstance(e.value, str)]
                    if len(el) == len(n.elts) and el and all(WORD.match(e) for e in el):
                        words.update(el)
                if isinstance(n, ast.Dict):
                    ks = [k.value for k in n.keys if isinstance(k, ast.Constant) and isinstance(k.value, str)]
                    if ks and len(ks) == len(n.keys) and all(WORD.match(k) for k in ks):
                        words.update(ks)
                if isinstance(n, ast.Compare) and isinstance(n.left, ast.Name) and n.left.id in TAG_VARS:
                    for c in n.comparators:
                        if isinstance(c, ast.Constant) and isinstance(c.value, str) and WORD.match(c.value):
                            words.add(c.value)
    return sorted(pairs), sorted(words)


def sibling_documents(res_root, k=3, limit=200_000):
    """the k smallest fixtures of every extension: {ext: [(relative name, path)]} — documents that go through the same module"""
    by_ext = {}
    for dp, dns, fns in os.walk(res_root):
        dns[:] = sorted(d for d in dns if d != "password_protected")
        for fn in sorted(fns):
            ext = os.path.splitext(fn)[1].lower()
            p = os.path.join(dp, fn)
            if ext in BASE_EXT and 0 < os.path.getsize(p) <= limit:
                by_ext.setdefault(ext, []).append((os.path.getsize(p), os.path.relpath(p, res_root), p))
    return {e: [(n, p) for _s, n, p in sorted(v)[:k]] for e, v in sorted(by_ext.items()) if len(v) >= 2}


def base_documents(res_root, limit=60_000):
    """the smallest fixture of every extension the variants apply to: [(relative name, path)]"""
    best = {}
    for dp, dns, fns in os.walk(res_root):
        dns[:] = sorted(d for d in dns if d != "password_protected")
        for fn in sorted(fns):
            ext = os.path.splitext(fn)[1].lower()
            p = os.path.join(dp, fn)
            if ext in BASE_EXT and 0 < os.path.getsize(p) <= limit:
                if ext not in best or os.path.getsize(p) < os.path.getsize(best[ext]):
                    best[ext] = p
    return [(os.path.relpath(p, res_root), p) for _e, p in sorted(best.items())]


def _parts(name, data):
    """[(part name, text)]; '' = the file itself (plain html)"""
    if name.lower().endswith(ZIP_EXT):
        out = []
        try:
            with zipfile.ZipFile(io.BytesIO(data)) as zf:
                for zi in zf.infolist():
                    if zi.filename.lower().endswith(PART_EXT) and 0 < zi.file_size <= 300_000:
                        out.append((zi.filename, zf.read(zi).decode("utf-8", "replace")))
        except zipfile.BadZipFile:
            return []
        return out
    return [("", data.decode("utf-8", "replace"))]


def variants(name, data, pairs, words):
    specs = []
    for part, text in _parts(name, data):
        head = text[:4000]
        for prefix, uri in pairs:
            m = re.search(r'xmlns:' + re.escape(prefix) + r'\s*=\s*"([^"]*)"', head)
            if m and m.group(1) != uri:
                specs.append(["ns", part, prefix, uri])
        # the DEFAULT namespace of the part (xmlns="X"): the source calls X by some prefix p; every other URI it knows for p
        m = re.search(r'xmlns\s*=\s*"([^"]*)"', head)
        if m:
            called = {p for p, u in pairs if u == m.group(1)}
            for prefix, uri in pairs:
                if prefix in called and uri != m.group(1) and ["ns", part, "", uri] not in specs:
                    specs.append(["ns", part, "", uri])
        if part.lower().endswith(HTML_EXT) or (part == "" and name.lower().endswith(HTML_EXT)):
            for w in words:
                specs.append(["unclosed", part, w])
        if len(text) > 40:
            specs.append(["cut", part])
    return specs


def _apply(text, spec):
    kind = spec[0]
    if kind == "ns" and spec[2] == "":
        return re.sub(r'(xmlns\s*=\s*")[^"]*(")', lambda m: m.group(1) + spec[3] + m.group(2), text, count=1)
    if kind == "ns":
        return re.sub(r'(xmlns:' + re.escape(spec[2]) + r'\s*=\s*")[^"]*(")', lambda m: m.group(1) + spec[3] + m.group(2), text)
    if kind == "unclosed":
        i = text.lower().rfind("</body")
        return (text[:i] if i >= 0 else text) + f"<{spec[2]}>dangling {spec[2]} element"
    if kind == "cut":
        i = text.find(">", len(text) // 2)
        return text[: i + 1 if i >= 0 else len(text) // 2]
    raise ValueError(f"unknown variant {spec!r}")


def build(name, data, spec):
    part = spec[1]
    if part == "":
        return _apply(data.decode("utf-8", "replace"), spec).encode("utf-8")
    src = zipfile.ZipFile(io.BytesIO(data))
    buf = io.BytesIO()
    with zipfile.ZipFile(buf, "w") as out:
        for zi in src.infolist():
            raw = src.read(zi)
            if zi.filename == part:
                raw = _apply(raw.decode("utf-8", "replace"), spec).encode("utf-8")
            out.writestr(zi.filename, raw, compress_type=zi.compress_type)
    return buf.getvalue()


def variant_path(outdir, name, data, spec):
    os.makedirs(outdir, exist_ok=True)
    tag = re.sub(r"[^A-Za-z0-9]+", "_", "_".join(spec))[-80:]
    stem, ext = os.path.splitext(os.path.basename(name))
    p = os.path.join(outdir, f"{stem}__{tag}{ext}")
    if not os.path.exists(p):
        with open(p, "wb") as fh:
            fh.write(build(name, data, spec))
    return p


def check_one(outdir, name, path, spec, extract_digest, take=None, diff=None, isolated=None):
    """base, variant, base on the calling thread -> (ok, what)"""
    with open(path, "rb") as fh:
        data = fh.read()
    ref = extract_digest(path)
    if isolated is not None and ref != isolated:
        return False, f"{name} has digest {ref} in this process, {isolated} alone in a fresh process"
    s0 = take() if take else None
    vp = variant_path(outdir, name, data, spec)
    dv = extract_digest(vp)
    d = extract_digest(path)
    if d != ref:
        return False, (f"{name} extracted after its variant {spec} (digest of the variant: {dv}) has digest {d}, before it {ref}: "
                       f"the result depends on what the process extracted before")
    if take:
        df = diff(s0, take())
        if df:
            return False, (f"after extracting the variant {spec} of {name} process-global state differs: "
                           + "; ".join(f"{k}: {v[0]} -> {v[1]}" for k, v in sorted(df.items())[:6]))
    return True, f"{name} has the same digest before and after its variant {spec}; global state unchanged"


def run(ctx, repo, res_root, outdir, extract_digest, take, diff, baseline, Violation, budget_s, check_fresh=None, isolated=None, bisect=None):
    """every variant of every base document; one snapshot per base document, bisected when it differs"""
    import time
    t0 = time.time()
    pairs, words = harvest(repo)
    ctx.coverage["inner_harvest"] = {"ns_pairs": len(pairs), "element_words": len(words)}
    out, n_var, skipped = [], 0, 0
    for name, path in base_documents(res_root):
        with open(path, "rb") as fh:
            data = fh.read()
        specs = variants(name, data, pairs, words)
        if not ctx.thorough and len(specs) > 70:     # quick tier: every ns / cut variant, a seeded sample of the unclosed ones
            keep = [s for s in specs if s[0] != "unclosed"]
            rest = [s for s in specs if s[0] == "unclosed"]
            specs = keep + ctx.rng.sample(rest, max(0, 70 - len(keep)))
        ref = extract_digest(path)        # also the warm-up (lazy imports are not state changes)
        iso = baseline.get(name)
        if iso is not None and ref != iso:
            # something extracted earlier in this process changed it: which document? every base document, then this one, each pair
            # in a forked child that has extracted nothing else
            hit = None
            for other, _p in ([(name, path)] + [b for b in base_documents(res_root) if b[0] != name]) if check_fresh else []:
                ok, what = check_fresh([other, name])
                ctx.case(("inner-pair", other, name), nontrivial=True)
                if not ok:
                    hit = Violation("history.result-depends-on-earlier-document", what, {"kind": "fixture-sequence-fresh", "seq": [other, name]})
                    break
            out.append(hit or Violation("history.result-depends-on-earlier-document",
                                        f"{name} has digest {ref} in this process, {iso} alone in a fresh process (no pair of base documents reproduces it)",
                                        {"kind": "sequence", "seq": [name]}, found_input=False))
            continue
        s0 = take()
        bad = None
        for spec in specs:
            if time.time() - t0 > budget_s:
                skipped += 1
                continue
            n_var += 1
            ctx.case(("inner", name, tuple(spec)), nontrivial=True)
            ctx.count("inner/" + spec[0] + "/" + os.path.splitext(name)[1])
            extract_digest(variant_path(outdir, name, data, spec))
            d = extract_digest(path)
            if d != ref:
                bad = (spec, f"{name} extracted after its variant {spec} has digest {d}, before it {ref} (alone in a fresh process: {iso}): "
                             f"the result depends on what the process extracted before")
                break
        if bad is None:
            df = diff(s0, take())
            if df:
                for spec in specs:        # which variant did it? (state that stays changed is found by the first that changes it again
                    sa = take()           #  or, failing that, reported for the group)
                    extract_digest(variant_path(outdir, name, data, spec))
                    dd = diff(sa, take())
                    if dd:
                        bad = (spec, f"after extracting the variant {spec} of {name} process-global state differs: "
                                     + "; ".join(f"{k}: {v[0]} -> {v[1]}" for k, v in sorted(dd.items())[:6]))
                        break
                if bad is None and bisect:       # a permanent change does not happen twice in this process: ask a new interpreter
                    hit = bisect(name, path, specs, sorted(df))
                    if hit:
                        bad = (specs[hit[0]], f"after extracting the variant {specs[hit[0]]} of {name} (new interpreter) module-level state differs: "
                               + "; ".join(f"{k}: {v[0]} -> {v[1]}" for k, v in sorted(hit[1].items())[:4]))
                if bad is None:
                    bad = (specs[0] if specs else ["cut", ""], f"after the variants of {name} process-global state differs: "
                           + "; ".join(f"{k}: {v[0]} -> {v[1]}" for k, v in sorted(df.items())[:6]))
        if bad:
            key = "history.result-depends-on-earlier-document" if "digest" in bad[1] else "history.global-state-not-restored"
            out.append(Violation(key, bad[1], {"kind": "inner-variant", "base": name, "spec": bad[0]}))
    # every ordered pair of small sibling fixtures (same extension = same extractor module): a, then b; b must be what it is alone
    n_pairs = 0
    for ext, sibs in sibling_documents(res_root).items():
        if out:
            break
        ref = {n: (baseline.get(n) or (isolated(p) if isolated else extract_digest(p))) for n, p in sibs}   # alone in a forked child
        for a, pa in sibs:
            for b, pb in sibs:
                if a == b or time.time() - t0 > budget_s * 1.5:
                    continue
                n_pairs += 1
                ctx.case(("inner-sibling", a, b), nontrivial=True)
                extract_digest(pa)
                d = extract_digest(pb)
                iso = ref[b]
                if d != ref[b]:
                    ok, what = check_fresh([a, b]) if check_fresh else (True, "")
                    if not ok:
                        out.append(Violation("history.result-depends-on-earlier-document", what, {"kind": "fixture-sequence-fresh", "seq": [a, b]}))
                    else:
                        out.append(Violation("history.result-depends-on-earlier-document",
                                             f"{b} extracted after {a} has digest {d}, before {ref[b]}, alone in a fresh process {iso}; a fresh process "
                                             f"that extracts only this pair does not show it", {"kind": "sequence", "seq": [a, b]}, found_input=False))
                    break
            if out:
                break
    ctx.coverage["inner_sibling_pairs"] = n_pairs
    ctx.coverage["inner_variants"] = n_var
    if skipped:
        ctx.notes.append(f"inner variants: {skipped} not run (time budget {budget_s} s)")
    return out
