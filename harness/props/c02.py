"""C02 — main-text fidelity.  Aggregator: the property is built format family by format family; every
harness/props/c02_<part>.py module has the standard interface (GEN, RULE, ASSUMPTIONS, TRUSTED,
correspondence, search, replay, known_witnesses) and owns lean/S2T/Props/C02_<Part>.lean."""
from __future__ import annotations

import importlib
import os

_HERE = os.path.dirname(os.path.abspath(__file__))
PARTS = sorted(f[:-3] for f in os.listdir(_HERE) if f.startswith("c02_") and f.endswith(".py"))
MODS = [importlib.import_module("props." + p) for p in PARTS]

GEN = sorted({g for m in MODS for g in getattr(m, "GEN", [])})
RULE = " || ".join(f"[{p}] {getattr(m, 'RULE', '')}" for p, m in zip(PARTS, MODS))
ASSUMPTIONS = [f"[{p}] {a}" for p, m in zip(PARTS, MODS) for a in getattr(m, "ASSUMPTIONS", [])]
TRUSTED = [f"[{p}] {a}" for p, m in zip(PARTS, MODS) for a in getattr(m, "TRUSTED", [])]


def correspondence(ctx):
    out = {"broken": [], "violations": []}
    for p, m in zip(PARTS, MODS):
        r = m.correspondence(ctx)
        for b in r.get("broken", []):
            if isinstance(b.case, dict):
                b.case.setdefault("part", p)
            out["broken"].append(b)
        out["violations"] += r.get("violations", [])
    return out


def search(ctx, broken):
    found = []
    for p, m in zip(PARTS, MODS):
        mine = [b for b in broken if not isinstance(b.case, dict) or b.case.get("part", p) == p]
        if hasattr(m, "search") and mine:
            for v in m.search(ctx, mine) or []:
                if isinstance(v.replay, dict):
                    v.replay.setdefault("part", p)
                found.append(v)
    return found


def known_witnesses(ctx):
    out = []
    for m in MODS:
        if hasattr(m, "known_witnesses"):
            out += m.known_witnesses(ctx)
    return out


def replay(ctx, payload):
    part = (payload.get("replay") or {}).get("part")
    for p, m in zip(PARTS, MODS):
        if part in (None, p) and hasattr(m, "replay"):
            ok, msg = m.replay(ctx, payload)
            if part == p or not ok:
                return ok, msg
    return False, "no part recognises this replay"
