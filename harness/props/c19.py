"""C19 — OMML -> LaTeX.  Correspondence of S2T.Model.Omml with omml_to_latex / convert_greek_and_symbols
(and the docx / pptx call sites) over generated OMML trees, plus an oracle of the property statement
itself (reference rendering of the documented forms, unique-token order check, brace balance,
totality, determinism) that is independent of the Lean model."""
from __future__ import annotations

import copy
import itertools
import unicodedata
from xml.etree import ElementTree as ET
from xml.sax.saxutils import escape, quoteattr

from run import Broken, Violation

GEN = ["Omml", "PyOmml", "OmmlState"]
RULE = ("trees = (a) committed regression witnesses, (b) every structural element x every subset of its optional "
        "children/attributes x small operand pool (exhaustive), (c) random schema-ordered trees to depth 6 with "
        "property elements interleaved and bracket-only radicals, (d) malformed variants (shuffled/duplicated/"
        "re-namespaced/stray children, m:val dropped, text under property elements). Text alphabet: every key of "
        "GREEK_TO_LATEX, brackets, braces, blanks incl. Unicode blanks, backslash, function names, non-BMP. "
        "distinct = distinct serialised trees; non-trivial = tree has a run or a structural element. "
        "HISTORIES on live Element objects: (e) every structural template with each optional child / m:val toggled IN PLACE "
        "(Gray-code walk over all subsets) and every run text rewritten, converting the same root after each edit; "
        "(f) random sessions over 1-3 live trees: conversions of the root or an inner element interleaved with in-place "
        "edits (text, m:val set/deleted, foreign attributes, tails, renames, inserts, removals, moves of a live subtree, "
        "reorderings, optional-property toggles), objects dropped and re-created (id reuse), trees with pending "
        "radicals before other trees, the docx / pptx call sites on a persistent paragraph around the live root; each "
        "conversion is compared with the Lean history model, with a fresh parse of a never-converted shadow tree that "
        "received the same edits, and with a deep copy")
ASSUMPTIONS = [
    "xml.etree.ElementTree parsing (bytes -> tree) is not modelled; the model receives (namespace flag, local name, "
    "m:val, text, children) read from the same parsed tree the real function gets",
    "CPython str.strip()/isspace, str.partition, dict.get, f-strings as modelled in S2T/Model/Omml.lean",
    "run-origin flags of the model's output characters are model-internal (the real function returns a plain str); "
    "the 'exactly once, in order' reading is additionally checked on the real code with unique tokens by the oracle",
]
TRUSTED = ["template literals and attribute defaults of S2T/Model/Omml.lean (hand-written; tied by this correspondence)",
           "reference LaTeX names in harness/props/c19.py and S2T/Spec/OmmlDoc.lean (transcribed from the module docstring / LaTeX)"]

M_URI = "http://schemas.openxmlformats.org/officeDocument/2006/math"
W_URI = "http://schemas.openxmlformats.org/wordprocessingml/2006/main"
X_URI = "urn:x-other"
M = "{" + M_URI + "}"
NSDECL = f'xmlns:m="{M_URI}" xmlns:w="{W_URI}" xmlns:x="{X_URI}"'
PFX = {"m": M_URI, "w": W_URI, "x": X_URI}


# ----------------------------------------------------------------------------- light tree + XML text
class N:
    __slots__ = ("p", "name", "attrs", "text", "kids")

    def __init__(self, name, kids=(), text=None, attrs=None, p="m"):
        self.p, self.name, self.attrs, self.text, self.kids = p, name, dict(attrs or {}), text, list(kids)

    def xml(self, top=False):
        tag = f"{self.p}:{self.name}" if self.p else self.name
        a = "".join(f" {k}={quoteattr(v)}" for k, v in self.attrs.items())
        if top:
            a = " " + NSDECL + a
        inner = (escape(self.text) if self.text else "") + "".join(k.xml() for k in self.kids)
        return f"<{tag}{a}>{inner}</{tag}>" if inner else f"<{tag}{a}/>"

    def walk(self):
        yield self
        for k in self.kids:
            yield from k.walk()


def local(tag):
    return tag.split("}")[-1]


def to_json(e):
    return {"m": e.tag.startswith(M), "n": local(e.tag), "v": e.get(M + "val"), "t": e.text or "", "k": [to_json(c) for c in e]}


def parse(xml):
    return ET.fromstring(xml)


# ----------------------------------------------------------------------------- implementation adaptor
def impl(root):
    from sharepoint2text.parsing.extractors.util.omml_to_latex import omml_to_latex
    try:
        r = omml_to_latex(root)
    except RecursionError:
        raise
    except Exception as e:  # the property says nothing may be raised
        return f"ERR:{type(e).__name__}"
    return r if isinstance(r, str) else f"ERR:returned {type(r).__name__}"


# ----------------------------------------------------------------------------- alphabets
LETTERS = "abxyzn012+-=,"
BRACKETS = "()[]"
BRACES = "{}"
BLANKS = " \t\n\u00a0\u2003\u3000"
SPECIAL = "\\^_&$%|<>'\"~"
EXOTIC = "\U0001d465\u0302\u20d7\u00e9"
FNAMES = ["sin", "cos", "tan", "log", "ln", "lim", "exp", "max", "min", "arg", "sinh", " sin ", "Sin", ""]
OPS = ["\u2211", "\u220f", "\u222b", "\u222c", "\u222d", "\u222e", "\u22c3", "\u03b1", "+", "", "{", "\u2211\u2211"]
ACCENTS = ["\u0302", "\u0303", "\u0304", "\u20d7", "\u0307", "\u0308", "^", "", "~"]
DELIMS = ["(", ")", "[", "]", "|", "", "\u27e8", "\u27e9", "{", "}", "\u2016"]


def greek_keys():
    from sharepoint2text.parsing.extractors.util import omml_to_latex as mod
    return "".join(mod.GREEK_TO_LATEX)


def rand_text(rng, braces=False, brackets=True):
    r = rng.random()
    if r < 0.25:
        return rng.choice(LETTERS)
    if r < 0.31:   # blank-only text (stripped degrees / names, omitted limits)
        return "".join(rng.choice(BLANKS) for _ in range(rng.randint(1, 2)))
    pool = LETTERS * 3 + greek_keys() + BLANKS + SPECIAL + EXOTIC + (BRACKETS * 2 if brackets else "") + (BRACES * 2 if braces else "")
    return "".join(rng.choice(pool) for _ in range(rng.randint(0, 6)))


# ----------------------------------------------------------------------------- structured (schema-ordered) generator
def prop_elems(rng, kind):
    """property children that carry no run (interleaved where the schema allows them)"""
    out = []
    if rng.random() < 0.5:
        inner = []
        if rng.random() < 0.5:
            inner.append(N("ctrlPr", [N("rPr", [N("rFonts", attrs={"w:ascii": "Cambria Math"}, p="w"), N("i", p="w")], p="w")]))
        if kind == "fPr" and rng.random() < 0.5:
            inner.insert(0, N("type", attrs={"m:val": rng.choice(["bar", "skw", "lin", "noBar"])}))
        if kind == "radPr" and rng.random() < 0.5:
            inner.insert(0, N("degHide", attrs={"m:val": "1"}))
        out.append(N(kind, inner))
    return out


class Gen:
    def __init__(self, rng, braces=False, brad=0.06, wild_attr=0.15):
        self.rng, self.braces, self.brad, self.wild_attr = rng, braces, brad, wild_attr
        self.has_brad = False

    def run(self, text=None):
        rng = self.rng
        kids = []
        if rng.random() < 0.3:
            kids.append(N("rPr", [N("sty", attrs={"m:val": "p"})] if rng.random() < 0.5 else []))
        if rng.random() < 0.2:
            kids.append(N("rPr", [N("rFonts", p="w"), N("i", p="w"), N("color", attrs={"w:val": "FF0000"}, p="w")], p="w"))
        t = rand_text(rng, self.braces) if text is None else text
        kids.append(N("t", text=t, p="w" if rng.random() < 0.1 else "m"))
        return N("r", kids)

    def arg(self, name, depth, text=None):
        rng = self.rng
        kids = []
        if rng.random() < 0.15:
            kids.append(N("argPr", [N("argSz", attrs={"m:val": "1"})]))
        if text is not None:
            kids.append(self.run(text))
        else:
            kids += self.expr(depth)
        if rng.random() < 0.1:
            kids.append(N("ctrlPr"))
        return N(name, kids)

    def opt(self, p=0.85):
        return self.rng.random() < p

    def valattr(self, choices):
        """m:val present / absent; sometimes an un-namespaced or foreign `val` as a distractor"""
        rng = self.rng
        a = {}
        if rng.random() > self.wild_attr:
            a["m:val"] = rng.choice(choices)
        if rng.random() < self.wild_attr:
            a["val"] = rng.choice(choices)
        if rng.random() < self.wild_attr:
            a["w:val"] = rng.choice(choices)
        return a

    def expr(self, depth):
        rng = self.rng
        n = rng.choice([0, 1, 1, 1, 2, 2, 3])
        return [self.item(depth) for _ in range(n)]

    def item(self, depth):
        rng = self.rng
        if depth <= 0 or rng.random() < 0.35:
            return self.run()
        k = rng.choice(["f", "sSup", "sSub", "sSubSup", "rad", "rad", "nary", "d", "m", "func", "bar", "acc", "pass", "brad"])
        d = depth - 1
        if k == "f":
            return N("f", prop_elems(rng, "fPr") + ([self.arg("num", d)] if self.opt() else []) + ([self.arg("den", d)] if self.opt() else []))
        if k == "sSup":
            return N("sSup", prop_elems(rng, "sSupPr") + ([self.arg("e", d)] if self.opt() else []) + ([self.arg("sup", d)] if self.opt() else []))
        if k == "sSub":
            return N("sSub", prop_elems(rng, "sSubPr") + ([self.arg("e", d)] if self.opt() else []) + ([self.arg("sub", d)] if self.opt() else []))
        if k == "sSubSup":
            return N("sSubSup", prop_elems(rng, "sSubSupPr") + ([self.arg("e", d)] if self.opt() else [])
                     + ([self.arg("sub", d)] if self.opt() else []) + ([self.arg("sup", d)] if self.opt() else []))
        if k == "rad":
            return N("rad", prop_elems(rng, "radPr") + ([self.arg("deg", d if rng.random() < 0.5 else 0)] if self.opt(0.6) else [])
                     + ([self.arg("e", d)] if self.opt() else []))
        if k == "brad":
            if rng.random() > self.brad * 14:
                return self.run()
            if rng.random() < 0.3:   # radicand that is one other symbol: not the malformed pattern
                b = rng.choice("|<'+-!/" + LETTERS)
            else:
                self.has_brad = True
                b = rng.choice("([{" if self.braces else "([")
            pad = rng.choice(["", "", " ", "\n"])
            return N("rad", prop_elems(rng, "radPr") + ([self.arg("deg", 0)] if self.opt(0.4) else []) + [self.arg("e", 0, text=pad + b + pad)])
        if k == "nary":
            pr = []
            if self.opt(0.8):
                inner = [N("chr", attrs=self.valattr(OPS))] if self.opt(0.8) else []
                if rng.random() < 0.4:
                    inner.append(N("limLoc", attrs={"m:val": "undOvr"}))
                if rng.random() < 0.3:
                    inner.append(N("ctrlPr"))
                pr = [N("naryPr", inner)]
            return N("nary", pr + ([self.arg("sub", d)] if self.opt() else []) + ([self.arg("sup", d)] if self.opt() else [])
                     + ([self.arg("e", d)] if self.opt() else []))
        if k == "d":
            pr = []
            if self.opt(0.7):
                inner = []
                if self.opt(0.7):
                    inner.append(N("begChr", attrs=self.valattr(DELIMS if self.braces else [x for x in DELIMS if x not in "{}"])))
                if rng.random() < 0.3:
                    inner.append(N("sepChr", attrs={"m:val": "|"}))
                if self.opt(0.7):
                    inner.append(N("endChr", attrs=self.valattr(DELIMS if self.braces else [x for x in DELIMS if x not in "{}"])))
                pr = [N("dPr", inner)]
            return N("d", pr + [self.arg("e", d) for _ in range(rng.choice([0, 1, 1, 2, 3]))])
        if k == "m":
            rows = [N("mr", [self.arg("e", d) for _ in range(rng.choice([0, 1, 2, 3]))]) for _ in range(rng.choice([0, 1, 2, 2, 3]))]
            return N("m", ([N("mPr", [N("mcs", [N("mc", [N("mcPr", [N("count", attrs={"m:val": "2"})])])])])] if rng.random() < 0.4 else []) + rows)
        if k == "func":
            fn = self.arg("fName", 0, text=rng.choice(FNAMES)) if rng.random() < 0.8 else self.arg("fName", d)
            return N("func", prop_elems(rng, "funcPr") + ([fn] if self.opt() else []) + ([self.arg("e", d)] if self.opt() else []))
        if k == "bar":
            return N("bar", ([N("barPr", [N("pos", attrs={"m:val": "top"})])] if rng.random() < 0.5 else []) + ([self.arg("e", d)] if self.opt() else []))
        if k == "acc":
            pr = [N("accPr", ([N("chr", attrs=self.valattr(ACCENTS))] if self.opt(0.8) else []) + ([N("ctrlPr")] if rng.random() < 0.3 else []))] if self.opt(0.8) else []
            return N("acc", pr + ([self.arg("e", d)] if self.opt() else []))
        # pass-through containers the converter has no template for
        nm = rng.choice(["box", "borderBox", "limLow", "limUpp", "sPre", "groupChr", "eqArr", "phant", "oMath", "m"])
        if nm == "limLow":
            return N(nm, [self.arg("e", d), self.arg("lim", d)])
        if nm == "sPre":
            return N(nm, [self.arg("sub", d), self.arg("sup", d), self.arg("e", d)])
        if nm == "groupChr":
            return N(nm, [N("groupChrPr", [N("chr", attrs={"m:val": "\u23df"}), N("pos", attrs={"m:val": "bot"})]), self.arg("e", d)])
        if nm == "m":   # an m:m without rows is a plain container
            return N(nm, [self.arg("e", d)])
        if nm == "oMath":
            return N(nm, self.expr(d))
        return N(nm, [self.arg("e", d) for _ in range(rng.choice([1, 1, 2]))])

    def tree(self, depth):
        root = N(self.rng.choice(["oMath", "oMath", "oMath", "oMathPara", "f", "t"]), self.expr(depth))
        if root.name == "oMathPara":
            root.kids = [N("oMathParaPr", [N("jc", attrs={"m:val": "center"})])] + [N("oMath", self.expr(depth))]
        return root


# ----------------------------------------------------------------------------- exhaustive small trees
def exhaustive():
    """every structural element x every subset of its optional children / attributes, small operand pool"""
    def R(t):
        return N("r", [N("t", text=t)])
    out = []

    def subsets(items):
        for k in range(len(items) + 1):
            for c in itertools.combinations(range(len(items)), k):
                yield [items[i] for i in c]

    def A(name, t):
        return lambda: N(name, [R(t)])

    specs = {
        "f": [lambda: N("fPr", [N("type", attrs={"m:val": "bar"})]), A("num", "a"), A("den", "\u03b2")],
        "sSup": [lambda: N("sSupPr", [N("ctrlPr")]), A("e", "x"), A("sup", "2")],
        "sSub": [A("e", "x"), A("sub", "i")],
        "sSubSup": [A("e", "x"), A("sub", "i"), A("sup", "\u221e")],
        "rad": [lambda: N("radPr", [N("degHide", attrs={"m:val": "1"})]), A("deg", "3"), A("e", "y")],
        "func": [lambda: N("funcPr"), A("fName", "sin"), A("e", "x")],
        "bar": [lambda: N("barPr", [N("pos", attrs={"m:val": "top"})]), A("e", "z")],
    }
    for tag, items in specs.items():
        for sub in subsets(items):
            out.append((f"exh/{tag}", N("oMath", [N(tag, [mk() for mk in sub]), R("w")])))
    for tag, prn, chrs in (("nary", "naryPr", OPS[:7] + [None]), ("acc", "accPr", ACCENTS[:7] + [None])):
        for has_pr in (False, True):
            for has_chr in ((False, True) if has_pr else (False,)):
                for val in (chrs if has_chr else [None]):
                    ops = [A("sub", "i"), A("sup", "n"), A("e", "x")] if tag == "nary" else [A("e", "x")]
                    for sub in subsets(ops):
                        pr = []
                        if has_pr:
                            pr = [N(prn, [N("chr", attrs=({"m:val": val} if val is not None else {}))] if has_chr else [N("ctrlPr")])]
                        out.append((f"exh/{tag}", N("oMath", [N(tag, pr + [mk() for mk in sub])])))
    for has_pr in (False, True):
        for beg in ((None, "absent", "[", "|", "") if has_pr else ("absent",)):
            for end in ((None, "absent", "]", "") if has_pr else ("absent",)):
                for n_e in (0, 1, 2):
                    inner = []
                    if beg != "absent":
                        inner.append(N("begChr", attrs=({"m:val": beg} if beg is not None else {})))
                    if end != "absent":
                        inner.append(N("endChr", attrs=({"m:val": end} if end is not None else {})))
                    out.append(("exh/d", N("oMath", [N("d", ([N("dPr", inner)] if has_pr else []) + [N("e", [R("pq"[i])]) for i in range(n_e)])])))
    for blank in (" ", "\u00a0\n"):
        out.append(("exh/blank", N("oMath", [N("nary", [N("sub", [R(blank)]), N("sup", [R(blank)]), N("e", [R("x")])])])))
        out.append(("exh/blank", N("oMath", [N("nary", [N("sub", [R("i")]), N("sup", [R(blank)]), N("e", [R("x")])])])))
        out.append(("exh/blank", N("oMath", [N("rad", [N("deg", [R(blank)]), N("e", [R("x")])])])))
        out.append(("exh/blank", N("oMath", [N("rad", [N("deg", [R(blank + "3" + blank)]), N("e", [R("x")])])])))
        out.append(("exh/blank", N("oMath", [N("func", [N("fName", [R(blank + "cos" + blank)]), N("e", [R("x")])])])))
    for sym in "|<'+!/a":
        out.append(("exh/rad-one-symbol", N("oMath", [N("rad", [N("e", [R(sym)])]), R("y" + sym + ")")])))
    for rows in ([], [0], [1], [2], [1, 2], [2, 2], [0, 1]):
        out.append(("exh/m", N("oMath", [N("m", [N("mr", [N("e", [R(str(i) + str(j))]) for j in range(c)]) for i, c in enumerate(rows)])])))
    # every mapped character on its own and inside a template
    for ch in greek_keys():
        out.append(("exh/symbol", N("oMath", [R("a" + ch + "b"), N("sSup", [N("e", [R(ch)]), N("sup", [R(ch + ch)])])])))
    # nested same-kind operators (descendant lookups), nested radicals incl. bracket-only ones
    inner_nary = N("nary", [N("naryPr", [N("chr", attrs={"m:val": "\u222b"})]), N("e", [R("y")])])
    for outer_pr in ([], [N("naryPr")], [N("naryPr", [N("limLoc", attrs={"m:val": "subSup"})])], [N("naryPr", [N("chr", attrs={"m:val": "\u220f"})])]):
        out.append(("exh/nested-nary", N("oMath", [N("nary", copy.deepcopy(outer_pr) + [N("sub", [R("i")]), N("e", [copy.deepcopy(inner_nary)])])])))
    inner_d = N("d", [N("dPr", [N("begChr", attrs={"m:val": "["}), N("endChr", attrs={"m:val": "]"})]), N("e", [R("y")])])
    out.append(("exh/nested-d", N("oMath", [N("d", [N("e", [copy.deepcopy(inner_d)])])])))
    out.append(("exh/nested-d", N("oMath", [N("d", [N("dPr", [N("begChr", attrs={"m:val": "|"})]), N("e", [copy.deepcopy(inner_d)])])])))
    inner_acc = N("acc", [N("accPr", [N("chr", attrs={"m:val": "\u0303"})]), N("e", [R("y")])])
    out.append(("exh/nested-acc", N("oMath", [N("acc", [N("e", [copy.deepcopy(inner_acc)])])])))
    for b1, b2, tail in itertools.product("([", "([", ["y", "y)", "y))", "y])", "y)]", ")", "y) z] w)"]):
        out.append(("exh/brad2", N("oMath", [N("rad", [N("deg"), N("e", [R(b1)])]), N("rad", [N("e", [R(b2)])]), R(tail)])))
        out.append(("exh/brad-in-frac", N("oMath", [N("f", [N("num", [N("rad", [N("e", [R(b1)])]), R("a")]), N("den", [R("b" + tail)])]), R(tail)])))
    for opener, closer in (("(", ")"), ("[", "]")):
        inner_brad = N("rad", [N("e", [R(opener)])])
        out.append(("exh/brad-deg", N("oMath", [N("rad", [N("deg", [R(closer)]), N("e", [copy.deepcopy(inner_brad)])])])))
        out.append(("exh/brad-deg", N("oMath", [copy.deepcopy(inner_brad), N("rad", [N("deg", [R("n" + closer)]), N("e", [R("q")])])])))
    return out


WITNESSES = [
    ("nary-chr-without-val", '<m:oMath %s><m:nary><m:naryPr><m:chr/></m:naryPr><m:e><m:r><m:t>x</m:t></m:r></m:e></m:nary></m:oMath>' % NSDECL),
    ("delim-begchr-without-val", '<m:oMath %s><m:d><m:dPr><m:begChr/></m:dPr><m:e><m:r><m:t>x</m:t></m:r></m:e></m:d></m:oMath>' % NSDECL),
    ("delim-endchr-without-val", '<m:oMath %s><m:d><m:dPr><m:endChr/></m:dPr><m:e><m:r><m:t>x</m:t></m:r></m:e></m:d></m:oMath>' % NSDECL),
    ("two-bracket-only-radicals", '<m:oMath %s><m:rad><m:deg/><m:e><m:r><m:t>(</m:t></m:r></m:e></m:rad><m:rad><m:deg/><m:e><m:r><m:t>(</m:t></m:r></m:e></m:rad><m:r><m:t>y</m:t></m:r></m:oMath>' % NSDECL),
    ("nested-nary-chr", '<m:oMath %s><m:nary><m:naryPr/><m:e><m:nary><m:naryPr><m:chr m:val="\u222b"/></m:naryPr><m:e><m:r><m:t>y</m:t></m:r></m:e></m:nary></m:e></m:nary></m:oMath>' % NSDECL),
    ("closer-in-degree", '<m:oMath %s><m:rad><m:deg><m:r><m:t>)</m:t></m:r></m:deg><m:e><m:rad><m:e><m:r><m:t>(</m:t></m:r></m:e></m:rad></m:e></m:rad></m:oMath>' % NSDECL),
]


# ----------------------------------------------------------------------------- malformed variants
def mutate(rng, root):
    """one malformed variant of a schema-ordered tree"""
    root = copy.deepcopy(root)
    nodes = [n for n in root.walk()]
    for _ in range(rng.randint(1, 3)):
        n = rng.choice(nodes)
        k = rng.randrange(10)
        if k == 0 and len(n.kids) > 1:
            rng.shuffle(n.kids)
        elif k == 1 and n.kids:
            n.kids.insert(rng.randrange(len(n.kids) + 1), copy.deepcopy(rng.choice(n.kids)))
        elif k == 2:
            n.p = rng.choice(["x", "w", "", "m"])
        elif k == 3:
            n.attrs.pop("m:val", None)
        elif k == 4:
            n.name = rng.choice(["t", "e", "f", "rad", "nary", "d", "m", "mr", "func", "acc", "bar", "chr", "begChr", "rPr", "ctrlPr", "num", "deg", "sub"])
        elif k == 5:
            n.kids.insert(rng.randrange(len(n.kids) + 1), N("r", [N("t", text=rand_text(rng, True))]))
        elif k == 6:
            n.kids.insert(rng.randrange(len(n.kids) + 1), N(rng.choice(["rPr", "ctrlPr", "i", "sz"]), [N("r", [N("t", text="hidden")])]))
        elif k == 7:
            n.text = rand_text(rng, True)
        elif k == 8:
            n.kids.insert(0, N(rng.choice(["naryPr", "dPr", "accPr", "chr", "begChr", "endChr"]),
                               [N(rng.choice(["chr", "begChr", "endChr"]), attrs={"m:val": rng.choice(OPS + DELIMS)})]))
        else:
            n.kids.append(N("rad", [N("e", [N("r", [N("t", text=rng.choice("([{"))])])]))
        nodes = [m for m in root.walk()]
    return root


# ----------------------------------------------------------------------------- case streams
def streams(ctx, n_struct=None, n_mal=None):
    rng = ctx.rng
    cases = []  # (group, xml, flags)
    for name, xml in WITNESSES:
        cases.append(("witness/" + name, xml, {}))
    for grp, t in exhaustive():
        cases.append((grp, t.xml(top=True), {"conformant": True}))
    ns = ctx.n(900, 40000) if n_struct is None else n_struct
    nm = ctx.n(700, 30000) if n_mal is None else n_mal
    for i in range(ns):
        g = Gen(rng, braces=(i % 5 == 0), brad=0.0 if i % 3 else 0.06)
        t = g.tree(rng.choice([1, 2, 2, 3, 3, 4, 6]))
        cases.append(("structured" + ("/braces" if g.braces else "") + ("/brad" if g.has_brad else ""), t.xml(top=True),
                      {"conformant": True, "brad": g.has_brad}))
        if i < nm:
            cases.append(("malformed", mutate(rng, t).xml(top=True), {}))
    return cases


def wrap_checks(root, latex):
    """docx / pptx call sites: the formula ends up as $latex$ / $$latex$$ in the paragraph text and in the formula lists"""
    from sharepoint2text.parsing.extractors.ms_modern import docx_extractor as dx, pptx_extractor as px
    bad = []
    if root.tag != M + "oMath" or any(c.tag in (M + "oMath", M + "oMathPara") for c in root.iter() if c is not root):
        return bad
    p = ET.Element("{%s}p" % W_URI)
    r = ET.SubElement(p, "{%s}r" % W_URI)
    ET.SubElement(r, "{%s}t" % W_URI).text = "A"
    p.append(copy.deepcopy(root))
    para = ET.SubElement(p, M + "oMathPara")
    para.append(copy.deepcopy(root))
    try:
        got = dx._extract_paragraph_content(p, True)
        want = "A" + (f"${latex}$" if latex.strip() else "") + (f"$${latex}$$" if latex.strip() else "")
        if got != want:
            bad.append(f"docx paragraph text {got!r} != {want!r}")
        fs = px._extract_formulas_from_element(p)
        wantf = [(latex, True), (latex, False)] if latex.strip() else []
        if fs != wantf:
            bad.append(f"pptx formulas {fs!r} != {wantf!r}")
    except Exception as e:
        bad.append(f"call site raised {type(e).__name__}: {e}")
    return bad


# ----------------------------------------------------------------------------- HISTORIES on live Element objects
# A session = some live trees + a list of explicit steps (JSON-able, no randomness at execution time):
#   {"t": i, "op": "conv", "p": path[, "site": true]}     omml_to_latex(<element at path of live tree i>)
#   {"t": i, "op": "text", "p": path, "s": str}            e.text = s
#   {"t": i, "op": "val", "p": path, "v": str|None}        e.set(M+"val", v) / e.attrib.pop(M+"val")
#   {"t": i, "op": "attr", "p": path, "k": clark-name, "v": str|None}   a foreign attribute (no input of the converter)
#   {"t": i, "op": "tail", "p": path, "s": str}            e.tail = s (live tree only: no input of the converter)
#   {"t": i, "op": "tag", "p": path, "tag": clark-name}    e.tag = ...
#   {"t": i, "op": "ins", "p": path, "i": k, "xml": str}   e.insert(k, <fresh subtree>)
#   {"t": i, "op": "del", "p": path, "i": k}               e.remove(e[k])
#   {"t": i, "op": "move", "p": path, "i": k, "q": path2, "j": l}   the live child object moves under another parent
#   {"t": i, "op": "perm", "p": path, "perm": [..]}        e[:] = [e[j] for j in perm]
#   {"t": i, "op": "renew"}                                the live object is dropped and re-created from the shadow
# Every edit is applied to the live tree (the only one the library ever sees) and to a SHADOW tree that is never
# converted; an edit whose path leads nowhere changes nothing (so step lists can be shrunk freely).
for _p in ("m", "w", "x"):
    ET.register_namespace(_p, PFX[_p])


def _at(root, path):
    e = root
    for i in path:
        if not (0 <= i < len(e)):
            return None
        e = e[i]
    return e


def _apply(root, st, shadow):
    """apply one edit step in place; returns the Lean steps it corresponds to (None: leads nowhere)"""
    op = st["op"]
    e = _at(root, st.get("p", []))
    if e is None:
        return None
    if op == "text":
        e.text = st["s"]
        return [{"op": "text", "p": st["p"], "s": st["s"]}]
    if op == "val":
        if st["v"] is None:
            e.attrib.pop(M + "val", None)
        else:
            e.set(M + "val", st["v"])
        return [{"op": "val", "p": st["p"], "v": st["v"]}]
    if op == "attr":
        if st["k"] == M + "val":
            return None
        if st["v"] is None:
            e.attrib.pop(st["k"], None)
        else:
            e.set(st["k"], st["v"])
        return []
    if op == "tail":
        if not shadow and st["p"]:
            e.tail = st["s"]
        return []
    if op == "tag":
        e.tag = st["tag"]
        return [{"op": "tag", "p": st["p"], "m": st["tag"].startswith(M), "n": local(st["tag"])}]
    if op == "ins":
        sub = parse(st["xml"])
        k = min(max(st["i"], 0), len(e))
        e.insert(k, sub)
        return [{"op": "ins", "p": st["p"], "i": k, "x": to_json(sub)}]
    if op == "del":
        if not (0 <= st["i"] < len(e)):
            return None
        e.remove(e[st["i"]])
        return [{"op": "del", "p": st["p"], "i": st["i"]}]
    if op == "move":
        if not (0 <= st["i"] < len(e)):
            return None
        child = e[st["i"]]
        dst = _at(root, st["q"])
        if dst is None or any(x is dst for x in child.iter()):
            return None
        sub_json = to_json(child)
        e.remove(child)
        # the destination path is resolved BEFORE the removal (same object), its index path may have shifted: recompute
        qpath = _path_of(root, dst)
        if qpath is None:
            e.insert(st["i"], child)
            return None
        k = min(max(st["j"], 0), len(dst))
        dst.insert(k, child)
        return [{"op": "del", "p": st["p"], "i": st["i"]}, {"op": "ins", "p": qpath, "i": k, "x": sub_json}]
    if op == "perm":
        kids = list(e)
        perm = [j for j in st["perm"] if 0 <= j < len(kids)]
        if sorted(perm) != list(range(len(kids))):
            return None
        e[:] = [kids[j] for j in perm]
        return [{"op": "kids", "p": st["p"], "k": [to_json(c) for c in e]}]
    raise ValueError(op)


def _path_of(root, target):
    def rec(e, acc):
        if e is target:
            return acc
        for i, c in enumerate(e):
            r = rec(c, acc + [i])
            if r is not None:
                return r
        return None
    return rec(root, [])


def _site_ok(root):
    return root.tag == M + "oMath" and not any(c.tag in (M + "oMath", M + "oMathPara") for c in root.iter() if c is not root)


def run_session(trees, steps):
    """executes a session on the real code.  Returns (records, lean_requests, finals):
    records = one dict per conversion: live output, output for a fresh parse of the shadow, output for a deep copy of
    the live element, call-site complaints; lean_requests = one c19.hist request per tree"""
    from sharepoint2text.parsing.extractors.ms_modern import docx_extractor as dx, pptx_extractor as px
    live = [parse(x) for x in trees]
    shadow = [parse(x) for x in trees]
    paras = []
    for r in live:      # a persistent paragraph around the live root (the extractors convert what hangs in the document)
        p = ET.Element("{%s}p" % W_URI)
        ET.SubElement(ET.SubElement(p, "{%s}r" % W_URI), "{%s}t" % W_URI).text = "A"
        p.append(r)
        paras.append(p)
    lean = [{"op": "c19.hist", "tree": to_json(r), "steps": []} for r in live]
    records = []
    for n, st in enumerate(steps):
        i = st.get("t", 0)
        if not (0 <= i < len(live)):
            continue
        if st["op"] == "conv":
            e, sh = _at(live[i], st["p"]), _at(shadow[i], st["p"])
            if e is None or sh is None:
                continue
            got = impl(e)
            shx = ET.tostring(sh, encoding="unicode")
            ref = impl(parse(shx))
            cp = impl(copy.deepcopy(e))
            again = impl(e)
            site = []
            if st.get("site") and not st["p"] and _site_ok(live[i]) and not ref.startswith("ERR:"):
                try:
                    g1 = dx._extract_paragraph_content(paras[i], True)
                    w1 = "A" + (f"${ref}$" if ref.strip() else "")
                    if g1 != w1:
                        site.append(f"docx paragraph text {g1!r} != {w1!r}")
                    g2 = px._extract_formulas_from_element(paras[i])
                    w2 = [(ref, False)] if ref.strip() else []
                    if g2 != w2:
                        site.append(f"pptx formulas {g2!r} != {w2!r}")
                except Exception as ex:
                    site.append(f"call site raised {type(ex).__name__}: {ex}")
            lean[i]["steps"].append({"op": "conv", "p": st["p"]})
            records.append({"step": n, "t": i, "p": st["p"], "got": got, "fresh": ref, "copy": cp, "again": again,
                            "site": site, "xml": shx})
        elif st["op"] == "renew":
            x = ET.tostring(shadow[i], encoding="unicode")
            paras[i].remove(live[i])
            live[i] = None          # drop the object first: the new one may get its address
            live[i] = parse(x)
            paras[i].append(live[i])
        else:
            a = _apply(live[i], st, False)
            b = _apply(shadow[i], st, True)
            if (a is None) != (b is None):
                raise RuntimeError("live and shadow tree diverged structurally at step %d" % n)
            if a:
                lean[i]["steps"] += a
    finals = [to_json(r) for r in live]
    return records, lean, finals


def history_oracle(trees, steps):
    """violations of the property statement along a session on the real code: [(key, what)]"""
    try:
        records, _, _ = run_session(trees, steps)
    except ET.ParseError:
        return []
    out = []
    for r in records:
        where = f"step {r['step']} (conversion of the element at path {r['p']} of live tree {r['t']})"
        if r["got"].startswith("ERR:") and not r["fresh"].startswith("ERR:"):
            out.append(("history", f"{where}: raised {r['got'][4:]} although a fresh copy of the tree converts to {r['fresh']!r}"))
        elif r["got"] != r["fresh"]:
            out.append(("history", f"{where}: the live object converts to {r['got']!r} but a fresh copy of the tree as it is now "
                                   f"converts to {r['fresh']!r} (tree: {r['xml'].replace(' ' + NSDECL, '')[:300]})"))
        elif r["copy"] != r["fresh"]:
            out.append(("history", f"{where}: a deep copy of the live object converts to {r['copy']!r} but a fresh parse of the same tree "
                                   f"to {r['fresh']!r}"))
        elif r["again"] != r["got"]:
            out.append(("history", f"{where}: converting the untouched object twice gives {r['got']!r} then {r['again']!r}"))
        elif r["site"]:
            out.append(("history", f"{where}: " + "; ".join(r["site"])))
        if out:
            break
    return out


# ---- generators of sessions
def _opt_children(tag):
    """(optional child name, xml) in schema order for the in-place toggle walk"""
    def A(name, t):
        return (name, f'<m:{name} {NSDECL}><m:r><m:t>{escape(t)}</m:t></m:r></m:{name}>')
    table = {
        "f": [("fPr", f'<m:fPr {NSDECL}><m:type m:val="bar"/></m:fPr>'), A("num", "a"), A("den", "β")],
        "sSup": [("sSupPr", f'<m:sSupPr {NSDECL}><m:ctrlPr/></m:sSupPr>'), A("e", "x"), A("sup", "2")],
        "sSub": [A("e", "x"), A("sub", "i")],
        "sSubSup": [A("e", "x"), A("sub", "i"), A("sup", "∞")],
        "rad": [("radPr", f'<m:radPr {NSDECL}><m:degHide m:val="1"/></m:radPr>'), A("deg", "3"), A("e", "y")],
        "func": [("funcPr", f'<m:funcPr {NSDECL}/>'), A("fName", "sin"), A("e", "x")],
        "bar": [("barPr", f'<m:barPr {NSDECL}><m:pos m:val="top"/></m:barPr>'), A("e", "z")],
        "nary": [("naryPr", f'<m:naryPr {NSDECL}><m:chr m:val="∫"/></m:naryPr>'), A("sub", "i"), A("sup", "n"), A("e", "x")],
        "acc": [("accPr", f'<m:accPr {NSDECL}><m:chr m:val="̃"/></m:accPr>'), A("e", "x")],
        "d": [("dPr", f'<m:dPr {NSDECL}><m:begChr m:val="["/><m:endChr m:val="|"/></m:dPr>'), A("e", "p"), A("e", "q")],
        "m": [("mPr", f'<m:mPr {NSDECL}/>'), ("mr", f'<m:mr {NSDECL}><m:e><m:r><m:t>1</m:t></m:r></m:e><m:e><m:r><m:t>2</m:t></m:r></m:e></m:mr>'),
              ("mr", f'<m:mr {NSDECL}><m:e><m:r><m:t>3</m:t></m:r></m:e></m:mr>')],
    }
    return table[tag]


TEMPLATE_TAGS = ["f", "sSup", "sSub", "sSubSup", "rad", "func", "bar", "nary", "acc", "d", "m"]


def template_sessions():
    """every structural element as ONE live object: each optional child toggled in place along a Gray-code walk over all
    subsets (converted after every toggle), then the m:val of its property children set / changed / deleted, then every
    run text rewritten"""
    out = []
    for tag in TEMPLATE_TAGS:
        opts = _opt_children(tag)
        k = len(opts)
        tree = f'<m:oMath {NSDECL}><m:{tag}>' + "".join(x.replace(" " + NSDECL, "") for _, x in opts) + \
               f'</m:{tag}><m:r><m:t>w</m:t></m:r></m:oMath>'
        steps = [{"t": 0, "op": "conv", "p": [], "site": True}]
        present = [True] * k
        for g in range(1, 2 ** k + 1):
            bit = (g & -g).bit_length() - 1
            if bit >= k:
                bit = k - 1
            pos = sum(present[:bit])
            if present[bit]:
                steps.append({"t": 0, "op": "del", "p": [0], "i": pos})
            else:
                steps.append({"t": 0, "op": "ins", "p": [0], "i": pos, "xml": opts[bit][1]})
            present[bit] = not present[bit]
            steps.append({"t": 0, "op": "conv", "p": [], "site": g % 3 == 0})
        # back to the full element, then attribute and text edits
        for bit in range(k):
            if not present[bit]:
                steps.append({"t": 0, "op": "ins", "p": [0], "i": sum(present[:bit]), "xml": opts[bit][1]})
                present[bit] = True
        steps.append({"t": 0, "op": "conv", "p": []})
        if tag in ("nary", "acc", "d"):
            vals = {"nary": ["∑", "∏", None, "α", ""], "acc": ["̂", "⃗", None, "~"], "d": ["(", "⟨", None, ""]}[tag]
            n_pr = 2 if tag == "d" else 1
            for j in range(n_pr):
                for v in vals:
                    steps.append({"t": 0, "op": "val", "p": [0, 0, j], "v": v})
                    steps.append({"t": 0, "op": "conv", "p": []})
                steps.append({"t": 0, "op": "del", "p": [0, 0], "i": 0})
                steps.append({"t": 0, "op": "conv", "p": [], "site": True})
        root = parse(tree)
        paths = [_path_of(root, e) for e in root.iter() if local(e.tag) == "t"]
        for n, pth in enumerate(paths):
            steps.append({"t": 0, "op": "text", "p": pth, "s": "α≤" + "uvw"[n % 3]})
            steps.append({"t": 0, "op": "conv", "p": []})
            steps.append({"t": 0, "op": "conv", "p": pth[:1]})
        out.append(("hist/template/" + tag, [tree], steps))
    return out


def _small_subtree(rng):
    g = Gen(rng, braces=False, brad=0.06 if rng.random() < 0.3 else 0.0)
    r = rng.random()
    if r < 0.35:
        return g.run()
    if r < 0.55:
        name, inner = rng.choice([("naryPr", [N("chr", attrs={"m:val": rng.choice(OPS[:8])})]), ("accPr", [N("chr", attrs={"m:val": rng.choice(ACCENTS[:6])})]),
                                  ("dPr", [N("begChr", attrs={"m:val": rng.choice(DELIMS[:7])}), N("endChr", attrs={"m:val": rng.choice(DELIMS[:7])})]),
                                  ("chr", []), ("rPr", []), ("ctrlPr", []), ("mr", [N("e", [g.run()])])])
        n = N(name, inner)
        if name == "chr":
            n.attrs["m:val"] = rng.choice(OPS[:8] + ACCENTS[:6])
        return n
    if r < 0.7:
        return g.arg(rng.choice(["e", "sub", "sup", "num", "den", "deg", "fName", "lim"]), 1)
    return g.item(rng.choice([1, 1, 2]))


def random_session(rng):
    n_trees = rng.choice([1, 1, 1, 2, 2, 3])
    trees = []
    for _ in range(n_trees):
        g = Gen(rng, braces=rng.random() < 0.15, brad=0.06 if rng.random() < 0.35 else 0.0)
        t = g.tree(rng.choice([1, 2, 2, 3]))
        if rng.random() < 0.2:      # unclosed bracket-only radicals: something is still pending when the call returns
            for _ in range(rng.choice([1, 1, 2, 3])):
                t.kids.append(N("rad", [N("e", [N("r", [N("t", text=rng.choice("(["))])])]))
        if rng.random() < 0.25:
            t = mutate(rng, t)
        trees.append(t.xml(top=True))
    mirror = [parse(x) for x in trees]     # generator-side copy, to choose valid paths
    steps = [{"t": i, "op": "conv", "p": [], "site": rng.random() < 0.3} for i in range(n_trees)]
    for _ in range(rng.randint(3, 10)):
        i = rng.randrange(n_trees)
        root = mirror[i]
        nodes = list(root.iter())
        e = rng.choice(nodes)
        pth = _path_of(root, e)
        k = rng.randrange(13)
        st = None
        ts = [x for x in nodes if local(x.tag) == "t"]
        if k <= 2 and ts:
            st = {"t": i, "op": "text", "p": _path_of(root, rng.choice(ts)), "s": rand_text(rng, braces=False)}
        elif k == 3:
            cands = [x for x in nodes if local(x.tag) in ("chr", "begChr", "endChr")] or nodes
            st = {"t": i, "op": "val", "p": _path_of(root, rng.choice(cands)), "v": rng.choice([None, None] + OPS[:8] + ACCENTS[:5] + DELIMS[:6])}
        elif k == 4:
            st = {"t": i, "op": "attr", "p": pth, "k": rng.choice(["val", "{%s}val" % W_URI, "{%s}latex" % X_URI, "latex", "{%s}cache" % M_URI]),
                  "v": rng.choice([None, "x^{2}", "∫", "1"])}
        elif k == 5:
            st = {"t": i, "op": "tail", "p": pth, "s": rng.choice(["", " ", "tail", "\n  "])}
        elif k == 6:
            nm = rng.choice(["t", "e", "r", "f", "rad", "nary", "d", "m", "mr", "func", "acc", "bar", "sSup", "sSub", "num", "sub", "sup", "box", "rPr", "oMath"])
            st = {"t": i, "op": "tag", "p": pth, "tag": rng.choice([M, M, M, "{%s}" % W_URI, ""]) + nm}
        elif k in (7, 8):
            st = {"t": i, "op": "ins", "p": pth, "i": rng.randint(0, len(e) + 1), "xml": _small_subtree(rng).xml(top=True)}
        elif k == 9 and len(e):
            st = {"t": i, "op": "del", "p": pth, "i": rng.randrange(len(e))}
        elif k == 10 and len(e):
            dst = rng.choice(nodes)
            st = {"t": i, "op": "move", "p": pth, "i": rng.randrange(len(e)), "q": _path_of(root, dst), "j": rng.randint(0, len(dst))}
        elif k == 11 and len(e) > 1:
            perm = list(range(len(e)))
            rng.shuffle(perm)
            st = {"t": i, "op": "perm", "p": pth, "perm": perm}
        elif k == 12:
            st = {"t": i, "op": "renew"}
        if st is None:
            continue
        if st["op"] != "renew":
            try:
                if _apply(root, st, True) is None:
                    continue
            except ET.ParseError:
                continue
        steps.append(st)
        # convert: usually the root of the edited tree, sometimes an inner element or another tree
        j = i if rng.random() < 0.8 else rng.randrange(n_trees)
        r2 = mirror[j]
        tgt = [] if rng.random() < 0.75 else _path_of(r2, rng.choice(list(r2.iter())))
        steps.append({"t": j, "op": "conv", "p": tgt, "site": rng.random() < 0.25})
    return trees, steps


def history_sessions(ctx, n=None):
    out = list(template_sessions())
    for _ in range(ctx.n(300, 6000) if n is None else n):
        trees, steps = random_session(ctx.rng)
        out.append(("hist/random/%d-trees" % len(trees), trees, steps))
    return out


def history_correspondence(ctx, broken):
    """the Lean history model (`S2T.OmmlHist.fresh (omml tables)`, edits by `editAt`) against conversions of LIVE objects"""
    sessions = history_sessions(ctx)
    reqs, keep = [], []
    for grp, trees, steps in sessions:
        try:
            records, lean, finals = run_session(trees, steps)
        except ET.ParseError as e:
            broken.append(Broken("correspondence", "generator-xml", repr(e), case={"history": {"trees": trees, "steps": steps}}))
            continue
        keep.append((grp, trees, steps, records, finals, len(reqs), len(lean)))
        reqs += lean
    outs = ctx.drive(reqs)
    mism = 0
    for grp, trees, steps, records, finals, off, n in keep:
        ctx.case(("hist", trees, steps))
        ctx.count(grp.rsplit("/", 1)[0] if grp.startswith("hist/template") else grp)
        case = {"history": {"trees": trees, "steps": steps}}
        per_tree = {}
        for r in records:
            per_tree.setdefault(r["t"], []).append(r)
        bad = None
        for i in range(n):
            o = outs[off + i]
            if "drv_error" in o:
                bad = ("driver", o["drv_error"])
                break
            got = [r["got"] for r in per_tree.get(i, [])]
            if got != o["outs"]:
                k = next((j for j, (a, b) in enumerate(zip(got, o["outs"])) if a != b), min(len(got), len(o["outs"])))
                bad = ("c19.hist", f"live tree {i}, conversion #{k}: impl={got[k:k+1]!r} model={o['outs'][k:k+1]!r}")
                break
            if o["final"] != finals[i]:
                bad = ("c19.hist:final-tree", f"live tree {i} after the history is not the tree the edits produce in the model "
                                              f"(the conversion modified its argument?)")
                break
        if bad is None:
            for r in records:
                if r["got"] != r["fresh"] or r["copy"] != r["fresh"] or r["again"] != r["got"] or r["site"]:
                    bad = ("history-fresh-copy", f"step {r['step']}: live={r['got']!r} fresh={r['fresh']!r} copy={r['copy']!r} "
                                                 f"again={r['again']!r} site={r['site']!r}")
                    break
        if bad is not None:
            mism += 1
            if mism <= 10:
                broken.append(Broken("correspondence", bad[0], bad[1], case=case))
    ctx.coverage["history_sessions"] = len(keep)
    ctx.coverage["history_conversions"] = sum(len(k[3]) for k in keep)
    ctx.coverage["history_mismatches"] = mism
    if keep:
        grp, trees, steps, records, finals, off, n = keep[len(keep) // 2]
        ctx.sample({"group": grp, "trees": [t.replace(" " + NSDECL, "")[:200] for t in trees], "steps": steps[:8],
                    "outputs": [r["got"][:80] for r in records[:6]]})


def nows(s):
    return "".join(c for c in s if not c.isspace())


def correspondence(ctx):
    broken, violations = [], []
    from sharepoint2text.parsing.extractors.util import omml_to_latex as mod
    cases = streams(ctx)
    reqs, keep = [], []
    for grp, xml, flags in cases:
        try:
            root = parse(xml)
        except ET.ParseError as e:
            broken.append(Broken("correspondence", "generator-xml", repr(e), case={"xml": xml}))
            continue
        reqs.append({"op": "c19.conv", "tree": to_json(root)})
        keep.append((grp, xml, flags, root, impl(root)))
    outs = ctx.drive(reqs)
    mism = inv = 0
    for (grp, xml, flags, root, got), o in zip(keep, outs):
        nontriv = any(local(e.tag) in ("t", "f", "rad", "nary", "d", "m", "func", "acc", "bar", "sSup", "sSub", "sSubSup") for e in root.iter())
        ctx.case(xml, nontrivial=nontriv)
        if "drv_error" in o:
            broken.append(Broken("correspondence", "driver", o["drv_error"], case={"xml": xml}))
            continue
        ctx.count(grp.split("/")[0] + ("/err" if got.startswith("ERR:") else "") + ("/shape" if o["shape"] else "/noshape")
                  + ("" if o["quiet"] else "/pending-radical") + ("" if o["nobr"] else "/braces"))
        if got != o["out"]:
            mism += 1
            if mism <= 25:
                broken.append(Broken("correspondence", "c19.conv", f"impl={got!r} model={o['out']!r}", case={"xml": xml, "group": grp}))
        # instances of the theorems on the model's own answers (a failure here is a model / proof-statement bug)
        if o["shape"] and o["quiet"] and nows(o["runs"]) != nows(o["src"]):
            inv += 1
            broken.append(Broken("correspondence", "model-instance:runs", f"runs={o['runs']!r} src={o['src']!r}", case={"xml": xml}))
        if o["nobr"] and not o["bal"]:
            inv += 1
            broken.append(Broken("correspondence", "model-instance:balanced", f"out={o['out']!r}", case={"xml": xml}))
        # the generator's notion of schema order must be inside the theorem's hypothesis
        if flags.get("conformant") and not o["shape"]:
            inv += 1
            broken.append(Broken("correspondence", "generator-shape", "schema-ordered tree rejected by shapeOk", case={"xml": xml}))
    ctx.coverage["mismatches"] = mism
    ctx.coverage["model_instance_failures"] = inv
    for i in (1, len(keep) // 2, len(keep) - 3):
        grp, xml, flags, root, got = keep[i]
        ctx.sample({"group": grp, "xml": xml.replace(" " + NSDECL, "")[:300], "impl": got[:200], "model": outs[i].get("out", "")[:200]})
    # call sites (docx paragraph assembly, pptx formula list)
    k = 0
    for (grp, xml, flags, root, got) in keep[:: max(1, len(keep) // ctx.n(300, 3000))]:
        if got.startswith("ERR:"):
            continue
        for b in wrap_checks(root, got):
            k += 1
            if k <= 5:
                broken.append(Broken("correspondence", "call-site", b, case={"xml": xml}))
        ctx.case(("wrap", xml))
        ctx.count("call-site")
    # convert_greek_and_symbols on strings
    rng = ctx.rng
    strs = ["", greek_keys()] + [rand_text(rng, True) + rand_text(rng, True) for _ in range(ctx.n(300, 5000))]
    outs = ctx.drive([{"op": "c19.greek", "s": s} for s in strs])
    for s, o in zip(strs, outs):
        ctx.case(("greek", s), nontrivial=bool(s))
        ctx.count("greek")
        try:
            got = mod.convert_greek_and_symbols(s)
        except Exception as e:
            got = f"ERR:{type(e).__name__}"
        if o.get("out") != got:
            broken.append(Broken("correspondence", "c19.greek", f"impl={got!r} model={o.get('out')!r}", case={"s": s}))
    # conversion histories on live objects
    history_correspondence(ctx, broken)
    # None input (documented: empty string)
    try:
        if mod.omml_to_latex(None) != "":
            broken.append(Broken("correspondence", "none-input", "omml_to_latex(None) != ''"))
    except Exception as e:
        broken.append(Broken("correspondence", "none-input", repr(e)))
    return {"broken": broken, "violations": violations}


# ----------------------------------------------------------------------------- oracle of the property statement
# Reference LaTeX names: Greek letters from their Unicode names, Latin look-alike capitals as the letter,
# other symbols transcribed from the standard LaTeX / amssymb names.
LATIN_LOOKALIKE = {"ALPHA": "A", "BETA": "B", "EPSILON": "E", "ZETA": "Z", "ETA": "H", "IOTA": "I", "KAPPA": "K", "MU": "M",
                   "NU": "N", "OMICRON": "O", "RHO": "P", "TAU": "T", "CHI": "X"}
REF_SYMBOLS = {
    "\u221e": "\\infty", "\u2202": "\\partial", "\u2207": "\\nabla", "\u00b1": "\\pm", "\u2213": "\\mp", "\u00d7": "\\times",
    "\u00f7": "\\div", "\u00b7": "\\cdot", "\u2264": "\\leq", "\u2265": "\\geq", "\u2260": "\\neq", "\u2248": "\\approx",
    "\u2261": "\\equiv", "\u2208": "\\in", "\u2209": "\\notin", "\u2282": "\\subset", "\u2283": "\\supset",
    "\u2286": "\\subseteq", "\u2287": "\\supseteq", "\u222a": "\\cup", "\u2229": "\\cap", "\u2227": "\\land", "\u2228": "\\lor",
    "\u00ac": "\\neg", "\u2192": "\\rightarrow", "\u2190": "\\leftarrow", "\u2194": "\\leftrightarrow", "\u21d2": "\\Rightarrow",
    "\u21d0": "\\Leftarrow", "\u21d4": "\\Leftrightarrow", "\u2200": "\\forall", "\u2203": "\\exists", "\u2205": "\\emptyset",
    "\u2115": "\\mathbb{N}", "\u2124": "\\mathbb{Z}", "\u211a": "\\mathbb{Q}", "\u211d": "\\mathbb{R}", "\u2102": "\\mathbb{C}",
}
REF_OPS = {"\u2211": "\\sum", "\u220f": "\\prod", "\u222b": "\\int", "\u222c": "\\iint", "\u222d": "\\iiint"}
REF_FUNCS = ["sin", "cos", "tan", "log", "ln", "lim", "exp", "max", "min"]
REF_ACCENTS = {"\u0302": "\\hat", "\u0303": "\\tilde", "\u0304": "\\bar", "\u20d7": "\\vec", "\u0307": "\\dot"}


def ref_char(c):
    if c in REF_SYMBOLS:
        return REF_SYMBOLS[c]
    nm = unicodedata.name(c, "")
    if nm == "GREEK SMALL LETTER FINAL SIGMA":
        return "\\varsigma"
    for pre, up in (("GREEK SMALL LETTER ", False), ("GREEK CAPITAL LETTER ", True)):
        if nm.startswith(pre) and " " not in nm[len(pre):]:
            w = nm[len(pre):]
            if w == "LAMDA":
                w = "LAMBDA"
            if w == "OMICRON":
                return "O" if up else "o"
            if up and w in LATIN_LOOKALIKE:
                return LATIN_LOOKALIKE[w]
            return "\\" + (w.capitalize() if up else w.lower())
    return c


def ref_text(s):
    return "".join(ref_char(c) for c in s)


def _kid(e, name):
    return e.find(M + name)


REF_CLOSERS = {"(": ")", "[": "]", "{": "}"}


def ref_render(e, pending=None):
    """the documented LaTeX form of a schema-ordered element (module docstring), operands in place.
    `pending` = closing brackets of the bracket-only ("malformed") radicals still open, innermost last:
    text following such a radical is inside it up to the matching closing bracket, which becomes `}`."""
    top = pending is None
    if top:
        pending = []
    out = _ref(e, pending)
    return out + "}" * len(pending) if top else out


def _ref(e, pending):
    tag = local(e.tag)
    r = lambda x: _ref(x, pending) if x is not None else ""  # noqa: E731
    if tag == "t":
        res = []
        for ch in (e.text or ""):
            if pending and ch == pending[-1]:
                pending.pop()
                res.append("}")
            else:
                res.append(ref_char(ch))
        return "".join(res)
    if not e.tag.startswith(M):
        return "".join(_ref(c, pending) for c in e)
    if tag == "f":
        return "\\frac{" + r(_kid(e, "num")) + "}{" + r(_kid(e, "den")) + "}"
    if tag == "sSup":
        return r(_kid(e, "e")) + "^{" + r(_kid(e, "sup")) + "}"
    if tag == "sSub":
        return r(_kid(e, "e")) + "_{" + r(_kid(e, "sub")) + "}"
    if tag == "sSubSup":
        return r(_kid(e, "e")) + "_{" + r(_kid(e, "sub")) + "}^{" + r(_kid(e, "sup")) + "}"
    if tag == "rad":
        d = r(_kid(e, "deg")).strip()
        head = "\\sqrt[" + d + "]{" if d else "\\sqrt{"
        c = r(_kid(e, "e"))
        if c.strip() in REF_CLOSERS:
            pending.append(REF_CLOSERS[c.strip()])
            return head
        return head + c + "}"
    if tag == "nary":
        pr = _kid(e, "naryPr")
        ch = pr.find(M + "chr") if pr is not None else None
        op = "\u2211" if ch is None or ch.get(M + "val") is None else ch.get(M + "val")
        s = REF_OPS.get(op, ref_text(op))
        sub = r(_kid(e, "sub"))
        sup = r(_kid(e, "sup"))
        return s + ("_{" + sub + "}" if sub.strip() else "") + ("^{" + sup + "}" if sup.strip() else "") + " " + r(_kid(e, "e"))
    if tag == "d":
        pr = _kid(e, "dPr")
        b = pr.find(M + "begChr") if pr is not None else None
        en = pr.find(M + "endChr") if pr is not None else None
        left = "(" if b is None or b.get(M + "val") is None else b.get(M + "val")
        right = ")" if en is None or en.get(M + "val") is None else en.get(M + "val")
        return left + ", ".join([_ref(x, pending) for x in e.findall(M + "e")]) + right
    if tag == "m" and _kid(e, "mr") is not None:
        rows = [" & ".join([_ref(c, pending) for c in row.findall(M + "e")]) for row in e.findall(M + "mr")]
        return "\\begin{matrix}" + " \\\\ ".join(rows) + "\\end{matrix}"
    if tag == "func":
        nm = r(_kid(e, "fName"))
        return ("\\" + nm.strip() if nm.strip() in REF_FUNCS else nm) + "{" + r(_kid(e, "e")) + "}"
    if tag == "bar":
        return "\\overline{" + r(_kid(e, "e")) + "}"
    if tag == "acc":
        pr = _kid(e, "accPr")
        ch = pr.find(M + "chr") if pr is not None else None
        a = ch.get(M + "val") if ch is not None else None
        return REF_ACCENTS.get(a, "\\hat") + "{" + r(_kid(e, "e")) + "}"
    return "".join([_ref(c, pending) for c in e])


def brace_depths_ok(s):
    d = 0
    for c in s:
        if c == "{":
            d += 1
        elif c == "}":
            d -= 1
            if d < 0:
                return False
    return d == 0


def literal_braces(root):
    for e in root.iter():
        if local(e.tag) == "t" and e.text and ("{" in e.text or "}" in e.text):
            return True
        if any("{" in v or "}" in v for v in e.attrib.values()):
            return True
    return False


def bracket_only_radical(root):
    """a radical whose content consists of one opening bracket (the documented malformed-sqrt pattern)"""
    for e in root.iter():
        if local(e.tag) == "rad":
            c = e.find(M + "e")
            if c is not None:
                txt = "".join((t.text or "") for t in c.iter() if local(t.tag) == "t")
                dl = [x for x in c.iter() if local(x.tag) == "d"]
                if txt.strip() in ("(", "[", "{") or (dl and not txt.strip()):
                    return True
    return False


def oracle(xml, conformant):
    """violations of the property statement on the real code for one tree: [(key, what)]"""
    out = []
    try:
        root = parse(xml)
    except ET.ParseError:
        return out
    got = impl(root)
    if got.startswith("ERR:"):
        return [("raises", f"omml_to_latex raised {got[4:]}")]
    if impl(parse(xml)) != got or impl(root) != got:
        out.append(("nondeterministic", "two conversions of the same tree differ"))
    if not literal_braces(root) and not brace_depths_ok(got):
        out.append(("unbalanced", f"no literal braces in the tree but the output {got!r} has unbalanced braces"))
    brad = bracket_only_radical(root)
    if conformant and not (brad and literal_braces(root)):
        want = ref_render_root(root)
        if nows(want) != nows(got):
            # name the innermost element that is already rendered differently on its own
            key, w2, g2 = "form", want, got
            for e in root.iter():
                if e is root:
                    continue
                solo = ET.Element(M + "oMath")
                solo.append(copy.deepcopy(e))
                gs, ws = impl(solo), ref_render(e)
                if gs.startswith("ERR:") or nows(gs) != nows(ws):
                    key, w2, g2 = "form:" + local(e.tag), ws, gs
            out.append((key, f"documented form {w2!r}, got {g2!r}"))
    if conformant and not brad:
        # every run exactly once, in source order (unique tokens instead of the texts)
        r2 = parse(xml)
        toks = []
        for t in r2.iter():
            if local(t.tag) == "t" and t is not r2:   # the root's own tag is never looked at
                tok = "\u2039%d\u203a" % len(toks)
                toks.append(tok)
                t.text = tok
        # function names would turn into other tokens: fine, they are still emitted verbatim
        g2 = impl(r2)
        pos = [g2.find(tok) for tok in toks]
        if any(g2.count(tok) != 1 for tok in toks) or pos != sorted(pos):
            out.append(("runs", f"runs not emitted exactly once in source order: {g2!r}"))
    return out


def ref_render_root(root):
    pending = []
    return "".join([ref_render(c, pending) for c in root]) + "}" * len(pending)


def _violations(cases, limit=8):
    found, seen = [], set()
    for xml, conformant in cases:
        for key, what in oracle(xml, conformant):
            if key in seen:
                continue
            seen.add(key)
            found.append(Violation(key, what + " :: " + xml.replace(" " + NSDECL, "")[:400], {"xml": xml, "conformant": conformant}))
        if len(seen) >= limit:
            break
    return found


def _shrink(xml, conformant, key):
    """greedy subtree deletion keeping the same violation kind"""
    try:
        root = parse(xml)
    except ET.ParseError:
        return xml
    for p in ("m", "w", "x"):
        ET.register_namespace(p, PFX[p])
    changed = True
    while changed:
        changed = False
        for parent in list(root.iter()):
            for child in list(parent):
                idx = list(parent).index(child)
                parent.remove(child)
                cand = ET.tostring(root, encoding="unicode")
                if any(k == key for k, _ in oracle(cand, conformant)):
                    changed = True
                else:
                    parent.insert(idx, child)
    return ET.tostring(root, encoding="unicode")


def obligations(ctx):
    """closed-world check of the tables and documented forms on the real code, against the reference names
    (the model follows the generated tables, so a table slip would not show up as a disagreement)"""
    broken = []
    from sharepoint2text.parsing.extractors.util import omml_to_latex as mod
    for ch, v in mod.GREEK_TO_LATEX.items():
        if ref_char(ch) != v:
            broken.append(Broken("inventory", f"symbol:U+{ord(ch):04X}", f"{ch!r} -> {v!r}, reference name {ref_char(ch)!r}", case={"char": ch}))
    for ch in list(REF_SYMBOLS) + [chr(c) for c in list(range(0x391, 0x3AA)) + list(range(0x3B1, 0x3CA)) if c != 0x3A2]:
        if ch not in mod.GREEK_TO_LATEX:
            broken.append(Broken("inventory", f"symbol-missing:U+{ord(ch):04X}", f"{ch!r} not mapped", case={"char": ch}))
    bad = 0
    for grp, t in exhaustive():
        xml = t.xml(top=True)
        for key, what in oracle(xml, True):
            bad += 1
            if bad <= 10:
                broken.append(Broken("inventory", f"documented-form:{key}", what, case={"xml": xml, "conformant": True}))
    return broken


# A change that leaks state ACROSS objects (a scratch list that is not reset, a table keyed by recycled ids) pollutes
# the very process that searches: every later comparison differs, and a witness cut out of that process does not fail
# when replayed alone.  So the history search runs in FRESH interpreters: one child walks through the sessions in order
# and reports the first that fails; the sessions before it are kept only as far as they are needed (ddmin, each trial
# in a fresh interpreter), then single steps are removed.  What is reported fails from a clean start — the replay.
_CHILD = (
    "import sys, json\n"
    "sys.path.insert(0, %r); sys.path.insert(0, %r)\n"
    "import logging, warnings; logging.disable(logging.CRITICAL); warnings.filterwarnings('ignore')\n"
    "import props.c19 as m\n"
    "req = json.load(sys.stdin)\n"
    "json.dump(getattr(m, req['f'])(*req['a']), sys.stdout)\n"
)


def _isolated(func, *args, timeout=300):
    """props.c19.<func>(*args) in a fresh interpreter (clean module state of the library)"""
    import json
    import os
    import subprocess
    import sys
    from run import HERE, REPO, Infra
    try:
        p = subprocess.run([sys.executable, "-c", _CHILD % (HERE, REPO)], input=json.dumps({"f": func, "a": list(args)}).encode(),
                           capture_output=True, timeout=timeout, env=dict(os.environ, S2T_REPO=REPO))
    except subprocess.TimeoutExpired as e:
        raise Infra(f"isolated {func} timed out: {e}")
    if p.returncode != 0:
        raise Infra(f"isolated {func} failed: {p.stderr[-400:]!r}")
    return json.loads(p.stdout.decode())


def first_failing_session(sessions):
    """(child side) index and violation of the first session that violates the property when the sessions are run one
    after the other in this process, or None"""
    for k, (trees, steps) in enumerate(sessions):
        vs = history_oracle(trees, steps)
        if vs:
            return [k, vs[0]]
    return None


def merge_sessions(sessions):
    trees, steps = [], []
    for t, s in sessions:
        off = len(trees)
        trees += t
        steps += [dict(x, t=x.get("t", 0) + off) for x in s]
    return trees, steps


def oracle_list(xml, conformant):
    return [list(v) for v in oracle(xml, conformant)]


def search_histories(ctx, broken):
    sess = []
    for b in broken:
        c = b.case or {}
        if "history" in c:
            sess.append([c["history"]["trees"], c["history"]["steps"]])
    sess += [[t, s] for _, t, s in history_sessions(ctx, n=ctx.n(600, 6000))]
    hit = _isolated("first_failing_session", sess, timeout=900)
    if not hit:
        return []
    k = hit[0]
    budget = [120]

    def fails(idx):
        if budget[0] <= 0:
            return False
        budget[0] -= 1
        t, s = merge_sessions([sess[i] for i in idx])
        return bool(_isolated("history_oracle", t, s))

    keep = []
    if not fails([k]):      # the failing session needs what earlier ones left behind: ddmin over them
        keep, n = list(range(k)), 2
        while keep:
            chunk = -(-len(keep) // n)
            reduced = False
            for i in range(0, len(keep), chunk):
                cand = keep[:i] + keep[i + chunk:]
                if fails(cand + [k]):
                    keep, n, reduced = cand, max(n - 1, 2), True
                    break
            if not reduced:
                if chunk <= 1:
                    break
                n = min(n * 2, len(keep))
    trees, steps = merge_sessions([sess[i] for i in keep + [k]])
    # remove single steps (fresh interpreter per trial), then unused trees
    changed = True
    while changed and len(steps) > 1 and budget[0] > 0:
        changed = False
        for j in range(len(steps) - 1, -1, -1):
            cand = steps[:j] + steps[j + 1:]
            if budget[0] <= 0:
                break
            budget[0] -= 1
            if _isolated("history_oracle", trees, cand):
                steps, changed = cand, True
    used = sorted({x.get("t", 0) for x in steps})
    if len(used) < len(trees):
        ct, cs = [trees[i] for i in used], [dict(x, t=used.index(x.get("t", 0))) for x in steps]
        if _isolated("history_oracle", ct, cs):
            trees, steps = ct, cs
    vs = _isolated("history_oracle", trees, steps)
    if not vs:
        return []
    key, what = vs[0]
    return [Violation(key, what, {"history": {"trees": trees, "steps": steps}})]


def search(ctx, broken):
    hv = search_histories(ctx, broken)
    tv = search_trees(ctx, broken)
    if hv:
        # state leaked between conversions also disturbs the single-tree oracle in THIS process: keep only the tree
        # witnesses that fail from a clean start (what `--replay` will do)
        tv = [v for v in tv if _isolated("oracle_list", v.replay["xml"], v.replay["conformant"])]
    return hv + tv


def search_trees(ctx, broken):
    cases = []
    for b in broken:
        c = b.case or {}
        if "xml" in c:
            cases.append((c["xml"], bool(c.get("conformant"))))
        if "char" in c:
            cases.append((N("oMath", [N("r", [N("t", text=c["char"])])]).xml(top=True), True))
    cases += [(xml, True) for _, xml in WITNESSES]
    cases += [(t.xml(top=True), True) for _, t in exhaustive()]
    cases += [(xml, bool(f.get("conformant"))) for _, xml, f in streams(ctx, n_struct=ctx.n(1500, 30000), n_mal=ctx.n(1500, 30000))]
    found = _violations(cases)
    res = []
    for v in found:
        small = _shrink(v.replay["xml"], v.replay["conformant"], v.key)
        what = [w for k, w in oracle(small, v.replay["conformant"]) if k == v.key]
        if what:
            res.append(Violation(v.key, what[0] + " :: " + small.replace(" " + NSDECL, "")[:400], {"xml": small, "conformant": v.replay["conformant"]}))
        else:
            res.append(v)
    return res


def replay(ctx, payload):
    rep = payload.get("replay", {})
    if "history" in rep:
        vs = history_oracle(rep["history"]["trees"], rep["history"]["steps"])
        return (not vs), "; ".join(w for _, w in vs) or "every conversion of the recorded history equals the conversion of a fresh copy"
    if "xml" not in rep:
        return False, "replay names a broken obligation, not an input: " + payload.get("what", "")
    vs = oracle(rep["xml"], bool(rep.get("conformant")))
    return (not vs), "; ".join(w for _, w in vs) or "property holds on the recorded tree"
