"""C03 — units mirror pages / slides / sheets / chapters / messages.

Correspondence of S2T.Model.Units with the real `iterate_units()` / `get_full_text()` of all 17 result
types (random field values + every fixture's extraction result) and with the extraction-side builders of the
unit sequence (PPTX slide order, PPT slide list / document assembly, EPUB spine loop, mbox split, RTF page flush).

The `search` oracle checks the property statement on the real code without the model: token documents
(every body piece is a unique token) for docx/doc/odt objects and for real PPTX/EPUB/RTF/mbox files, plus the
number / join / count clauses on every generated object and fixture.
"""
from __future__ import annotations

import ast
import io
import os
import re
import struct
import zipfile

from run import Broken, Violation
from props import c03_bound as B
from props import c03_carrier as K
from props import c03_walk as W

GEN = ["Units", "UnitsBound", "PyUnits", "UnitsCarrier", "UnitsWalk"]
RULE = ("type-directed random instances of the 17 *Content dataclasses (texts drawn from words x every Python "
        "whitespace / line-boundary character, heading styles, page breaks, anchors, arbitrary slide numbers) "
        "+ extraction results of every file under tests/resources + generated PPTX/EPUB zips, PPT record streams, "
        "mbox byte strings and RTF page sequences; in every generated package the reading order is drawn independently of "
        "every other order a reader could follow by mistake (PPTX: numeric sldId ids as left by moved / inserted slides, "
        "missing / non-numeric / repeated ids, relationship ids, part names, zip order, hidden slides; EPUB: manifest order, "
        "item ids, file names, zip order; XLSX/ODS/ODP: names, sheetIds / draw:ids, part numbers, hidden sheets / slides; mbox: "
        "dates, senders, subjects, repeated Message-IDs); RTF bodies are generated as the scanner's event stream (characters "
        "beyond U+FFFF as \\uN pairs, signed or unsigned, or literal; \\'hh; \\par/\\line/\\tab; groups around runs; \\page and "
        "\\sbkpage, also inside groups; wild: unpaired surrogate halves); distinct = distinct serialised request; non-trivial = "
        "at least one non-empty text field; + written mailboxes (mboxo / mboxrd / CRLF) whose body lines are delimiter look-alikes "
        "(>From / >>From / indented / re-cased / From: lines that end like a separator) at every body position, arbitrary "
        "mailbox-like byte strings, generated PDFs whose pages share content streams / resource dictionaries (inline, "
        "indirect, inherited from the page tree) / fonts / forms in every combination (all 2-page combinations on every run), "
        "RTF page text that looks like \\page, ODP / ODS / PPTX parts that share a name or a part, and twin pairs of every "
        "document kind (same structure, other text) read one after the other in one process; + composed slides (c03_carrier): PPTX / ODP "
        "decks whose slides hold several carriers of every kind (plain / placeholder / grouped text shapes of every placeholder role, "
        "tables, SmartArt, charts, notes, comments; ODP frames of every presentation:class, list / span paragraphs, custom shapes, "
        "annotations, notes), several paragraphs per carrier, the same kind twice on a slide, equal positions, related parts numbered "
        "independently of the slides and reached through relationship ids that are local to each slide part (rId2 on every slide) or global")
ASSUMPTIONS = [
    "CPython str.strip/split/splitlines/lower/join are modelled (whitespace and line-boundary sets regenerated "
    "from the running interpreter each run); strings with lone surrogates are outside the model (skipped, counted)",
    "DOCX heading detection (regex on the style name) is a parameter of the model: the harness applies the regex "
    "literal found in the current source to compute each paragraph's level; ODT outline_level is a field",
    "DOCX image/table anchoring is summarised per paragraph by the harness (counts per index, table-anchor length "
    "fallback) before the model sees it; DOC/ODT caption- and header-matching of images/tables is not modelled "
    "(unit image/table lists are not compared for doc/odt heading units)",
    "PDF page order is pypdf's; XML/ZIP/OLE parsing is third-party; PPT record framing (_iter_records), text "
    "decoding/cleaning and the container pass are run for real and only their results enter the model",
    "RTF: _strip_rtf_full_with_pages is modelled from the scanner's event stream on (per-page buffers, _combine_surrogates, "
    "page flush); which characters / breaks a given RTF source produces (control-word scanning, group skipping) is exercised "
    "for real on generated RTF whose event stream is known by construction, not modelled",
    "XLSX / ODS / ODP reading loops are not in the Lean model beyond their enumerate(): their source order is "
    "judged by the token-document oracle only (openpyxl's sheet order is third-party); read_mbox_format_mail is modelled as "
    "map parse . mboxSplit on the raw bytes (parse = the real message parser, run by the harness on the model's pieces), read_pdf "
    "as pdfUnits of the page texts extracted from each page in isolation (fresh pypdf reader per page)",
]
ASSUMPTIONS.append(
    "composed slides: which carrier kinds the library reads is decided on the running code (a one-slide, one-paragraph probe per carrier "
    "shape); text of a kind the probe does not return (today: SmartArt, charts, notes, comments, footers, grouped ODP frames, custom shapes) "
    "is only required not to appear in a foreign unit - its loss is C02's business; ODP: _extract_slide's paragraph loop is modelled "
    "(odpClassify) on the paragraphs in frame order, the frame sort by (y, x) is re-stated by the harness")
TRUSTED = ["model of str.strip/splitlines/split in S2T/Model/Units.lean (tied by this correspondence)",
           "harness-side re-statement of DocxContent's anchor indexing (6 lines) and heading_level (regex from source)",
           "oracle-side re-statement of the DOCX heading stack (docx_path_empty_flags) used only to tell the open finding docx.text-before-first-heading-dropped from other coverage losses"]

DT_REL = "sharepoint2text/parsing/extractors/data_types.py"
JOIN_FORMATS = ("pdf", "pptx", "odp", "xlsx", "ods", "epub", "html", "plain", "email", "odg", "odf")


def _repo():
    import run
    return run.REPO


# ----------------------------------------------------------------------------- source-derived parameters
_DOCX_RE = None


def docx_heading_re():
    """the compiled regex of DocxContent.iterate_units (literal + flags taken from the current source)."""
    global _DOCX_RE
    if _DOCX_RE is None:
        tree = ast.parse(open(os.path.join(_repo(), DT_REL), encoding="utf-8").read())
        for cls in tree.body:
            if isinstance(cls, ast.ClassDef) and cls.name == "DocxContent":
                for node in ast.walk(cls):
                    if (isinstance(node, ast.Assign) and isinstance(node.targets[0], ast.Name)
                            and node.targets[0].id == "heading_re"):
                        _DOCX_RE = eval(compile(ast.Expression(node.value), "<heading_re>", "eval"), {"re": re})
        if _DOCX_RE is None:
            raise LookupError("heading_re not found in DocxContent.iterate_units")
    return _DOCX_RE


def docx_level(style):
    if not style:
        return None
    m = docx_heading_re().match(style.strip())
    if not m:
        return None
    try:
        return int(m.group(1))
    except ValueError:
        return None


# ----------------------------------------------------------------------------- request <-> real object
def _dt():
    from sharepoint2text.parsing.extractors import data_types
    return data_types


def make(req):
    """real *Content object from a request dict (inverse of `ser`)."""
    D = _dt()
    f = req["fmt"]
    if f == "plain":
        o = D.PlainTextContent()
        o.content = req["content"]
        return o
    if f == "html":
        return D.HtmlContent(content=req["content"])
    if f == "odg":
        return D.OdgContent(full_text=req["content"])
    if f == "odf":
        return D.OdfContent(full_text=req["content"])
    if f == "email":
        o = D.EmailContent(from_email=D.EmailAddress())
        o.body_plain, o.body_html = req["plain"], req["html"]
        return o
    if f == "pdf":
        return D.PdfContent(pages=[D.PdfPage(text=p["text"], images=[D.PdfImage(index=i) for i in range(p["ni"])],
                                             tables=[[["c"]] for _ in range(p["nt"])]) for p in req["pages"]])
    if f == "xls":
        return D.XlsContent(sheets=[D.XlsSheet(name=s["name"], text=s["text"]) for s in req["sheets"]], full_text=req["full_text"])
    if f == "xlsx":
        return D.XlsxContent(sheets=[D.XlsxSheet(name=s["name"], text=s["text"]) for s in req["sheets"]])
    if f == "ods":
        return D.OdsContent(sheets=[D.OdsSheet(name=s["name"], text=s["text"]) for s in req["sheets"]])
    if f == "ppt":
        return D.PptContent(slides=[D.PptSlideContent(slide_number=s["number"], title=s["title"], body_text=list(s["body"]),
                                                      other_text=list(s["other"])) for s in req["slides"]])
    if f == "odp":
        return D.OdpContent(slides=[D.OdpSlide(slide_number=s["number"], title=s["title"] or "", body_text=list(s["body"]),
                                               other_text=list(s["other"])) for s in req["slides"]])
    if f == "pptx":
        return D.PptxContent(slides=[D.PptxSlide(slide_number=s["number"], base_text=s["base"],
                                                 formulas=[D.PptxFormula(latex=x["latex"], is_display=x["display"]) for x in s["formulas"]],
                                                 images=[D.PptxImage(description=d) for d in s["descs"]]) for s in req["slides"]])
    if f == "epub":
        return D.EpubContent(chapters=[D.EpubChapter(chapter_number=c["number"], text=c["text"]) for c in req["chapters"]])
    if f == "rtf":
        return D.RtfContent(pages=list(req["pages"]), full_text=req["full_text"],
                            paragraphs=[D.RtfParagraph(text=t) for t in req["paragraphs"]],
                            images=[D.RtfImage(page_number=p) for p in req["image_pages"]],
                            tables=[D.RtfTable(data=[["c"]], page_number=p) for p in req["table_pages"]])
    if f == "doc":
        return D.DocContent(main_text=req["main_text"], tables=[[list(t)] for t in req["tables"]],
                            metadata=D.DocMetadata(title=req["title"]))
    if f == "odt":
        return D.OdtContent(paragraphs=[D.OdtParagraph(text=p["text"], outline_level=p["outline"], style_name=p["style"] or None)
                                        for p in req["paragraphs"]],
                            tables=[D.OdtTable(data=[["\x00never-in-text\x00"]]) for _ in range(req["n_tables"])],
                            images=[D.OpenDocumentImage() for _ in range(req["n_images"])],
                            full_text=req["full_text"], metadata=D.OpenDocumentMetadata(title=req["title"]))
    if f == "docx":
        return D.DocxContent(paragraphs=[D.DocxParagraph(text=p["text"], style=p["style"], has_page_break=p["pb"]) for p in req["paragraphs"]],
                             tables=[[["c"]] for _ in range(req["n_tables"])],
                             images=[D.DocxImage(anchor_paragraph_indices=list(a)) for a in req["img_anchors"]],
                             table_anchor_paragraph_indices=list(req["table_anchors"]),
                             full_text=req["full_text"], metadata=D.DocxMetadata(title=req["title"]))
    raise KeyError(f)


def _docx_counts(n_par, img_anchors, table_anchors, n_tables):
    """per-paragraph image / table counts exactly as DocxContent.iterate_units indexes them."""
    ni = [0] * n_par
    for a in img_anchors:
        for idx in a:
            if isinstance(idx, int) and 0 <= idx < n_par:
                ni[idx] += 1
    anchors = list(table_anchors)
    if len(anchors) != n_tables:
        anchors = [0] * n_tables
    nt = [0] * n_par
    for idx in anchors[:n_tables]:
        if isinstance(idx, int) and 0 <= idx < n_par:
            nt[idx] += 1
    return ni, nt


def docx_req(paragraphs, full_text="", title="", img_anchors=(), table_anchors=(), n_tables=0):
    """paragraphs: [(text, style, pb)]"""
    ni, nt = _docx_counts(len(paragraphs), img_anchors, table_anchors, n_tables)
    return {"fmt": "docx", "full_text": full_text, "title": title, "n_images": len(img_anchors), "n_tables": n_tables,
            "img_anchors": [list(a) for a in img_anchors], "table_anchors": list(table_anchors),
            "paragraphs": [{"text": t, "style": st, "level": docx_level(st), "pb": bool(pb), "ni": ni[i], "nt": nt[i]}
                           for i, (t, st, pb) in enumerate(paragraphs)]}


def ser(obj):
    """request dict of a real result object (None when the type is not one of the 17)."""
    D = _dt()
    s = lambda x: "" if x is None else str(x)
    if isinstance(obj, D.PlainTextContent):
        return {"fmt": "plain", "content": obj.content}
    if isinstance(obj, D.HtmlContent):
        return {"fmt": "html", "content": obj.content}
    if isinstance(obj, D.OdgContent):
        return {"fmt": "odg", "content": obj.full_text}
    if isinstance(obj, D.OdfContent):
        return {"fmt": "odf", "content": obj.full_text}
    if isinstance(obj, D.EmailContent):
        return {"fmt": "email", "plain": obj.body_plain, "html": obj.body_html}
    if isinstance(obj, D.PdfContent):
        return {"fmt": "pdf", "pages": [{"text": p.text, "ni": len(p.images), "nt": len(p.tables)} for p in obj.pages]}
    if isinstance(obj, D.XlsContent):
        return {"fmt": "xls", "sheets": [{"name": x.name, "text": x.text} for x in obj.sheets], "full_text": obj.full_text}
    if isinstance(obj, D.XlsxContent):
        return {"fmt": "xlsx", "sheets": [{"name": x.name, "text": x.text} for x in obj.sheets]}
    if isinstance(obj, D.OdsContent):
        return {"fmt": "ods", "sheets": [{"name": x.name, "text": x.text} for x in obj.sheets]}
    if isinstance(obj, D.PptContent):
        return {"fmt": "ppt", "slides": [{"number": x.slide_number, "title": x.title, "body": list(x.body_text), "other": list(x.other_text)} for x in obj.slides]}
    if isinstance(obj, D.OdpContent):
        return {"fmt": "odp", "slides": [{"number": x.slide_number, "title": x.title, "body": list(x.body_text), "other": list(x.other_text)} for x in obj.slides]}
    if isinstance(obj, D.PptxContent):
        return {"fmt": "pptx", "captions": False,
                "slides": [{"number": x.slide_number, "base": x.base_text, "formulas": [{"latex": f.latex, "display": bool(f.is_display)} for f in x.formulas],
                            "descs": [s(i.description) for i in x.images]} for x in obj.slides]}
    if isinstance(obj, D.EpubContent):
        return {"fmt": "epub", "chapters": [{"number": c.chapter_number, "text": c.text} for c in obj.chapters]}
    if isinstance(obj, D.RtfContent):
        return {"fmt": "rtf", "pages": list(obj.pages), "full_text": obj.full_text, "paragraphs": [p.text for p in obj.paragraphs],
                "image_pages": [i.page_number for i in obj.images], "table_pages": [t.page_number for t in obj.tables]}
    if isinstance(obj, D.DocContent):
        return {"fmt": "doc", "main_text": obj.main_text or "", "title": obj.metadata.title or "",
                "tables": [[c for row in t for c in row] for t in obj.tables], "_n_images": len(obj.images)}
    if isinstance(obj, D.OdtContent):
        return {"fmt": "odt", "paragraphs": [{"text": p.text, "outline": p.outline_level, "style": p.style_name or ""} for p in obj.paragraphs],
                "title": obj.metadata.title or "", "full_text": obj.full_text, "n_tables": len(obj.tables), "n_images": len(obj.images)}
    if isinstance(obj, D.DocxContent):
        return docx_req([(p.text, p.style, p.has_page_break) for p in obj.paragraphs], obj.full_text, obj.metadata.title or "",
                        [list(i.anchor_paragraph_indices) for i in obj.images], list(obj.table_anchor_paragraph_indices), len(obj.tables))
    return None


def impl(obj, req):
    """({units:[..], full:str} | {"raised": cls}) of the real object."""
    try:
        kw = {"include_image_captions": True} if req.get("captions") else {}
        us = []
        for u in obj.iterate_units(**kw):
            m = u.get_metadata()
            path = getattr(m, "heading_path", None)
            if path is None:
                path = getattr(m, "location", None) if req["fmt"] == "odp" else []
            us.append({"n": m.unit_number, "t": u.get_text(), "p": list(path or []), "l": getattr(m, "heading_level", None),
                       "ni": len(u.get_images()), "nt": len(u.get_tables())})
        return {"units": us, "full": obj.get_full_text(**kw)}
    except Exception as e:  # noqa: BLE001 — the property leaves no room for an exception here
        return {"raised": type(e).__name__ + ": " + str(e)[:200]}


# fields compared per format (beyond n and t)
CMP = {"docx": ("p", "l", "ni", "nt"), "doc": ("p", "l"), "odt": ("p", "l"), "pdf": ("ni", "nt"), "rtf": ("ni", "nt"),
       "pptx": ("ni",), "odp": ("p",)}


def _has_surrogate(x):
    if isinstance(x, str):
        return any(0xD800 <= ord(c) <= 0xDFFF for c in x)
    if isinstance(x, dict):
        return any(_has_surrogate(v) for v in x.values())
    if isinstance(x, (list, tuple)):
        return any(_has_surrogate(v) for v in x)
    return False


def _all_str(x):
    """every leaf that the driver expects as a string is one (fixtures may carry None / non-str)."""
    if isinstance(x, dict):
        return all(_all_str(v) for k, v in x.items() if k in ("text", "content", "plain", "html", "name", "base", "full_text", "main_text", "title", "latex"))
    return isinstance(x, str)


def s1(x):
    """driver string (array of code points) -> str"""
    return None if x is None else "".join(map(chr, x))


def _dec_units(w):
    """decode a c03.units answer"""
    if "drv_error" in w:
        return w
    return {"units": [{"n": u["n"], "t": s1(u["t"]), "p": [s1(x) for x in u["p"]], "l": u["l"], "ni": u["ni"], "nt": u["nt"]}
                      for u in w["units"]], "full": s1(w["full"])}


def diff(req, got, want):
    """first difference between the real result `got` and the model answer `want`, or None."""
    if "drv_error" in want:
        return "driver: " + want["drv_error"]
    want = _dec_units(want)
    if "raised" in got:
        return "implementation raised " + got["raised"]
    if len(got["units"]) != len(want["units"]):
        return f"unit count impl={len(got['units'])} model={len(want['units'])} (impl numbers {[u['n'] for u in got['units']][:12]}, model {[u['n'] for u in want['units']][:12]})"
    keys = ("n", "t") + CMP.get(req["fmt"], ())
    for i, (a, b) in enumerate(zip(got["units"], want["units"])):
        for k in keys:
            if a[k] != b[k]:
                return f"unit[{i}].{k}: impl={a[k]!r:.120} model={b[k]!r:.120}"
    if got["full"] != want["full"]:
        return f"full text: impl={got['full']!r:.120} model={want['full']!r:.120}"
    return None


# ----------------------------------------------------------------------------- generators
WS = [" ", " ", " ", "  ", "\t", "\n", "\n", "\n\n", "\r\n", "\r", "\x0b", "\x0c", "\x1c", "\x1d", "\x1e", "\x1f", "\x85", "\xa0",
      "\u1680", "\u2000", "\u2003", "\u200a", "\u2028", "\u2029", "\u202f", "\u205f", "\u3000", "\u200b", "\ufeff"]
WORDS = ["alpha", "Beta", "x", "7", "Chapter", "chapter 2", "CHAPTER", "SubSection a", "subsection", "Intro", "intro", "INTRO",
         "\u0130ntro", "Kelvin", "chapter\u0130", "Table 1", "\xe9t\xe9", "\U0001f600", "a b", "heading", "$x$", "[Image: y]", "From me 2024"]


def rtext(rng, lo=0, hi=5, p_ws=0.45):
    return "".join(rng.choice(WS) if rng.random() < p_ws else rng.choice(WORDS) for _ in range(rng.randint(lo, hi)))


def rline(rng):
    """a text without line boundaries (paragraph-like)."""
    t = rtext(rng, 0, 4, 0.35)
    return re.sub("[\\n\\r\\x0b\\x0c\\x1c-\\x1e\\x85\\u2028\\u2029]", " ", t)


def rnum(rng, k, wild):
    if not wild:
        return k
    return rng.choice([k, k, 0, 1, k + 1, rng.randint(0, 5)])


STYLES = [None, "", "Normal", "Heading 1", "Heading 2", "heading 3", "HEADING1", " Heading 2 ", "Heading", "Heading 1a", "Heading\t1 Char",
          "Title", "Heading 10", "Heading 0", "heading 2", "Head\u0131ng 1", "List Paragraph", "Heading 2", "Heading 1"]
ODT_STYLES = ["", "", "P1", "Table_20_Contents", "Table", "TableX", "My_Table_1", "Standard", "table"]


def gen_req(rng, fmt, wild):
    """one random request of format `fmt`; `wild` = malformed stream (odd numbers, whitespace-only texts, empties)."""
    n = rng.choice([0, 1, 1, 2, 3, 4, 6]) if wild else rng.randint(1, 5)
    tx = (lambda: rtext(rng, 0, 5, 0.7)) if wild else (lambda: rtext(rng, 1, 5, 0.35))
    if fmt in ("plain", "html", "odg", "odf"):
        return {"fmt": fmt, "content": tx()}
    if fmt == "email":
        return {"fmt": fmt, "plain": rng.choice(["", tx(), tx()]), "html": rng.choice(["", tx()])}
    if fmt == "pdf":
        return {"fmt": fmt, "pages": [{"text": tx(), "ni": rng.choice([0, 0, 1, 2]), "nt": rng.choice([0, 0, 1])} for _ in range(n)]}
    if fmt in ("xls", "xlsx", "ods"):
        r = {"fmt": fmt, "sheets": [{"name": rng.choice(["", "Sheet1", " S ", rline(rng)]), "text": tx()} for _ in range(n)]}
        if fmt == "xls":
            r["full_text"] = tx()
        return r
    if fmt in ("ppt", "odp"):
        return {"fmt": fmt, "slides": [{"number": rnum(rng, k + 1, wild),
                                        "title": rng.choice(["", rline(rng), rline(rng)] + ([None] if fmt == "ppt" else [])),
                                        "body": [tx() for _ in range(rng.randint(0, 2))], "other": [tx() for _ in range(rng.randint(0, 2))]}
                                       for k in range(n)]}
    if fmt == "pptx":
        return {"fmt": fmt, "captions": rng.random() < 0.4,
                "slides": [{"number": rnum(rng, k + 1, wild), "base": rng.choice(["", tx(), tx()]),
                            "formulas": [{"latex": rng.choice(["x^2", "", "\\frac{a}{b}"]), "display": rng.random() < 0.5} for _ in range(rng.choice([0, 0, 1, 2]))],
                            "descs": [rng.choice(["", "a cat", " "]) for _ in range(rng.choice([0, 0, 1, 2]))]} for k in range(n)]}
    if fmt == "epub":
        nums, cur = [], 0
        for _ in range(n):
            cur += rng.choice([1, 1, 2, 3]) if not wild else rng.choice([0, 1, 2])
            nums.append(cur)
        return {"fmt": fmt, "chapters": [{"number": k, "text": tx()} for k in nums]}
    if fmt == "rtf":
        pages = [rng.choice([tx(), tx(), "", " \n "]) for _ in range(rng.choice([0, 0, 1, 2, 3, 5]))]
        pg = lambda: rng.choice([None, 0, 1, 1, 2, 3, 7, -1])
        return {"fmt": fmt, "pages": pages, "full_text": rng.choice(["", tx()]), "paragraphs": [tx() for _ in range(rng.randint(0, 3))],
                "image_pages": [pg() for _ in range(rng.choice([0, 1, 2, 3]))], "table_pages": [pg() for _ in range(rng.choice([0, 0, 1, 2]))]}
    if fmt == "doc":
        lines, tables = [], []
        for _ in range(rng.randint(0, 8)):
            k = rng.random()
            if k < 0.25:
                lines.append(rng.choice(["Chapter ", "chapter", "  SUBSECTION ", "Intro", "intro ", "Subsection", "\u0130ntro", "CHAPTER "]) + rng.choice(["", "1", rline(rng)]))
            elif k < 0.35:
                cells = [rng.choice(["a", "b", "1", "x y"]) for _ in range(rng.randint(1, 3))]
                tables.append(cells)
                lines.append(rng.choice([" ".join(cells), "\t".join(cells), " ".join(cells) + " z"]))
            else:
                lines.append(rline(rng) if not wild else rtext(rng, 0, 3, 0.6))
        sep = (lambda: rng.choice(["\n", "\n", "\r\n", "\r", "\x0b", "\x0c", "\x1c", "\x85", " ", "\n\n"])) if wild else (lambda: "\n")
        mt = "".join(l + sep() for l in lines)
        if rng.random() < 0.3:
            mt = mt.rstrip("\n")
        if rng.random() < 0.15:
            rng.shuffle(tables)
        if rng.random() < 0.2:
            tables.append(["never", "matched"])
        return {"fmt": fmt, "main_text": mt, "title": rng.choice(["", "", "Doc title"]), "tables": tables}
    if fmt == "odt":
        ps = []
        for _ in range(n + rng.randint(0, 4)):
            k = rng.random()
            if k < 0.3:
                ps.append({"text": rng.choice([rline(rng), rline(rng), "", " "]), "outline": rng.choice([1, 1, 2, 2, 3] + ([0, -1, 9] if wild else [])), "style": rng.choice(["", "Heading_20_1"])})
            elif k < 0.45:
                ps.append({"text": rline(rng), "outline": None, "style": rng.choice(ODT_STYLES[3:])})
            else:
                ps.append({"text": rline(rng) if not wild else rtext(rng, 0, 3, 0.6), "outline": None, "style": rng.choice(ODT_STYLES[:3])})
        if wild and rng.random() < 0.15:
            ps = []
        return {"fmt": fmt, "paragraphs": ps, "title": rng.choice(["", "", "Odt title", rline(rng)]), "full_text": tx(),
                "n_tables": rng.choice([0, 0, 1, 2, 3]), "n_images": 0}
    if fmt == "docx":
        ps = []
        for _ in range(n + rng.randint(0, 5)):
            k = rng.random()
            if k < 0.3:
                ps.append((rng.choice([rline(rng), rline(rng), rline(rng), "", " "]), rng.choice(STYLES[3:]), rng.random() < 0.1))
            else:
                ps.append((rng.choice([rline(rng), rline(rng), rline(rng), "", "  "]) if not wild else rtext(rng, 0, 3, 0.6),
                           rng.choice(STYLES[:3] + STYLES[-3:-2]), rng.random() < (0.35 if wild else 0.2)))
        if wild and rng.random() < 0.1:
            ps = []
        npar = len(ps)
        idx = lambda: rng.choice(list(range(npar)) + [npar, npar + 3, -1]) if npar else rng.choice([0, 1])
        imgs = [[idx() for _ in range(rng.choice([0, 1, 1, 2]))] for _ in range(rng.choice([0, 0, 1, 2]))]
        nt = rng.choice([0, 0, 1, 2])
        ta = [idx() for _ in range(nt)] if rng.random() < 0.7 else [idx() for _ in range(rng.choice([0, nt + 1]))]
        return docx_req(ps, tx(), rng.choice(["", "T"]), imgs, ta, nt)
    raise KeyError(fmt)


FORMATS = ["plain", "html", "odg", "odf", "email", "pdf", "xls", "xlsx", "ods", "ppt", "odp", "pptx", "epub", "rtf", "doc", "odt", "docx"]
HEAVY = {"doc": 4, "odt": 4, "docx": 6, "rtf": 2}


# ----------------------------------------------------------------------------- fixtures
_FIX = None


def fixtures():
    """[(relative path, result object)] of every file under tests/resources that extracts (cached per process)."""
    global _FIX
    if _FIX is None:
        import sharepoint2text
        root = os.path.join(_repo(), "sharepoint2text", "tests", "resources")
        out = []
        for dp, _, fns in sorted(os.walk(root)):
            for fn in sorted(fns):
                p = os.path.join(dp, fn)
                try:
                    for r in sharepoint2text.read_file(p):
                        out.append((os.path.relpath(p, _repo()), r))
                except Exception:  # unsupported / encrypted / broken fixtures are other properties' business
                    continue
        _FIX = out
    return _FIX


# ----------------------------------------------------------------------------- file builders (extraction side)
PNS = ('xmlns:a="http://schemas.openxmlformats.org/drawingml/2006/main" '
       'xmlns:r="http://schemas.openxmlformats.org/officeDocument/2006/relationships" '
       'xmlns:p="http://schemas.openxmlformats.org/presentationml/2006/main"')
SLIDE_T = "http://schemas.openxmlformats.org/officeDocument/2006/relationships/slide"
MASTER_T = "http://schemas.openxmlformats.org/officeDocument/2006/relationships/slideMaster"
THEME_T = "http://schemas.openxmlformats.org/officeDocument/2006/relationships/theme"
NOTESM_T = "http://schemas.openxmlformats.org/officeDocument/2006/relationships/notesMaster"


def _xml(s):
    return s.replace("&", "&amp;").replace("<", "&lt;").replace(">", "&gt;").replace('"', "&quot;")


def build_pptx(files, ids, rels, num_ids=None, hidden=()):
    """files: {zip name: slide text} (written in dict order); ids: r:id per sldId (None = no attribute);
    rels: [(id, target, type)]; num_ids: the numeric `id` attribute text per sldId (None = no attribute),
    default = ascending creation ids 256, 257, ... (a deck written front to back)"""
    if num_ids is None:
        num_ids = [str(256 + i) for i in range(len(ids))]
    b = io.BytesIO()
    with zipfile.ZipFile(b, "w") as z:
        z.writestr("[Content_Types].xml", '<Types xmlns="http://schemas.openxmlformats.org/package/2006/content-types"/>')
        z.writestr("ppt/presentation.xml", f"<p:presentation {PNS}><p:sldIdLst>" + "".join(
            "<p:sldId" + (f' id="{_xml(nid)}"' if nid is not None else "") + (f' r:id="{_xml(rid)}"' if rid is not None else "") + "/>"
            for nid, rid in zip(num_ids, ids))
            + "</p:sldIdLst></p:presentation>")
        z.writestr("ppt/_rels/presentation.xml.rels", '<Relationships xmlns="http://schemas.openxmlformats.org/package/2006/relationships">'
                   + "".join(f'<Relationship Id="{_xml(i)}" Type="{_xml(t)}" Target="{_xml(tg)}"/>' for i, tg, t in rels) + "</Relationships>")
        for name, text in files.items():
            z.writestr(name, f"<p:sld {PNS}" + (' show="0"' if name in hidden else "") + f"><p:cSld><p:spTree><p:sp><p:nvSpPr><p:cNvPr id=\"2\" name=\"T\"/><p:cNvSpPr/><p:nvPr/></p:nvSpPr>"
                             f"<p:txBody><a:bodyPr/><a:p><a:r><a:t>{_xml(text)}</a:t></a:r></a:p></p:txBody></p:sp></p:spTree></p:cSld></p:sld>")
    b.seek(0)
    return b


def gen_num_ids(rng, k, wild):
    """the numeric `id` attributes of k p:sldId entries.  PowerPoint keeps a slide's id when the slide is moved and gives an
    inserted slide the next free id, so in an edited deck the ids are NOT ascending in show order; the order of the
    entries alone is the show order.  wild: also missing / non-numeric / repeated / huge values."""
    base = [256 + i for i in range(k)]
    mode = rng.choice(["created", "moved", "moved", "inserted", "reversed", "sparse"])
    if mode == "moved":
        rng.shuffle(base)
    elif mode == "inserted" and k:
        base = [256 + i for i in range(k - 1)]
        base.insert(rng.randint(0, k - 1), 256 + k + rng.randint(0, 40))
    elif mode == "reversed":
        base.reverse()
    elif mode == "sparse":
        base = rng.sample(range(256, 256 + 10 * k + 1), k)
    out = [str(x) for x in base]
    if wild:
        for i in range(k):
            r = rng.random()
            if r < 0.12:
                out[i] = None
            elif r < 0.24:
                out[i] = rng.choice(["", "x", "25 6", "-3", "0", "2147483648", "256.0", "٢٥٦"])
            elif r < 0.36 and k > 1:
                out[i] = out[rng.randrange(k)]      # repeated id
    return out


def gen_pptx_case(rng, wild):
    """(files, ids, rels, num_ids)"""
    n = rng.randint(0, 6)
    names = [f"ppt/slides/slide{i + 1}.xml" for i in range(n)]
    toks = {nm: f"TOK{i + 1}" for i, nm in enumerate(names)}
    rng.shuffle(names)                      # order of the parts inside the zip is not the show order either
    files = {nm: toks[nm] for nm in names}
    rels = [("rIdM", "slideMasters/slideMaster1.xml", MASTER_T), ("rIdT", "theme/theme1.xml", THEME_T)]
    for i in range(n):
        tgt = f"slides/slide{i + 1}.xml"
        if wild:
            tgt = rng.choice([tgt, tgt, f"../ppt/slides/slide{i + 1}.xml", f"/ppt/slides/slide{i + 1}.xml", f"slides/../slides/slide{i + 1}.xml", ""])
        typ = SLIDE_T if not wild else rng.choice([SLIDE_T, SLIDE_T, SLIDE_T.upper(), NOTESM_T, "", "x/SLIDE"])
        rels.append((f"rId{i + 1}", tgt, typ))
    if wild and n and rng.random() < 0.3:
        rels.append((f"rId{rng.randint(1, n)}", "slides/slide1.xml", SLIDE_T))    # duplicate Id: dict overwrite
    if wild and rng.random() < 0.2:
        rels.append(("", "slides/slide1.xml", SLIDE_T))
    rng.shuffle(rels)
    ids = [f"rId{i + 1}" for i in range(n)]
    rng.shuffle(ids)
    if wild:
        ids += rng.sample(["rIdM", "rIdT", "nope", None, "", "rId1"], rng.randint(0, 3))
        rng.shuffle(ids)
    return files, ids, rels, gen_num_ids(rng, len(ids), wild)


def build_epub(items, spine, files):
    b = io.BytesIO()
    with zipfile.ZipFile(b, "w") as z:
        z.writestr("mimetype", "application/epub+zip")
        z.writestr("META-INF/container.xml", '<?xml version="1.0"?><container version="1.0" xmlns="urn:oasis:names:tc:opendocument:xmlns:container">'
                   '<rootfiles><rootfile full-path="OEBPS/content.opf" media-type="application/oebps-package+xml"/></rootfiles></container>')
        z.writestr("OEBPS/content.opf", '<?xml version="1.0"?><package xmlns="http://www.idpf.org/2007/opf" version="3.0">'
                   '<metadata xmlns:dc="http://purl.org/dc/elements/1.1/"><dc:title>T</dc:title></metadata><manifest>'
                   + "".join(f'<item id="{i}" href="{h}" media-type="{m}"/>' for i, h, m in items) + "</manifest><spine>"
                   + "".join(f'<itemref idref="{i}"/>' for i in spine) + "</spine></package>")
        for n, t in files.items():
            # a chapter may END inside an element the extractor removes or tracks (unclosed <object>, <title>, table cell …):
            # that must stay the chapter's own business — parser state must not leak into the next chapter
            tail = EPUB_TAILS[sum(map(ord, n + t)) % len(EPUB_TAILS)] if t.endswith("~") else ""
            t = t.rstrip("~")
            z.writestr("OEBPS/" + n, f'<html xmlns="http://www.w3.org/1999/xhtml"><head><title>c</title></head><body><p>{_xml(t)}</p>{tail}</body></html>'
                       if not tail else f'<html xmlns="http://www.w3.org/1999/xhtml"><head><title>c</title></head><body><p>{_xml(t)}</p>{tail}')
    b.seek(0)
    return b


EPUB_TAILS = ["<object data='x'>", "<iframe src='x'>", "<noscript>", "<table><tr><td>", "<applet>", "<script>", "<style>"]


def gen_epub_case(rng, wild):
    """(items, spine, files, kept, tokens): kept[i] = spine item i yields a chapter (by construction).
    The reading order is the SPINE order only: manifest order, item ids, file names and the order of the parts inside
    the zip are drawn independently of it."""
    n = rng.randint(0, 7)
    items, spine, files, kept, toks = [], [], {}, [], []
    fno = list(range(n))
    ino = list(range(n))
    rng.shuffle(fno)
    rng.shuffle(ino)
    for i in range(n):
        kind = rng.choice(["ok", "ok", "ok", "nomanifest", "image", "missingfile"]) if (wild or rng.random() < 0.4) else "ok"
        iid = f"it{ino[i]}"
        if kind == "ok":
            items.append((iid, f"c{fno[i]}.xhtml", "application/xhtml+xml"))
            files[f"c{fno[i]}.xhtml"] = f"TOK{i + 1}" + ("~" if (wild and rng.random() < 0.3) else "")
        elif kind == "image":
            items.append((iid, f"c{fno[i]}.png", "image/png"))
        elif kind == "missingfile":
            items.append((iid, f"c{fno[i]}.xhtml", "application/xhtml+xml"))
        spine.append(iid)
        kept.append(kind == "ok")
        toks.append(f"TOK{i + 1}" if kind == "ok" else None)
    # half of the wild books have a chapter that is FOLLOWED by another chapter and ends inside an element the
    # extractor removes or tracks: parser state left open by one chapter must not leak into the next one
    ok_files = [nm for (iid, nm, mt) in items if nm in files]
    by_id = {iid: nm for (iid, nm, mt) in items if nm in files}
    in_order = [by_id[i] for i in spine if i in by_id]
    if wild and len(in_order) >= 2 and rng.random() < 0.5:
        nm = rng.choice(in_order[:-1])
        if not files[nm].endswith("~"):
            files[nm] += "~"
    rng.shuffle(items)
    names = list(files)
    rng.shuffle(names)
    files = {nm: files[nm] for nm in names}
    return items, spine, files, kept, toks


def gen_mbox(rng, wild):
    """(bytes, expected message payloads or None when not known by construction)."""
    parts, msgs = [], []
    n = rng.randint(0, 5)
    for i in range(n):
        frm = "From a@b.c Mon Jan  1 00:00:00 2024"
        body = f"Subject: s{i}\n\nTOK{i + 1}\n"
        if wild:
            frm = rng.choice([frm, "From  a@b 2024", "From a 2024", "From a2024", "From 2024", "From a@b.c 202", "from a@b 2024", "From a@b 2024 ",
                              "From a@b 20245", ">From a@b 2024", "From a@b\t2024\r", "From \x0bx 1999", "From a@b.c 2024x"])
            body = rng.choice([body, "", "\n", "\r\n\r\n", f"x\nFrom inside 2024\ny{i}\n", f"TOK{i + 1}", f"a\r\nFrom q 1234\r\nb\r\n"])
        nl = "\r\n" if (wild and rng.random() < 0.3) else "\n"
        parts.append(frm + nl + body)
    data = "".join(parts)
    if wild and rng.random() < 0.3:
        data = rng.choice(["junk\n", "\n", "From"]) + data
    if wild and rng.random() < 0.2:
        data = data.rstrip("\n")
    return data.encode("latin-1")


def gen_rtf_pieces(rng, wild):
    n = rng.choice([1, 1, 2, 3, 4, 6])
    alpha = ["word", "x", " ", " ", "\n"] + (["  ", "\t", "\n\n\n\n", " \n ", "é"] if wild else [])
    ps = []
    for _ in range(n):
        k = rng.random()
        if k < (0.35 if wild else 0.2):
            ps.append(rng.choice(["", " ", "  ", "\n", " \n\t "]))
        else:
            ps.append("".join(rng.choice(alpha) for _ in range(rng.randint(1, 6))))
    return ps


def rtf_units16(c):
    """the \\uN code units of one character"""
    if c < 0x10000:
        return [c]
    c -= 0x10000
    return [0xD800 + (c >> 10), 0xDC00 + (c & 0x3FF)]


def build_rtf(pieces, pict_after=()):
    """RTF whose body is pieces joined by \\page; `pict_after` = indices of pieces that also carry a picture.
    A character beyond U+FFFF is written the way RTF writers do: two \\uN escapes (a UTF-16 surrogate pair)."""
    def esc(t):
        return "".join(c if ord(c) < 128 and c not in "\\{}" else ("\\" + c if c in "\\{}" else "".join("\\u%d?" % u for u in rtf_units16(ord(c))))
                       for c in t)
    body = []
    for i, p in enumerate(pieces):
        body.append(esc(p) + ("{\\pict\\pngblip\\picw1\\pich1 89504e470d0a1a0a}" if i in pict_after else ""))
    return ("{\\rtf1\\ansi " + "\\page ".join(body) + "}").encode("ascii")


# --- RTF as the scanner sees it: a stream of character events (UTF-16 code units or literal code points) and breaks
ASTRAL = [0x1F600, 0x1F4C4, 0x1D49C, 0x20000, 0x10000, 0x10FFFF, 0x1F1E9]
RTF_PLAIN = "abcxyzTOK0123456789 .,;:-!?"


def gen_rtf_pages(rng, wild):
    """pages of a document as lists of code points (wild: lone surrogates too)."""
    n = rng.choice([1, 2, 2, 3, 4, 6])
    pages = []
    for _ in range(n):
        k = rng.random()
        if k < 0.15:
            pages.append([ord(c) for c in rng.choice(["", " ", "\n", " \n\t "])])
            continue
        cps = []
        for _ in range(rng.randint(1, 7)):
            r = rng.random()
            if r < 0.3:
                cps.append(rng.choice(ASTRAL))
            elif r < 0.4:
                cps.append(rng.choice([0xE9, 0x20AC, 0xA0, 0xAD, 0x2028, 0x85, 0xFFFD, 0xFFFF, 0x8000, 0x7FFF, 0x5C, 0x7B, 0x7D]))
            elif r < 0.55:
                cps.append(rng.choice([0x20, 0x20, 0x09, 0x0A, 0x0A]))
            elif wild and r < 0.65:
                cps.append(rng.choice([0xD83D, 0xDE00, 0xD800, 0xDFFF, 0xDBFF, 0xDC00]))      # unpaired / oddly paired halves
            else:
                cps += [ord(c) for c in rng.choice(["word", "x", "Tok", "7", "a b"])]
        pages.append(cps)
    return pages


def rtf_encode_pages(rng, pages, wild):
    """(rtf source text, events): events = what the scanner appends, in order: ints (code unit / code point) and -1 for
    an explicit page break.  Every choice of spelling (literal, \\uN signed or unsigned, \\'hh, \\par, groups around runs,
    \\page or \\sbkpage, breaks inside a group) leaves the events the same."""
    out, evs, depth = [], [], 0
    for pi, cps in enumerate(pages):
        if pi:
            w = rng.choice(["\\page ", "\\page ", "\\sbkpage ", "\\page\\pard ", "\\par\\page "])
            if w.startswith("\\par"):
                evs.append(10)
            if rng.random() < 0.25:
                w = "{" + w + "}"
            out.append(w)
            evs.append(-1)
        for c in cps:
            if rng.random() < 0.12:
                out.append(rng.choice(["{\\b ", "{", "{\\fs24\\cf1 "]))
                depth += 1
            elif depth and rng.random() < 0.2:
                out.append("}")
                depth -= 1
            elif rng.random() < 0.05:
                out.append(rng.choice(["\\b0 ", "\\plain ", "\r", "\\f1\\fs20 "]))
            if c >= 0x10000:
                if rng.random() < 0.75:
                    for u in rtf_units16(c):
                        out.append("\\u%d?" % (u - 65536 if rng.random() < 0.6 else u))
                        evs.append(u)
                else:
                    out.append(chr(c))          # literal (the file is UTF-8)
                    evs.append(c)
                continue
            evs.append(c)
            ch = chr(c)
            if 0xD800 <= c <= 0xDFFF:
                out.append("\\u%d?" % (c - 65536 if rng.random() < 0.6 else c))
            elif ch in "\\{}":
                out.append("\\" + ch)
            elif c == 10:
                out.append(rng.choice(["\\par ", "\\line ", "\n", "\\row "]))
            elif c == 9:
                out.append(rng.choice(["\\tab ", "\t"]))
            elif c == 0xA0 and rng.random() < 0.5:
                out.append("\\~")
            elif c == 0xAD and rng.random() < 0.5:
                out.append("\\_")
            elif ch in RTF_PLAIN or ch.isalnum() and c < 128:
                out.append(ch if rng.random() < 0.9 else "\\'%02x" % c)
            elif c < 256 and rng.random() < 0.5:
                out.append("\\'%02x" % c)
            else:
                out.append("\\u%d?" % (c - 65536 if (c >= 0x8000 and rng.random() < 0.6) else c))
    out.append("}" * depth)
    return "{\\rtf1\\ansi\\deff0 " + "".join(out) + "}", evs


def rtf_doc_expected(pages):
    """page texts by construction (None when a page holds surrogate halves: then there is no 'the text' to compare)."""
    if any(0xD800 <= c <= 0xDFFF for p in pages for c in p):
        return None
    return ["".join(map(chr, p)) for p in pages]


def _squeeze(t):
    return "".join(t.split())


def rtf_doc_check(rtf, expected):
    """the property on one RTF source: one unit per explicit page, numbered 1..n, unit k holding page k's text and no
    other page's (compared with all whitespace removed, so trimming / blank-run collapsing is not judged). -> [(key, what)]"""
    from sharepoint2text.parsing.extractors.ms_legacy.rtf_extractor import read_rtf
    try:
        res = next(read_rtf(io.BytesIO(rtf.encode("utf-8"))))
        us = [(u.get_metadata().unit_number, u.get_text()) for u in res.iterate_units()]
    except Exception as e:  # noqa: BLE001
        return [("rtf.raises", f"read_rtf raised {type(e).__name__}: {e}")]
    if len(expected) < 2:
        if expected and _squeeze(expected[0]) and [(n, _squeeze(t)) for n, t in us] != [(1, _squeeze(expected[0]))]:
            return [("rtf.text-in-wrong-unit", f"rtf without page break, text {expected[0]!r:.60}, gave units {us!r:.160}")]
        return []
    if [n for n, _ in us] != list(range(1, len(expected) + 1)):
        return [("rtf.page-without-unit", f"rtf with {len(expected)} explicit pages {expected!r:.120} gave units numbered {[n for n, _ in us]}")]
    for k, (want, (_, got)) in enumerate(zip(expected, us), start=1):
        if _squeeze(want) != _squeeze(got):
            return [("rtf.text-in-wrong-unit", f"rtf page {k} holds {want!r:.60} but unit {k} returns {got!r:.60} "
                                               f"(pages {expected!r:.160}; units {[t for _, t in us]!r:.160})")]
    return []


RT_SLIDE_PERSIST, RT_TEXT_HEADER, RT_TEXT_CHARS, RT_TEXT_BYTES = 1011, 3999, 4000, 4008


def ppt_rec(rec_type, data=b"", instance=0, ver=0):
    return struct.pack("<HHI", (instance << 4) | ver, rec_type, len(data)) + data


def gen_ppt_records(rng, wild):
    """[( 'p' | ('h', t) | ('t', rec_type, raw bytes) )] for one SlideListWithText container."""
    recs = []
    for _ in range(rng.randint(0, 6)):
        recs.append(("p",))
        for _ in range(rng.choice([0, 1, 1, 2, 3]) if (wild or rng.random() < 0.3) else rng.choice([1, 2])):
            if rng.random() < 0.7:
                recs.append(("h", rng.choice([0, 1, 2, 4, 5, 6, 7, 8, 3, 99])))
            txt = rng.choice(["Title", "body text", "x", "", "\x00", " ", "\r", "Click to edit Master title style", "___PPT10", "caf\xe9", "a\rb"])
            if rng.random() < 0.5:
                recs.append(("t", RT_TEXT_BYTES, txt.encode("latin-1")))
            else:
                recs.append(("t", RT_TEXT_CHARS, txt.encode("utf-16-le")))
    if wild and recs and rng.random() < 0.3:
        recs = recs[1:]          # text before the first SlidePersistAtom
    return recs


def ppt_records_bytes(recs):
    out = b""
    for r in recs:
        if r[0] == "p":
            out += ppt_rec(RT_SLIDE_PERSIST, b"\x00" * 20)
        elif r[0] == "h":
            out += ppt_rec(RT_TEXT_HEADER, struct.pack("<I", r[1]))
        else:
            out += ppt_rec(r[1], r[2])
    return out


# ----------------------------------------------------------------------------- correspondence
def _run_units(ctx, cases, label, broken, cap=12):
    """cases: [(req, obj)] -> drive, diff, record."""
    cases = [(r, o) for r, o in cases if r is not None]
    reqs = []
    keep = []
    for r, o in cases:
        if _has_surrogate(r) or not _all_str(r):
            ctx.count(f"{label}/skipped-unmodelled-value")
            continue
        keep.append((r, o))
        reqs.append({"op": "c03.units", **{k: v for k, v in r.items() if not k.startswith("_")}})
    outs = ctx.drive(reqs)
    bad = 0
    for (r, o), w in zip(keep, outs):
        g = impl(o, r)
        nontrivial = any(isinstance(v, str) and v.strip() for v in _leaves(r))
        ctx.case((label, repr(r)), nontrivial=nontrivial)
        ctx.count(f"{label}/{r['fmt']}/" + ("raised" if "raised" in g else f"units={min(len(g['units']), 5)}{'+' if len(g['units']) > 5 else ''}"))
        d = diff(r, g, w)
        if d:
            bad += 1
            if bad <= cap:
                broken.append(Broken("correspondence", f"c03.units:{r['fmt']}", d, case={"req": r, "label": label}))
    return bad


def _leaves(x):
    if isinstance(x, dict):
        for v in x.values():
            yield from _leaves(v)
    elif isinstance(x, list):
        for v in x:
            yield from _leaves(v)
    else:
        yield x


def correspondence(ctx):
    broken, violations = [], []
    rng = ctx.rng
    try:
        docx_heading_re()
    except Exception as e:
        broken.append(Broken("translate", "docx.heading_re", repr(e)))
        return {"broken": broken, "violations": violations}
    mism = 0
    # 1. fixtures first (regression corpus)
    fx = []
    for path, obj in fixtures():
        r = ser(obj)
        if r is not None:
            r["_path"] = path
            fx.append((r, obj))
    mism += _run_units(ctx, fx, "fixture", broken)
    # 2. structured + malformed random instances
    per = ctx.n(40, 500)
    for wild in (False, True):
        cases = []
        for fmt in FORMATS:
            for _ in range(per * HEAVY.get(fmt, 1)):
                r = gen_req(rng, fmt, wild)
                cases.append((r, make(r)))
        mism += _run_units(ctx, cases, "malformed" if wild else "structured", broken)
    if ctx.samples == []:
        r = gen_req(rng, "docx", False)
        ctx.sample({"req": r, "impl": impl(make(r), r)})
    # 3. extraction side
    mism += _corr_pptx(ctx, broken)
    mism += _corr_ppt(ctx, broken)
    mism += _corr_epub(ctx, broken)
    mism += _corr_mbox(ctx, broken)
    mism += _corr_rtf(ctx, broken)
    mism += B.corr_mbox_read(ctx, broken, s1)
    mism += B.corr_pdf(ctx, broken, diff, impl, ser)
    mism += K.corr_odp(ctx, broken, s1, Broken)
    ctx.coverage["mismatches"] = mism
    # 4. the property oracle itself (independent of the model) on a small budget every run
    for v in _oracle(ctx, [], ctx.n(6, 60)):
        if v.key not in KNOWN_KEYS:
            violations.append(v)
    return {"broken": broken, "violations": violations}


def _note(broken, name, detail, case, bad, cap=8):
    if bad <= cap:
        broken.append(Broken("correspondence", name, detail, case=case))


def _corr_pptx(ctx, broken):
    from sharepoint2text.parsing.extractors.ms_modern import pptx_extractor as PX
    bad = 0
    reqs, exp = [], []
    for wild in (False, True):
        for _ in range(ctx.n(60, 800)):
            files, ids, rels, nums = gen_pptx_case(ctx.rng, wild)
            case = {"files": files, "ids": ids, "rels": [list(r) for r in rels], "num_ids": nums}
            try:
                c = PX._PptxContext(build_pptx(files, ids, rels, nums))
                try:
                    order = list(c.slide_order)
                finally:
                    c.close()
                res = next(PX.read_pptx(build_pptx(files, ids, rels, nums)))
                got = {"order": order, "numbers": [s.slide_number for s in res.slides],
                       "unit_numbers": [u.get_metadata().unit_number for u in res.iterate_units()]}
            except Exception as e:  # noqa: BLE001
                got = {"raised": type(e).__name__}
            reqs.append({"op": "c03.pptx_order", "rels": [{"id": i, "target": tg, "type": t.lower()} for i, tg, t in rels], "ids": ids,
                         "num_ids": nums})
            exp.append((case, got))
    for (case, got), w in zip(exp, ctx.drive(reqs)):
        ctx.case(("pptx", repr(case)))
        ctx.count("pptx-order/" + ("raised" if "raised" in got else f"slides={min(len(got['order']), 4)}"))
        nn = [int(x) for x in case["num_ids"] if x is not None and x.isascii() and x.isdigit()]
        ctx.count("pptx-order/numeric-ids-" + ("ascending" if nn == sorted(nn) and len(set(nn)) == len(nn) else "not-ascending"))
        if "raised" in got or "drv_error" in w or got["order"] != [s1(x) for x in w["order"]] or got["numbers"] != w["numbers"] or got["unit_numbers"] != w["numbers"]:
            bad += 1
            _note(broken, "c03.pptx_order", f"impl={got} model={w}", {"pptx": case}, bad)
    return bad


def _blocks_json(slides):
    return [[{"text": b.text, "tt": b.text_type, "it": bool(b.is_title), "ib": bool(b.is_body), "in": bool(b.is_notes)} for b in s] for s in slides]


def _corr_ppt(ctx, broken):
    from sharepoint2text.parsing.extractors.ms_legacy import ppt_extractor as PE
    D = _dt()
    bad = 0
    # (a) _parse_slide_list_container on record bytes
    reqs, exp = [], []
    for wild in (False, True):
        for _ in range(ctx.n(120, 2000)):
            recs = gen_ppt_records(ctx.rng, wild)
            data = ppt_records_bytes(recs)
            mrecs = []
            for r in recs:
                if r[0] == "p":
                    mrecs.append({"k": "p"})
                elif r[0] == "h":
                    mrecs.append({"k": "h", "t": r[1]})
                else:
                    t = PE._decode_text(r[1], r[2])
                    t = PE._clean_text(t) if t else ""
                    mrecs.append({"k": "t", "s": t or ""})
            try:
                got = _blocks_json(PE._parse_slide_list_container(data))
            except Exception as e:  # noqa: BLE001
                got = "raised " + type(e).__name__
            reqs.append({"op": "c03.ppt_list", "recs": mrecs})
            exp.append(({"recs": [list(map(lambda x: x.hex() if isinstance(x, bytes) else x, r)) for r in recs]}, got))
    for (case, got), w in zip(exp, ctx.drive(reqs)):
        ctx.case(("ppt_list", repr(case)))
        ctx.count("ppt-slide-list/" + (f"slides={min(len(got), 4)}" if isinstance(got, list) else "raised"))
        wm = [[{**b, "text": s1(b["text"])} for b in sl] for sl in w.get("slides", [])] if "slides" in w else w
        if got != wm:
            bad += 1
            _note(broken, "c03.ppt_list", f"impl={got!r:.300} model={w!r:.300}", {"ppt_records": case}, bad)
    # (b) _parse_ppt_document with its three sources stubbed by generated values
    reqs, exp = [], []
    saved = (PE._extract_slide_list_texts, PE._parse_containers, PE._extract_all_text_raw)
    try:
        for wild in (False, True):
            for _ in range(ctx.n(120, 2000)):
                def blocks():
                    out = []
                    for _ in range(ctx.rng.choice([0, 0, 1, 2, 3])):
                        s = []
                        for _ in range(ctx.rng.choice([0, 1, 2, 3]) if wild else ctx.rng.choice([1, 2])):
                            tt = ctx.rng.choice([None, 0, 1, 2, 4, 5, 6, 7, 8, 9])
                            b = PE._make_text_block(ctx.rng.choice(["T", "body", "n", "x y"]), tt)
                            if wild and ctx.rng.random() < 0.2:
                                b = D.PptTextBlock(text=b.text, text_type=tt, is_title=ctx.rng.random() < 0.5, is_body=ctx.rng.random() < 0.5, is_notes=ctx.rng.random() < 0.5)
                            s.append(b)
                        out.append(s)
                    return out
                lst, cont = blocks(), blocks()
                raw = [ctx.rng.choice(["r1", "r2", "raw text"]) for _ in range(ctx.rng.choice([0, 1, 2]))]
                PE._extract_slide_list_texts = lambda data, v=lst: [list(s) for s in v]
                PE._parse_containers = lambda data, v=cont: {"slides": [list(s) for s in v], "notes": [], "master": []}
                PE._extract_all_text_raw = lambda data, v=raw: list(v)
                content = D.PptContent()
                try:
                    PE._parse_ppt_document(b"", content)
                    got = {"slides": [{"number": s.slide_number, "title": s.title, "body": s.body_text, "other": s.other_text, "notes": s.notes} for s in content.slides],
                           "units": [[u.get_metadata().unit_number, u.get_text()] for u in content.iterate_units()]}
                except Exception as e:  # noqa: BLE001
                    got = {"raised": type(e).__name__}
                reqs.append({"op": "c03.ppt_doc", "list": _blocks_json(lst), "cont": _blocks_json(cont), "raw": raw})
                exp.append(({"list": _blocks_json(lst), "cont": _blocks_json(cont), "raw": raw}, got))
    finally:
        PE._extract_slide_list_texts, PE._parse_containers, PE._extract_all_text_raw = saved
    for (case, got), w in zip(exp, ctx.drive(reqs)):
        ctx.case(("ppt_doc", repr(case)))
        ctx.count("ppt-document/" + ("raised" if "raised" in got else f"slides={min(len(got['slides']), 4)}"))
        wm = w if "drv_error" in w else {
            "slides": [{"number": x["number"], "title": s1(x["title"]), "body": [s1(t) for t in x["body"]], "other": [s1(t) for t in x["other"]],
                        "notes": [s1(t) for t in x["notes"]]} for x in w["slides"]],
            "units": [[u["n"], s1(u["t"])] for u in w["units"]]}
        if got != wm:
            bad += 1
            _note(broken, "c03.ppt_doc", f"impl={got!r:.300} model={wm!r:.300}", {"ppt_doc": case}, bad)
    return bad


def _corr_epub(ctx, broken):
    from sharepoint2text.parsing.extractors.epub_extractor import read_epub
    bad = 0
    reqs, exp = [], []
    for wild in (False, True):
        for _ in range(ctx.n(50, 700)):
            items, spine, files, kept, toks = gen_epub_case(ctx.rng, wild)
            case = {"items": [list(i) for i in items], "spine": spine, "files": files}
            try:
                res = next(read_epub(build_epub(items, spine, files)))
                got = [u.get_metadata().unit_number for u in res.iterate_units()]
            except Exception as e:  # noqa: BLE001
                got = "raised " + type(e).__name__
            reqs.append({"op": "c03.epub", "kept": kept})
            exp.append((case, got))
    for (case, got), w in zip(exp, ctx.drive(reqs)):
        ctx.case(("epub", repr(case)))
        ctx.count("epub-spine/" + (f"chapters={min(len(got), 4)}" if isinstance(got, list) else "raised"))
        if got != w.get("numbers"):
            bad += 1
            _note(broken, "c03.epub", f"impl={got} model={w}", {"epub": case}, bad)
    return bad


def _corr_mbox(ctx, broken):
    from sharepoint2text.parsing.extractors.mail.mbox_email_extractor import _split_mbox_messages
    bad = 0
    reqs, exp = [], []
    for wild in (False, True):
        for _ in range(ctx.n(150, 3000)):
            data = gen_mbox(ctx.rng, wild)
            try:
                got = [m.decode("latin-1") for m in _split_mbox_messages(data)]
            except Exception as e:  # noqa: BLE001
                got = "raised " + type(e).__name__
            reqs.append({"op": "c03.mbox", "data": data.decode("latin-1")})
            exp.append((data.decode("latin-1"), got))
    for (data, got), w in zip(exp, ctx.drive(reqs)):
        ctx.case(("mbox", data))
        ctx.count("mbox-split/" + (f"messages={min(len(got), 4)}" if isinstance(got, list) else "raised"))
        if "msgs" not in w or got != [s1(x) for x in w["msgs"]]:
            bad += 1
            _note(broken, "c03.mbox", f"impl={got!r:.300} model={w!r:.300}", {"mbox": data}, bad)
    return bad


def _corr_rtf(ctx, broken):
    from sharepoint2text.parsing.extractors.ms_legacy.rtf_extractor import read_rtf
    bad = 0
    reqs, exp = [], []
    for wild in (False, True):
        for _ in range(ctx.n(100, 1500)):
            pieces = gen_rtf_pieces(ctx.rng, wild)
            try:
                res = next(read_rtf(io.BytesIO(build_rtf(pieces))))
                got = list(res.pages)
            except Exception as e:  # noqa: BLE001
                got = "raised " + type(e).__name__
            reqs.append({"op": "c03.rtf_pages", "pieces": pieces})
            exp.append((pieces, got))
    for (pieces, got), w in zip(exp, ctx.drive(reqs)):
        ctx.case(("rtf_pages", tuple(pieces)))
        ctx.count("rtf-flush/" + (f"pages={min(len(got), 4)}" if isinstance(got, list) else "raised"))
        if "pages" not in w or got != [s1(x) for x in w["pages"]]:
            bad += 1
            _note(broken, "c03.rtf_pages", f"impl={got!r:.300} model={w!r:.300}", {"rtf_pieces": pieces}, bad)
    # (b) the scanner's event stream: characters beyond the BMP as \\uN pairs or literals, every spelling of a character,
    #     groups around runs, both break words, breaks inside groups  ->  self.pages
    from sharepoint2text.parsing.extractors.ms_legacy import rtf_extractor as RX
    reqs, exp = [], []
    for wild in (False, True):
        for _ in range(ctx.n(120, 2500)):
            pages = gen_rtf_pages(ctx.rng, wild)
            rtf, evs = rtf_encode_pages(ctx.rng, pages, wild)
            try:
                res = next(read_rtf(io.BytesIO(rtf.encode("utf-8"))))
                got = [[ord(c) for c in p] for p in res.pages]
            except Exception as e:  # noqa: BLE001
                got = "raised " + type(e).__name__
            reqs.append({"op": "c03.rtf_extract", "evs": evs})
            exp.append(({"rtf": rtf, "pages": rtf_doc_expected(pages)}, got, pages))
    for (case, got, pages), w in zip(exp, ctx.drive(reqs)):
        ctx.case(("rtf_doc", case["rtf"]))
        astral_before_break = any(c >= 0x10000 for p in pages[:-1] for c in p)
        ctx.count("rtf-scan/" + (f"pages={min(len(got), 4)}" if isinstance(got, list) else "raised")
                  + ("/astral-before-break" if astral_before_break else ""))
        if "pages" not in w or got != w["pages"]:
            bad += 1
            _note(broken, "c03.rtf_extract", f"impl={got!r:.300} model={w!r:.300} rtf={case['rtf']!r:.300}", {"rtf_doc": case}, bad)
    # (c) _combine_surrogates itself on arbitrary code-unit strings
    reqs, exp = [], []
    for _ in range(ctx.n(150, 3000)):
        codes = [ctx.rng.choice([0x61, 0xD83D, 0xDE00, 0xD800, 0xDBFF, 0xDC00, 0xDFFF, 0xFFFD, 0xE000, 0xD7FF, 0x1F600, 0x10FFFF])
                 for _ in range(ctx.rng.randint(0, 7))]
        try:
            got = [ord(c) for c in RX._combine_surrogates("".join(map(chr, codes)))]
        except Exception as e:  # noqa: BLE001
            got = "raised " + type(e).__name__
        reqs.append({"op": "c03.combine", "codes": codes})
        exp.append((codes, got))
    for (codes, got), w in zip(exp, ctx.drive(reqs)):
        ctx.case(("rtf_combine", tuple(codes)))
        ctx.count("rtf-combine/" + ("pairs" if any(0xD800 <= a <= 0xDBFF and 0xDC00 <= b <= 0xDFFF for a, b in zip(codes, codes[1:])) else "no-pair"))
        if got != w.get("out"):
            bad += 1
            _note(broken, "c03.combine", f"_combine_surrogates({codes}) impl={got} model={w}", {"rtf_codes": codes}, bad)
    return bad


# ----------------------------------------------------------------------------- oracle: the property statement on the real code
def _strictly_increasing_positive(ns):
    return all(isinstance(n, int) and n >= 1 for n in ns) and all(a < b for a, b in zip(ns, ns[1:]))


def check_object(req, obj=None):
    """violations of the generic clauses (numbers, join, count) on one real object: [(key, what)]"""
    obj = obj if obj is not None else make(req)
    f = req["fmt"]
    g = impl(obj, req)
    if "raised" in g:
        return [(f"{f}.iterate-units-raises", f"iterate_units()/get_full_text() of {f} raised {g['raised']}")]
    out = []
    ns = [u["n"] for u in g["units"]]
    # numbers written by the extractor (slide/chapter fields) are checked end-to-end, not on arbitrary field values
    if f not in ("ppt", "pptx", "odp", "epub") and not _strictly_increasing_positive(ns):
        out.append((f"{f}.numbers-not-strictly-increasing", f"{f}: unit numbers {ns[:12]} are not strictly increasing from >= 1"))
    if f in JOIN_FORMATS:
        want = "\n".join(u["t"] for u in g["units"]).strip()
        if g["full"] != want:
            out.append((f"{f}.full-text-not-join-of-units", f"{f}: get_full_text()={g['full']!r:.80} but trimmed newline-join of unit texts={want!r:.80}"))
    cnt = {"pdf": "pages", "xls": "sheets", "xlsx": "sheets", "ods": "sheets", "ppt": "slides", "odp": "slides", "pptx": "slides", "epub": "chapters"}.get(f)
    if cnt and len(g["units"]) != len(req[cnt]):
        out.append((f"{f}.unit-count", f"{f}: {len(g['units'])} units for {len(req[cnt])} {cnt}"))
    if cnt and f in ("pdf", "xls", "xlsx", "ods") and ns != list(range(1, len(ns) + 1)):
        out.append((f"{f}.number-is-not-source-position", f"{f}: unit numbers {ns[:12]} are not the 1-based positions"))
    if f == "rtf" and req["pages"]:
        if len(g["units"]) != len(req["pages"]) or ns != list(range(1, len(req["pages"]) + 1)):
            out.append(("rtf.page-without-unit", f"rtf: pages {req['pages']!r:.80} gave units numbered {ns} (one unit per explicit page expected)"))
        else:
            for kind, key, k in (("image", "image_pages", "ni"), ("table", "table_pages", "nt")):
                for pno in req[key]:
                    eff = pno or 1
                    if 1 <= eff <= len(req["pages"]) and g["units"][eff - 1][k] == 0:
                        out.append(("rtf.page-without-unit", f"rtf: {kind} of page {eff} is attached to no unit"))
    if f in ("plain", "html", "odg", "odf", "email") and len(g["units"]) != 1:
        out.append((f"{f}.unit-count", f"{f}: {len(g['units'])} units, exactly one expected"))
    return out


def token_docx(rng, wild=True):
    """docx request whose every non-blank paragraph is a unique token."""
    ps, k = [], 0
    for _ in range(rng.randint(1, 9)):
        k += 1
        r = rng.random()
        if r < 0.35:
            ps.append((rng.choice([f"H{k}", f"H{k}", f" H{k} ", ""]), rng.choice(["Heading 1", "Heading 2", "heading 3", "Heading 1", "Heading 2"]), rng.random() < 0.1))
        else:
            ps.append((rng.choice([f"B{k}", f"B{k}", f"  B{k}\t", "", " "]), rng.choice([None, "Normal", ""]), rng.random() < 0.3))
    npar = len(ps)
    imgs = [[rng.randrange(npar)] for _ in range(rng.choice([0, 0, 1]))]
    nt = rng.choice([0, 0, 1])
    return docx_req(ps, "\n".join(t.strip() for t, _, _ in ps if t.strip()), "", imgs, [rng.randrange(npar) for _ in range(nt)], nt)


def docx_path_empty_flags(paragraphs):
    """for every paragraph: is the heading path empty when it occurs?  (plain restatement of the heading stack:
    pop while top level >= level, push; path = non-blank texts on the stack)"""
    stack, flags = [], []
    for p in paragraphs:
        if p["level"] is not None:
            while stack and stack[-1][0] >= p["level"]:
                stack.pop()
            stack.append((p["level"], p["text"].strip()))
        flags.append(not any(t for _, t in stack))
    return flags


def check_cover(req, obj=None):
    """coverage clause for docx / doc / odt token objects built by token_*: [(key, what)]"""
    obj = obj if obj is not None else make(req)
    f = req["fmt"]
    g = impl(obj, req)
    if "raised" in g:
        return [(f"{f}.iterate-units-raises", f"{f}: raised {g['raised']}")]
    if f == "docx":
        heads = [p["text"].strip() for p in req["paragraphs"] if p["level"] is not None and p["text"].strip()]
        bodies = [p["text"].strip() for p in req["paragraphs"] if p["level"] is None and p["text"].strip()]
        any_head = any(p["level"] is not None for p in req["paragraphs"])
    elif f == "odt":
        heads = [p["text"].strip() for p in req["paragraphs"] if p["outline"] is not None and p["text"].strip()]
        bodies = [p["text"].strip() for p in req["paragraphs"] if p["outline"] is None and p["text"].strip() and not p["style"].startswith("Table")]
        any_head = bool(heads)
    else:
        lines = [l.strip() for l in req["main_text"].splitlines() if l.strip()]
        isH = lambda l: l.lower().startswith(("subsection", "chapter")) or l.lower() == "intro"
        heads, bodies = [l for l in lines if isH(l)], [l for l in lines if not isH(l)]
        any_head = bool(heads)
    out = []
    ns = [u["n"] for u in g["units"]]
    if ns != list(range(1, len(ns) + 1)):
        out.append((f"{f}.numbers-not-strictly-increasing", f"{f}: unit numbers {ns}"))
    if not g["units"] and (heads or bodies) and not (f == "docx" and any_head and not heads):
        # (docx with blank headings only: the loss is the open finding reported below)
        out.append((f"{f}.no-unit", f"{f}: no unit at all for a document with body text {heads + bodies!r:.80}"))
    if not any_head:
        return out
    seen = []
    for u in g["units"]:
        seen += [l for l in u["t"].split("\n") if l]
    if f == "docx":
        # open finding docx.text-before-first-heading-dropped: pieces that occur while the heading path is empty
        flags = docx_path_empty_flags(req["paragraphs"])
        orphan = [p["text"].strip() for p, e in zip(req["paragraphs"], flags) if e and p["level"] is None and p["text"].strip()]
        kept = [p["text"].strip() for p, e in zip(req["paragraphs"], flags) if not e and p["level"] is None and p["text"].strip()]
        if orphan and not any(o in seen for o in orphan):
            out.append(("docx.text-before-first-heading-dropped",
                        f"docx: body text {orphan!r:.80} occurs before the first (non-blank) heading and is in no unit (units hold {seen!r:.80})"))
            bodies = kept
    if seen != bodies:
        missing = [b for b in bodies if b not in seen]
        extra = [s for s in seen if s not in bodies]
        key = f"{f}.body-text-not-covered" if missing else f"{f}.body-text-misplaced"
        if missing and f == "docx":
            ps = req["paragraphs"]
            mi = next(i for i, p in enumerate(ps) if p["level"] is None and p["text"].strip() == missing[0])
            if ps[mi]["pb"]:
                key = "docx.page-break-paragraph-text-dropped"
        out.append((key, f"{f}: body pieces {bodies!r:.100} but unit texts hold {seen!r:.100} (missing {missing[:4]}, extra/dup {extra[:4]})"))
    lost = [h for h in heads if not any(h in u["p"] for u in g["units"])]
    if lost:
        out.append((f"{f}.heading-not-covered", f"{f}: heading text {lost[:4]} is in no unit's heading path (units {[(u['n'], u['p']) for u in g['units']]!r:.120})"))
    return out


def token_odt(rng):
    ps, k = [], 0
    for _ in range(rng.randint(1, 8)):
        k += 1
        if rng.random() < 0.35:
            ps.append({"text": f"H{k}", "outline": rng.choice([1, 2, 3]), "style": ""})
        else:
            ps.append({"text": rng.choice([f"B{k}", f" B{k} ", ""]), "outline": None, "style": ""})
    return {"fmt": "odt", "paragraphs": ps, "title": "", "full_text": "\n".join(p["text"].strip() for p in ps if p["text"].strip()), "n_tables": 0, "n_images": 0}


def token_doc(rng):
    lines, k = [], 0
    for _ in range(rng.randint(1, 8)):
        k += 1
        lines.append(rng.choice([f"Chapter {k}", f"Subsection {k}"]) if rng.random() < 0.35 else rng.choice([f"B{k}", f"  B{k}", ""]))
    return {"fmt": "doc", "main_text": "\n".join(lines), "title": "", "tables": []}


def pptx_case_check(files, ids, rels, num_ids=None, hidden=()):
    """one PPTX package on the real extractor: one unit per p:sldId that has a slide relationship, numbered by
    position IN THE sldIdLst (whatever the numeric id attributes say), carrying that slide part's text (blank when
    the part is missing). -> [(key, what)]"""
    from sharepoint2text.parsing.extractors.ms_modern.pptx_extractor import read_pptx
    relmap = {}
    for i, tg, t in rels:
        if i and tg and "slide" in t.lower():
            relmap[i] = tg
    want = []
    for rid in ids:
        if rid and rid in relmap:
            tg = relmap[rid]
            want.append(files.get("ppt/" + tg, "") if re.fullmatch(r"slides/slide\d+\.xml", tg) else None)
    try:
        res = next(read_pptx(build_pptx(files, ids, rels, num_ids, hidden)))
        us = [(u.get_metadata().unit_number, u.get_text()) for u in res.iterate_units()]
        full = res.get_full_text()
    except Exception as e:  # noqa: BLE001
        return [("pptx.raises", f"read_pptx raised {type(e).__name__}")]
    if [n for n, _ in us] != list(range(1, len(want) + 1)):
        return [("pptx.units-do-not-mirror-slides", f"pptx with {len(want)} slides in sldIdLst (texts {want}) gave units {us}")]
    if any(w is not None and w != t for w, (_, t) in zip(want, us)):
        return [("pptx.units-do-not-mirror-slides", f"pptx with slides {want} in presentation order (sldId ids {num_ids if num_ids is not None else 'ascending'}) gave units {us}")]
    if full != "\n".join(t for _, t in us).strip():
        return [("pptx.full-text-not-join-of-units", f"pptx full text {full!r:.80}")]
    return []


# --- sheet / page sequences through the real extractors (XLSX, ODS, ODP): the order is the order of the <sheet> /
#     <table:table> / <draw:page> elements, not the order of names, ids, part names or relationship ids
RNS = "http://schemas.openxmlformats.org/officeDocument/2006/relationships"
ODF_NS = ('xmlns:office="urn:oasis:names:tc:opendocument:xmlns:office:1.0" xmlns:text="urn:oasis:names:tc:opendocument:xmlns:text:1.0" '
          'xmlns:table="urn:oasis:names:tc:opendocument:xmlns:table:1.0" xmlns:draw="urn:oasis:names:tc:opendocument:xmlns:drawing:1.0" '
          'xmlns:presentation="urn:oasis:names:tc:opendocument:xmlns:presentation:1.0" xmlns:svg="urn:oasis:names:tc:opendocument:xmlns:svg-compatible:1.0" '
          'xmlns:style="urn:oasis:names:tc:opendocument:xmlns:style:1.0" xmlns:xlink="http://www.w3.org/1999/xlink" '
          'xmlns:form="urn:oasis:names:tc:opendocument:xmlns:form:1.0" xmlns:anim="urn:oasis:names:tc:opendocument:xmlns:animation:1.0"')

# what an ordinary sheet / page of a real document carries besides its cells / shapes (none of it makes it less of a sheet / page):
# kind -> {decoration name: (attributes of the sheet / page element, child elements in front of the content, child elements behind it)}
DECO = {
    "ods": {"linked": ("", '<table:table-source xlink:type="simple" xlink:href="other.ods" table:table-name="Sheet1" table:mode="copy-all" table:refresh-delay="PT0S"/>', ""),
            "scenario": ("", '<table:scenario table:scenario-ranges="$A$1" table:is-active="true" table:border-color="#c0c0c0"/>', ""),
            "forms": ("", '<office:forms form:automatic-focus="false" form:apply-design-mode="false"/>', ""),
            "protected": (' table:protected="true" table:protection-key="x"', "", ""),
            "noprint": (' table:print="false"', "", ""),
            "ranges": (' table:print-ranges="$A$1:$A$1"', "", '<table:named-expressions/>'),
            "title": ("", '<table:title>t</table:title><table:desc>d</table:desc>', ""),
            "shapes": ("", '<table:shapes/>', ""),
            "column": ("", '<table:table-column table:number-columns-repeated="3"/>', "")},
    "odp": {"forms": ("", '<office:forms form:automatic-focus="false" form:apply-design-mode="false"/>', ""),
            "anim": ("", "", '<anim:par presentation:node-type="timing-root"/>'),
            "layout": (' presentation:presentation-page-layout-name="AL1T0" presentation:use-footer-name="f"', "", ""),
            "nav": (' draw:nav-order="id1"', "", "")},
    "xlsx": {"tabcolor": ("", '<sheetPr><tabColor rgb="FFFF0000"/></sheetPr>', ""),
             "views": ("", '<sheetViews><sheetView workbookViewId="0"/></sheetViews><sheetFormatPr defaultRowHeight="15"/>', ""),
             "protected": ("", "", '<sheetProtection sheet="1" objects="1" scenarios="1"/>'),
             "filter": ("", "", '<autoFilter ref="A1:A1"/>'),
             "setup": ("", '<sheetPr filterMode="1"><pageSetUpPr fitToPage="1"/></sheetPr>', '<pageMargins left="0.7" right="0.7" top="0.75" bottom="0.75" header="0.3" footer="0.3"/>')},
}


def _deco(kind, it):
    """(attributes, children in front, children behind) of item `it`"""
    parts = [DECO[kind][n] for n in it.get("deco", ()) if n in DECO[kind]]
    return "".join(p[0] for p in parts), "".join(p[1] for p in parts), "".join(p[2] for p in parts)


def build_xlsx(items):
    """items in workbook order: [{"name", "id" (sheetId), "part" (number in the part name / relationship id), "text"}]"""
    by_part = sorted(items, key=lambda it: it["part"])
    b = io.BytesIO()
    with zipfile.ZipFile(b, "w") as z:
        z.writestr("[Content_Types].xml", '<Types xmlns="http://schemas.openxmlformats.org/package/2006/content-types">'
                   '<Default Extension="rels" ContentType="application/vnd.openxmlformats-package.relationships+xml"/>'
                   '<Default Extension="xml" ContentType="application/xml"/>'
                   '<Override PartName="/xl/workbook.xml" ContentType="application/vnd.openxmlformats-officedocument.spreadsheetml.sheet.main+xml"/>'
                   + "".join(f'<Override PartName="/xl/worksheets/sheet{it["part"]}.xml" ContentType="application/vnd.openxmlformats-officedocument.spreadsheetml.worksheet+xml"/>' for it in items)
                   + "</Types>")
        z.writestr("_rels/.rels", f'<Relationships xmlns="http://schemas.openxmlformats.org/package/2006/relationships"><Relationship Id="rId1" Type="{RNS}/officeDocument" Target="xl/workbook.xml"/></Relationships>')
        z.writestr("xl/workbook.xml", f'<workbook xmlns="http://schemas.openxmlformats.org/spreadsheetml/2006/main" xmlns:r="{RNS}"><sheets>'
                   + "".join(f'<sheet name="{_xml(it["name"])}" sheetId="{it["id"]}"' + (f' state="{it["hidden"]}"' if it.get("hidden") else "")
                             + f' r:id="rId{it["part"]}"/>' for it in items) + "</sheets></workbook>")
        z.writestr("xl/_rels/workbook.xml.rels", '<Relationships xmlns="http://schemas.openxmlformats.org/package/2006/relationships">'
                   + "".join(f'<Relationship Id="rId{it["part"]}" Type="{RNS}/worksheet" Target="worksheets/sheet{it["part"]}.xml"/>' for it in by_part) + "</Relationships>")
        for it in by_part:
            cell = f'<row r="1"><c r="A1" t="inlineStr"><is><t xml:space="preserve">{_xml(it["text"])}</t></is></c></row>' if it["text"] else ""
            _, pre, post = _deco("xlsx", it)
            z.writestr(f'xl/worksheets/sheet{it["part"]}.xml', f'<worksheet xmlns="http://schemas.openxmlformats.org/spreadsheetml/2006/main">{pre}<sheetData>{cell}</sheetData>{post}</worksheet>')
    b.seek(0)
    return b


def build_odf(kind, items):
    mt = {"odp": "application/vnd.oasis.opendocument.presentation", "ods": "application/vnd.oasis.opendocument.spreadsheet"}[kind]
    tag = {"odp": "presentation", "ods": "spreadsheet"}[kind]
    if kind == "odp":
        styles = ('<office:automatic-styles><style:style style:name="dpH" style:family="drawing-page"><style:drawing-page-properties '
                  'presentation:visibility="hidden"/></style:style></office:automatic-styles>')
        body = "".join(f'<draw:page draw:name="{_xml(it["name"])}" draw:id="id{it["id"]}" draw:master-page-name="Default"'
                       + (' draw:style-name="dpH"' if it.get("hidden") else "") + _deco("odp", it)[0] + ">" + _deco("odp", it)[1]
                       + (f'<draw:frame svg:x="1cm" svg:y="1cm" svg:width="5cm" svg:height="2cm"><draw:text-box><text:p>{_xml(it["text"])}</text:p></draw:text-box></draw:frame>' if it["text"] else "")
                       + _deco("odp", it)[2] + "</draw:page>" for it in items)
    else:
        styles = ('<office:automatic-styles><style:style style:name="taH" style:family="table"><style:table-properties '
                  'table:display="false"/></style:style></office:automatic-styles>')
        body = "".join(f'<table:table table:name="{_xml(it["name"])}"' + (' table:style-name="taH"' if it.get("hidden") else "") + _deco("ods", it)[0]
                       + '>' + _deco("ods", it)[1] + '<table:table-row><table:table-cell office:value-type="string">'
                       f'<text:p>{_xml(it["text"])}</text:p></table:table-cell></table:table-row>' + _deco("ods", it)[2] + '</table:table>' for it in items)
    b = io.BytesIO()
    with zipfile.ZipFile(b, "w") as z:
        z.writestr(zipfile.ZipInfo("mimetype"), mt)
        z.writestr("content.xml", f'<?xml version="1.0" encoding="UTF-8"?><office:document-content {ODF_NS} office:version="1.2">{styles}<office:body>'
                                  f'<office:{tag}>{body}</office:{tag}></office:body></office:document-content>')
        z.writestr("META-INF/manifest.xml", '<?xml version="1.0" encoding="UTF-8"?><manifest:manifest xmlns:manifest="urn:oasis:names:tc:opendocument:xmlns:manifest:1.0" manifest:version="1.2">'
                   f'<manifest:file-entry manifest:full-path="/" manifest:media-type="{mt}"/><manifest:file-entry manifest:full-path="content.xml" manifest:media-type="text/xml"/></manifest:manifest>')
    b.seek(0)
    return b


def gen_seq_doc(rng):
    """{"kind": xlsx|ods|odp, "items": [...]} — k sheets / pages in document order; names, ids and part numbers are drawn
    independently of that order (a workbook whose sheets were re-ordered / renamed / inserted after creation); some
    sheets / pages are empty."""
    kind = rng.choice(["xlsx", "ods", "odp"])
    k = rng.randint(1, 6)
    names = rng.sample(["Zeta", "Alpha", "Mid", "Sheet10", "Sheet2", "Sheet1", "page3", "page1", "B", "a", "Übersicht", "10", "9"], k)
    ids = rng.sample(range(1, 4 * k + 1), k)
    parts = list(range(1, k + 1))
    rng.shuffle(parts)
    items = [{"name": names[i], "id": ids[i], "part": parts[i], "text": rng.choice([f"TOK{i + 1}", f"TOK{i + 1}", f"TOK{i + 1}", ""]),
              # a hidden sheet / slide is still a sheet / slide of the document
              "hidden": rng.choice([None, None, None, "hidden", "veryHidden" if kind == "xlsx" else "hidden"])} for i in range(k)]
    # some sheets / pages carry what real documents carry on ordinary sheets: a link to the file the sheet was inserted from,
    # scenarios, forms, protection, print settings, tab colours, animations …
    for it in items:
        if rng.random() < 0.45:
            it["deco"] = sorted(rng.sample(sorted(DECO[kind]), rng.randint(1, 2)))
    return {"kind": kind, "items": items}


def deco_seq_docs():
    """seed-independent: for every kind and EVERY decoration a three-part document whose middle part (and, second document, whose
    first part) carries it — the decorated part keeps its unit, the parts behind it keep their numbers"""
    out = []
    for kind in ("xlsx", "ods", "odp"):
        for name in sorted(DECO[kind]):
            for pos in (1, 0):
                items = [{"name": f"S{i + 1}", "id": i + 1, "part": i + 1, "text": f"TOK{i + 1}", "hidden": None} for i in range(3)]
                items[pos]["deco"] = [name]
                out.append({"kind": kind, "items": items})
    return out


def seq_doc_check(d):
    """one unit per sheet / page, numbered by document position, unit k holding item k's token and nobody else's,
    full text = trimmed newline-join of the unit texts (xlsx, ods, odp are all in the statement's list). -> [(key, what)]"""
    kind, items = d["kind"], d["items"]
    try:
        if kind == "xlsx":
            from sharepoint2text.parsing.extractors.ms_modern.xlsx_extractor import read_xlsx
            res = next(read_xlsx(build_xlsx(items)))
        elif kind == "ods":
            from sharepoint2text.parsing.extractors.open_office.ods_extractor import read_ods
            res = next(read_ods(build_odf("ods", items)))
        else:
            from sharepoint2text.parsing.extractors.open_office.odp_extractor import read_odp
            res = next(read_odp(build_odf("odp", items)))
        us = [(u.get_metadata().unit_number, u.get_text()) for u in res.iterate_units()]
        full = res.get_full_text()
    except Exception as e:  # noqa: BLE001
        return [(f"{kind}.raises", f"read_{kind} raised {type(e).__name__}: {e}")]
    what = "sheets" if kind != "odp" else "pages"
    if [n for n, _ in us] != list(range(1, len(items) + 1)):
        return [(f"{kind}.units-do-not-mirror-{what}", f"{kind} with {len(items)} {what} {[(it['name'], it['text']) for it in items]} gave units {us}")]
    for it, (n, t) in zip(items, us):
        toks = re.findall(r"TOK\d+", t)
        if toks != ([it["text"]] if it["text"] else []) or (kind != "odp" and it["name"] not in t):
            return [(f"{kind}.units-do-not-mirror-{what}", f"{kind} {what} in document order {[(it['name'], it['text']) for it in items]} "
                                                          f"(ids {[it['id'] for it in items]}, part numbers {[it['part'] for it in items]}, hidden {[bool(it.get('hidden')) for it in items]}) gave units {us}")]
    if full != "\n".join(t for _, t in us).strip():
        return [(f"{kind}.full-text-not-join-of-units", f"{kind}: get_full_text()={full!r:.80} is not the trimmed newline-join of the unit texts {us!r:.120}")]
    return []


def epub_case_check(d):
    """one EPUB package on the real extractor: one unit per spine item that names an existing content document, numbered
    by SPINE position, holding that document's token. -> [(key, what)]"""
    from sharepoint2text.parsing.extractors.epub_extractor import read_epub
    try:
        res = next(read_epub(build_epub([tuple(i) for i in d["items"]], d["spine"], d["files"])))
        us = [(u.get_metadata().unit_number, u.get_text().strip()) for u in res.iterate_units()]
        full = res.get_full_text()
        joined = "\n".join(u.get_text() for u in res.iterate_units()).strip()
    except Exception as e:  # noqa: BLE001
        return [("epub.raises", f"read_epub raised {type(e).__name__}")]
    href = {i[0]: i[1] for i in d["items"]}
    want = [(k + 1, d["files"][href[s]].rstrip("~")) for k, s in enumerate(d["spine"]) if href.get(s) in d["files"]]
    if us != want:
        return [("epub.units-do-not-mirror-spine", f"epub spine {d['spine']} (manifest {d['items']}) gave units {us}, expected {want}")]
    if full != joined:
        return [("epub.full-text-not-join-of-units", "epub full text differs from the join of its units")]
    return []


def e2e_checks(rng, n):
    """token files through the real extractors: [(key, what, replay)]"""
    from sharepoint2text.parsing.extractors.ms_modern.pptx_extractor import read_pptx
    from sharepoint2text.parsing.extractors.epub_extractor import read_epub
    from sharepoint2text.parsing.extractors.ms_legacy.rtf_extractor import read_rtf
    from sharepoint2text.parsing.extractors.mail.mbox_email_extractor import read_mbox_format_mail
    out = []
    # systematic part (independent of the seed): for EVERY kind of unclosed tail a book whose first / middle chapter ends
    # inside it — the chapters behind it keep their numbers AND their text
    for tail_no, tail in enumerate(EPUB_TAILS):
        for pos in (0, 1):
            files = {f"c{j}.xhtml": f"TOK{j + 1}" for j in range(3)}
            # build_epub picks the tail from a hash of name + text: choose a file name that selects THIS tail
            nm = next(f"c{pos}x{k}.xhtml" for k in range(2000)
                      if EPUB_TAILS[sum(map(ord, f"c{pos}x{k}.xhtml" + f"TOK{pos + 1}~")) % len(EPUB_TAILS)] == tail)
            files = {(nm if j == pos else f"c{j}.xhtml"): f"TOK{j + 1}" + ("~" if j == pos else "") for j in range(3)}
            items = [(f"it{j}", fn, "application/xhtml+xml") for j, fn in enumerate(files)]
            spine = [f"it{j}" for j in range(3)]
            rep = {"epub": {"items": [list(i) for i in items], "spine": spine, "files": files}}
            try:
                res = next(read_epub(build_epub(items, spine, files)))
                us = [(u.get_metadata().unit_number, u.get_text().strip()) for u in res.iterate_units()]
                want = [(j + 1, f"TOK{j + 1}") for j in range(3)]
                if us != want:
                    out.append(("epub.units-do-not-mirror-spine", f"epub of 3 chapters, chapter {pos + 1} ends inside {tail!r}: units {us}, expected {want}", rep))
            except Exception as e:  # noqa: BLE001
                out.append(("epub.raises", f"read_epub raised {type(e).__name__}", rep))
    for d in deco_seq_docs():
        for key, what in seq_doc_check(d):
            out.append((key, what, {"seq_doc": d}))
    for _ in range(n):
        # PPTX: slide k carries TOKk only; presentation order is a permutation; a part may be missing
        m = rng.randint(0, 6)
        order = list(range(1, m + 1))
        rng.shuffle(order)
        files = {f"ppt/slides/slide{i}.xml": f"TOK{i}" for i in range(1, m + 1)}
        if m and rng.random() < 0.4:
            del files[f"ppt/slides/slide{rng.randint(1, m)}.xml"]
        rels = [(f"rId{i}", f"slides/slide{i}.xml", SLIDE_T) for i in range(1, m + 1)] + [("rIdM", "slideMasters/slideMaster1.xml", MASTER_T)]
        rng.shuffle(rels)
        ids = [f"rId{i}" for i in order]
        nums = gen_num_ids(rng, m, False)        # creation ids of a deck that was edited: not ascending in show order
        hid = sorted(nm for nm in files if rng.random() < 0.2)      # hidden slides (show="0") are slides of the deck
        rep = {"pptx": {"files": files, "ids": ids, "rels": [list(r) for r in rels], "num_ids": nums, "hidden": hid}}
        for key, what in pptx_case_check(files, ids, rels, nums, hid):
            out.append((key, what, rep))
        # EPUB
        items, spine, files, kept, toks = gen_epub_case(rng, True)
        rep = {"epub": {"items": [list(i) for i in items], "spine": spine, "files": files}}
        try:
            res = next(read_epub(build_epub(items, spine, files)))
            us = [(u.get_metadata().unit_number, u.get_text().strip()) for u in res.iterate_units()]
            want = [(i + 1, t) for i, t in enumerate(toks) if t]
            if us != want:
                out.append(("epub.units-do-not-mirror-spine", f"epub spine {toks} gave units {us}, expected {want}", rep))
            elif res.get_full_text() != "\n".join(u.get_text() for u in res.iterate_units()).strip():
                out.append(("epub.full-text-not-join-of-units", "epub full text differs from the join of its units", rep))
        except Exception as e:  # noqa: BLE001
            out.append(("epub.raises", f"read_epub raised {type(e).__name__}", rep))
        # RTF: page k carries TOKk (or nothing), some pages carry a picture
        m = rng.randint(2, 6)
        pieces = [rng.choice([f"TOK{i + 1}", f"TOK{i + 1}", f"T\U0001f600K{i + 1}", f"\U0001d49c\U0001f4c4 TOK{i + 1}", "", " "]) for i in range(m)]
        picts = sorted(rng.sample(range(m), rng.choice([0, 1, 2])))
        rep = {"rtf": {"pieces": pieces, "pict_after": picts}}
        try:
            res = next(read_rtf(io.BytesIO(build_rtf(pieces, picts))))
            us = [(u.get_metadata().unit_number, u.get_text().strip(), len(u.get_images())) for u in res.iterate_units()]
            want = [(i + 1, p.strip(), 1 if i in picts else 0) for i, p in enumerate(pieces)]
            if us != want:
                moved = [(n, i) for n, _, i in us] == [(n, i) for n, _, i in want]     # numbers and pictures right, text in the wrong unit
                out.append(("rtf.text-in-wrong-unit" if moved else "rtf.page-without-unit",
                            f"rtf pages {pieces} (pictures on pages {[i + 1 for i in picts]}) gave units {us}, expected {want}", rep))
        except Exception as e:  # noqa: BLE001
            out.append(("rtf.raises", f"read_rtf raised {type(e).__name__}", rep))
        # RTF as an event stream: any spelling of any character (pairs of \\uN for characters beyond U+FFFF), groups, both break words
        pages = gen_rtf_pages(rng, False)
        rtf, _ = rtf_encode_pages(rng, pages, False)
        expd = rtf_doc_expected(pages)
        if expd is not None:
            for key, what in rtf_doc_check(rtf, expd):
                out.append((key, what, {"rtf_doc": {"rtf": rtf, "pages": expd}}))
        # XLSX / ODS / ODP: sheet / page k carries TOKk; names, ids, part numbers are not in document order
        d = gen_seq_doc(rng)
        for key, what in seq_doc_check(d):
            out.append((key, what, {"seq_doc": d}))
        # mbox: message k carries TOKk
        m = rng.randint(1, 5)
        days = [rng.randint(1, 28) for _ in range(m + 1)]       # mailbox order is file order, not date / subject / sender order
        subj = [rng.choice(["zz", "aa", "Re: s", "s"]) for _ in range(m + 1)]
        data = "".join(f"From s{9 - i}@x.org Mon Jan {days[i]:2d} 00:00:0{i} 2024\nFrom: s{9 - i}@x.org\nDate: Mon, {days[i]} Jan 2024 00:00:00 +0000\n"
                       f"Message-ID: <m{rng.randint(0, 2)}@x.org>\nSubject: {subj[i]}{rng.choice([i, 0])}\n\nTOK{i}\n\n" for i in range(1, m + 1)).encode()
        # (Message-IDs and subjects repeat: a message stored twice, e.g. after a re-import, is still two messages of the mailbox)
        rep = {"mbox": data.decode("latin-1")}
        try:
            res = list(read_mbox_format_mail(io.BytesIO(data)))
            us = [[(u.get_metadata().unit_number, u.get_text().strip()) for u in r.iterate_units()] for r in res]
            if us != [[(1, f"TOK{i}")] for i in range(1, m + 1)]:
                out.append(("mbox.units-do-not-mirror-messages", f"mbox with {m} messages gave {us}", rep))
        except Exception as e:  # noqa: BLE001
            out.append(("mbox.raises", f"read_mbox raised {type(e).__name__}", rep))
    return out


def ppt_doc_check(lst, cont, raw):
    """PPT assembly on the real code: unit numbers strictly increasing from 1. -> [(key, what)]"""
    from sharepoint2text.parsing.extractors.ms_legacy import ppt_extractor as PE
    D = _dt()
    mk = lambda ss: [[PE._make_text_block(b["text"], b["tt"]) for b in s] for s in ss]
    saved = (PE._extract_slide_list_texts, PE._parse_containers, PE._extract_all_text_raw)
    try:
        PE._extract_slide_list_texts = lambda data: mk(lst)
        PE._parse_containers = lambda data: {"slides": mk(cont), "notes": [], "master": []}
        PE._extract_all_text_raw = lambda data: list(raw)
        content = D.PptContent()
        PE._parse_ppt_document(b"", content)
    finally:
        PE._extract_slide_list_texts, PE._parse_containers, PE._extract_all_text_raw = saved
    ns = [u.get_metadata().unit_number for u in content.iterate_units()]
    if not _strictly_increasing_positive(ns):
        return [("ppt.numbers-not-strictly-increasing", f"ppt: slide list {[[b['text'] for b in s] for s in lst]}, container slides {[[b['text'] for b in s] for s in cont]}, raw text {raw} gave unit numbers {ns}")]
    return []


def ppt_fixture_check(path):
    import sharepoint2text
    res = next(sharepoint2text.read_file(os.path.join(_repo(), path)))
    ns = [u.get_metadata().unit_number for u in res.iterate_units()]
    out = []
    if not _strictly_increasing_positive(ns):
        out.append(("ppt.numbers-not-strictly-increasing", f"{path}: unit numbers {ns[:10]}"))
    return out, res


def _viol(out, key, what, rep):
    if not any(v.key == key for v in out):
        out.append(Violation(key, what, rep))


def _oracle(ctx, seeds, budget):
    out = []
    rng = ctx.rng
    # seeds from the broken correspondence cases first
    for c in seeds:
        if "req" in c:
            r = c["req"]
            try:
                for key, what in check_object(r) + (check_cover(r) if r["fmt"] in ("docx", "doc", "odt") and _is_token(r) else []):
                    _viol(out, key, what, {"req": r})
            except Exception:
                pass
        if "pptx" in c:
            d = c["pptx"]
            for key, what in pptx_case_check(d["files"], d["ids"], [tuple(r) for r in d["rels"]], d.get("num_ids"), d.get("hidden", ())):
                _viol(out, key, what, {"pptx": d})
        if "rtf_doc" in c and c["rtf_doc"].get("pages") is not None:
            d = c["rtf_doc"]
            for key, what in rtf_doc_check(d["rtf"], d["pages"]):
                _viol(out, key, what, {"rtf_doc": d})
        if "epub" in c:
            for key, what in epub_case_check(c["epub"]):
                _viol(out, key, what, {"epub": c["epub"]})
        if "ppt_doc" in c:
            d = c["ppt_doc"]
            for key, what in ppt_doc_check(d["list"], d["cont"], d["raw"]):
                _viol(out, key, what, {"ppt_doc": d})
        if "pdf" in c:
            for key, what in B.pdf_check(c["pdf"]):
                _viol(out, key, what, {"pdf": B.shrink_pdf(c["pdf"])})
        if "mbox_tok" in c:
            for key, what in B.mbox_tok_check(c["mbox_tok"]):
                _viol(out, key, what, {"mbox_tok": B.shrink_mbox(c["mbox_tok"])})
        if "walk" in c:
            for key, what in W.check(c["walk"]):
                _viol(out, key, what, {"walk": W.shrink(c["walk"])})
        if "carrier_doc" in c:
            K.reset_support()
            d = K.shrink(c["carrier_doc"])
            for key, what in K.check(d):
                _viol(out, key, what, {"carrier_doc": d})
    # fixtures
    for path, obj in fixtures():
        r = ser(obj)
        if r is None or _has_surrogate(r):
            continue
        for key, what in check_object(r, obj):
            _viol(out, key, f"{path}: {what}", {"fixture": path})
    # generated objects: generic clauses
    for wild in (False, True):
        for fmt in FORMATS:
            for _ in range(budget):
                r = gen_req(rng, fmt, wild)
                for key, what in check_object(r):
                    _viol(out, key, what, {"req": r})
    # token documents: coverage
    for _ in range(budget * 12):
        for r in (token_docx(rng), token_odt(rng), token_doc(rng)):
            for key, what in check_cover(r):
                _viol(out, key, what, {"req": r, "cover": True})
    # PPT assembly
    for _ in range(budget * 6):
        lst = [[{"text": "t", "tt": rng.choice([0, 1, None])} for _ in range(rng.choice([0, 0, 1, 2]))] for _ in range(rng.choice([0, 1, 2, 3]))]
        raw = [f"raw{i}" for i in range(rng.choice([0, 1, 2]))]
        for key, what in ppt_doc_check(lst, [], raw):
            _viol(out, key, what, {"ppt_doc": {"list": lst, "cont": [], "raw": raw}})
    # real files
    for key, what, rep in e2e_checks(rng, budget):
        _viol(out, key, what, rep)
    # every walk, not only the first complete one: abandoned / suspended / interleaved walks, get_full_text in between, copies
    for key, what, rep in W.e2e(rng, budget):
        _viol(out, key, what, rep)
    # composed slides: every carrier kind, several paragraphs, several carriers, slide-local relationship ids
    for key, what, rep in K.e2e(rng, budget * 4):
        _viol(out, key, what, rep)
    # written mailboxes (delimiter look-alike body lines) and PDFs whose pages share objects
    for key, what, rep in B.e2e(rng, budget):
        if not any(v.key == key for v in out):
            if "pdf" in rep:
                rep = {"pdf": B.shrink_pdf(rep["pdf"])}
                what = (B.pdf_check(rep["pdf"]) or [(key, what)])[0][1]
            elif "mbox_tok" in rep:
                rep = {"mbox_tok": B.shrink_mbox(rep["mbox_tok"])}
                what = (B.mbox_tok_check(rep["mbox_tok"]) or [(key, what)])[0][1]
            _viol(out, key, what, rep)
    return out


def _is_token(r):
    texts = [p["text"].strip() for p in r.get("paragraphs", [])] if r["fmt"] != "doc" else [l.strip() for l in r["main_text"].splitlines()]
    texts = [t for t in texts if t]
    return len(set(texts)) == len(texts) and all("\n" not in t and not any(t != u and t in u for u in texts) for t in texts)


KNOWN_KEYS = {"docx.text-before-first-heading-dropped", "odt.heading-not-covered", "doc.heading-not-covered", "odt.no-unit", "doc.no-unit",
              "ppt.empty-slide-dropped", "ppt.slide-list-duplicated"}


def search(ctx, broken):
    seeds = [b.case for b in broken if b.case]
    found = _oracle(ctx, seeds, ctx.n(25, 120))
    # open known findings are reported by known_witnesses under their own keys; do not let them mask a new failure
    return [v for v in found if v.key not in KNOWN_KEYS]


# ----------------------------------------------------------------------------- open known findings
def _docx_preamble_witness():
    return docx_req([("pre", None, False), ("H", "Heading 1", False), ("body", None, False)], "pre\nH\nbody")


ODT_EMPTY_HEADING = {"fmt": "odt", "title": "", "full_text": "A\nB\nbar", "n_tables": 0, "n_images": 0,
                     "paragraphs": [{"text": "A", "outline": 1, "style": ""}, {"text": "B", "outline": 1, "style": ""}, {"text": "bar", "outline": None, "style": ""}]}
ODT_ONLY_HEADING = {"fmt": "odt", "title": "", "full_text": "A", "n_tables": 0, "n_images": 0, "paragraphs": [{"text": "A", "outline": 1, "style": ""}]}
DOC_EMPTY_HEADING = {"fmt": "doc", "main_text": "Chapter 1\nChapter 2\nbody", "title": "", "tables": []}
DOC_ONLY_HEADING = {"fmt": "doc", "main_text": "Chapter 1", "title": "", "tables": []}
PPT_EMPTY_SLIDE = [("p",), ("t", RT_TEXT_BYTES, b"A"), ("p",), ("p",), ("t", RT_TEXT_BYTES, b"C")]
PPT_DUP_FIXTURE = "sharepoint2text/tests/resources/legacy_ms/eurouni2.ppt"


def known_witnesses(ctx):
    out = []
    gone = []
    for key, req in (("docx.text-before-first-heading-dropped", _docx_preamble_witness()), ("odt.heading-not-covered", ODT_EMPTY_HEADING), ("odt.no-unit", ODT_ONLY_HEADING),
                     ("doc.heading-not-covered", DOC_EMPTY_HEADING), ("doc.no-unit", DOC_ONLY_HEADING)):
        hit = [w for k, w in check_cover(req) if k == key]
        if hit:
            out.append(Violation(key, hit[0], {"req": req, "cover": True}))
        else:
            gone.append(key)
    from sharepoint2text.parsing.extractors.ms_legacy import ppt_extractor as PE
    slides = PE._parse_slide_list_container(ppt_records_bytes(PPT_EMPTY_SLIDE))
    if len(slides) != 3:
        out.append(Violation("ppt.empty-slide-dropped", f"SlideListWithText with 3 SlidePersistAtoms (texts A, -, C) yields {len(slides)} slides "
                             f"{[[b.text for b in s] for s in slides]}: the empty slide is dropped and slide 3 is numbered 2",
                             {"ppt_records": [list(map(lambda x: x.hex() if isinstance(x, bytes) else x, r)) for r in PPT_EMPTY_SLIDE]}))
    else:
        gone.append("ppt.empty-slide-dropped")
    try:
        _, res = ppt_fixture_check(PPT_DUP_FIXTURE)
        texts = [u.get_text() for u in res.iterate_units()]
        half = len(texts) // 2
        if len(texts) > res.metadata.num_slides and texts[:half] == texts[half:]:
            out.append(Violation("ppt.slide-list-duplicated", f"{PPT_DUP_FIXTURE}: {len(texts)} units for a deck of {res.metadata.num_slides} slides; "
                                 f"units {half + 1}..{len(texts)} repeat units 1..{half} (two SlideListWithText records are both read)", {"fixture": PPT_DUP_FIXTURE}))
        else:
            gone.append("ppt.slide-list-duplicated")
    except Exception as e:  # noqa: BLE001
        ctx.notes.append(f"known witness {PPT_DUP_FIXTURE} could not be evaluated: {e!r}")
    if gone:
        ctx.notes.append("known-finding witnesses that no longer fail (entry can be closed): " + ", ".join(gone))
    return out


# ----------------------------------------------------------------------------- replay
def replay(ctx, payload):
    rep = payload.get("replay", {})
    msgs = []
    if "req" in rep:
        r = rep["req"]
        res = check_object(r)
        if rep.get("cover") or (r["fmt"] in ("docx", "doc", "odt") and _is_token(r)):
            res += check_cover(r)
        msgs = [w for _, w in res]
    elif "fixture" in rep:
        for path, obj in fixtures():
            if path == rep["fixture"]:
                r = ser(obj)
                msgs += [w for _, w in check_object(r, obj)]
        if rep["fixture"] == PPT_DUP_FIXTURE:
            msgs += [v.what for v in known_witnesses(ctx) if v.key == "ppt.slide-list-duplicated"]
    elif "ppt_doc" in rep:
        d = rep["ppt_doc"]
        msgs = [w for _, w in ppt_doc_check(d["list"], d["cont"], d["raw"])]
    elif "ppt_records" in rep:
        from sharepoint2text.parsing.extractors.ms_legacy import ppt_extractor as PE
        recs = [tuple(bytes.fromhex(x) if (i == 2 and isinstance(x, str)) else x for i, x in enumerate(r)) for r in rep["ppt_records"]]
        n_persist = sum(1 for r in recs if r[0] == "p")
        slides = PE._parse_slide_list_container(ppt_records_bytes(recs))
        if len(slides) != n_persist:
            msgs = [f"{n_persist} SlidePersistAtoms but {len(slides)} slides"]
    elif "rtf" in rep:
        from sharepoint2text.parsing.extractors.ms_legacy.rtf_extractor import read_rtf
        pieces, picts = rep["rtf"]["pieces"], rep["rtf"]["pict_after"]
        res = next(read_rtf(io.BytesIO(build_rtf(pieces, picts))))
        us = [(u.get_metadata().unit_number, u.get_text().strip(), len(u.get_images())) for u in res.iterate_units()]
        want = [(i + 1, p.strip(), 1 if i in picts else 0) for i, p in enumerate(pieces)]
        if us != want:
            msgs = [f"rtf pages {pieces} gave units {us}, expected {want}"]
    elif "pptx" in rep:
        d = rep["pptx"]
        msgs = [w for _, w in pptx_case_check(d["files"], d["ids"], [tuple(r) for r in d["rels"]], d.get("num_ids"), d.get("hidden", ()))]
    elif "rtf_doc" in rep:
        d = rep["rtf_doc"]
        if d.get("pages") is None:
            return False, "replay names a broken correspondence case without a well-formed text (unpaired surrogate halves)"
        msgs = [w for _, w in rtf_doc_check(d["rtf"], d["pages"])]
    elif "epub" in rep:
        msgs = [w for _, w in epub_case_check(rep["epub"])]
    elif "seq_doc" in rep:
        msgs = [w for _, w in seq_doc_check(rep["seq_doc"])]
    elif "walk" in rep:
        msgs = [w for _, w in W.check(rep["walk"])]
    elif "pdf" in rep:
        msgs = [w for _, w in B.pdf_check(rep["pdf"])]
    elif "mbox_tok" in rep:
        msgs = [w for _, w in B.mbox_tok_check(rep["mbox_tok"])]
    elif "carrier_doc" in rep:
        K.reset_support()
        msgs = [w for _, w in K.check(rep["carrier_doc"])]
    elif "rtf_look" in rep or "dup" in rep:
        msgs = [w for _, w in B.single_check(rep)]
    elif "history" in rep:
        msgs = [w for _, w in B.history_check(rep["history"])]
    elif "mbox" in rep:
        from sharepoint2text.parsing.extractors.mail.mbox_email_extractor import read_mbox_format_mail
        data = rep["mbox"].encode("latin-1")
        res = list(read_mbox_format_mail(io.BytesIO(data)))
        n = len(re.findall(rb"(?m)^From \S+ .*\d{4}$", data))
        if len(res) != n or any([u.get_metadata().unit_number for u in r.iterate_units()] != [1] for r in res):
            msgs = [f"mbox with {n} messages gave {len(res)} results"]
    else:
        return False, "replay names a broken obligation, not an input: " + payload.get("what", "")
    return (not msgs), "; ".join(msgs) or "property holds on the recorded input"
