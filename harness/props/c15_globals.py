"""C15 — interpreter-global SETTINGS and REGISTRIES (part of harness/props/c15.py; no dependency on run.py so that a
pristine interpreter can import it).

Three generalisations of what C15 did for the one PDF patch section:

1. `settings_snapshot()` / `registries_snapshot()`: what "the process-global state the library touches" means beyond the
   package's own module attributes — interpreter-wide SETTINGS with a setter (recursion limit, switch interval, locale,
   decimal contexts, warnings filters, socket default timeout, csv field size limit, int-max-str-digits, gc, signal
   handlers, hooks, sys.path ...) and the REGISTRIES a module can extend at import time or at first use (codec search
   functions probed with NON-STANDARD charset labels, codec error handlers, encodings.aliases, email.charset tables,
   mimetypes maps, copyreg, atexit, xml namespace map, csv dialects, shutil formats, logging levels / handlers).
2. `SectionCtl` + `check_setting_interleaving`: the line-granularity scheduler of the PDF patch section for ANY function of the
   package that calls a setter of an interpreter-global setting (`setting_writers()`: AST of the current source, import
   aliases resolved): two real threads extract real documents (incl. documents nested deeper than the default recursion
   limit), each is paused before every source line of every such function; schedules 'A runs i steps, B runs j steps,
   A drains, B drains'; both results must equal the isolated baseline and the settings must be back afterwards.
3. `run_import_chain`: ORDER HISTORIES over the lazily imported extractor modules in a PRISTINE interpreter: for a
   permutation of the router's extractor modules (and its reverse) — third-party / stdlib imports of the module first, then
   the package module through the router, then a first (failing and healthy) extraction of that type — the registries are
   compared across the package's own part of the step and every probe document (documents that declare charset labels
   Python does not know, names looked up in mimetypes, ordinary fixtures) whose extractor is already loaded is re-extracted
   after every step and compared with its first result.
"""
from __future__ import annotations

import ast
import hashlib
import json
import os
import re
import subprocess
import sys
import threading
import time

HERE = os.path.dirname(os.path.abspath(__file__))

# ---------------------------------------------------------------------------------------------------------------
#  setters of interpreter-global settings / registries (dotted names after alias resolution; prefix match)
# ---------------------------------------------------------------------------------------------------------------
SETTERS = (
    "sys.setrecursionlimit", "sys.setswitchinterval", "sys.set_int_max_str_digits", "sys.settrace", "sys.setprofile",
    "sys.setdlopenflags", "sys.excepthook", "sys.set_asyncgen_hooks", "sys.path", "sys.meta_path", "sys.path_hooks",
    "threading.settrace", "threading.setprofile", "threading.excepthook", "threading.stack_size",
    "locale.setlocale", "locale.resetlocale",
    "decimal.setcontext", "decimal.getcontext", "decimal.DefaultContext", "decimal.BasicContext", "decimal.ExtendedContext",
    "warnings.filterwarnings", "warnings.simplefilter", "warnings.resetwarnings", "warnings.catch_warnings", "warnings.filters",
    "warnings.showwarning", "warnings.formatwarning",
    "socket.setdefaulttimeout", "csv.field_size_limit", "csv.register_dialect", "csv.unregister_dialect",
    "os.environ", "os.putenv", "os.unsetenv", "os.chdir", "os.fchdir", "os.umask", "os.nice", "os.setpriority",
    "gc.disable", "gc.enable", "gc.set_threshold", "gc.freeze", "gc.set_debug",
    "signal.signal", "signal.alarm", "signal.setitimer", "signal.set_wakeup_fd",
    "random.seed", "random.setstate", "time.tzset", "resource.setrlimit", "faulthandler.enable", "faulthandler.disable",
    "logging.disable", "logging.basicConfig", "logging.setLoggerClass", "logging.addLevelName", "logging.setLogRecordFactory",
    "logging.captureWarnings", "logging.raiseExceptions",
    "codecs.register", "codecs.unregister", "codecs.register_error", "encodings.aliases", "encodings.normalize_encoding",
    "email.charset.add_charset", "email.charset.add_alias", "email.charset.add_codec", "charset.add_charset", "charset.add_alias",
    "charset.add_codec", "email.charset.CHARSETS", "email.charset.ALIASES", "email.charset.CODEC_MAP",
    "mimetypes.add_type", "mimetypes.init", "mimetypes.types_map", "mimetypes.suffix_map", "mimetypes.encodings_map",
    "mimetypes.common_types", "mimetypes.read_mime_types", "mimetypes.knownfiles",
    "copyreg.pickle", "copyreg.add_extension", "copyreg.remove_extension", "copyreg.constructor", "copyreg.dispatch_table",
    "atexit.register", "atexit.unregister",
    "ET.register_namespace", "ElementTree.register_namespace", "etree.register_namespace", "xml.etree.ElementTree.register_namespace",
    "shutil.register_unpack_format", "shutil.register_archive_format", "shutil.unregister_unpack_format",
    "tempfile.tempdir", "zipfile.ZipFile", "importlib.reload", "importlib.invalidate_caches", "builtins.", "io.DEFAULT_BUFFER_SIZE",
    "tarfile.TarFile.extraction_filter", "html.entities", "unicodedata.", "abc.ABCMeta.register", "typing.", "json.JSONEncoder.default",
    "json.encoder.", "json.decoder.", "re.purge", "linecache.", "ssl.", "http.client.", "urllib.request.install_opener",
)
# reads / uses that are no writes although they share a prefix with a cell above
_READ_ONLY = ("zipfile.ZipFile", "typing.", "unicodedata.", "html.entities", "ssl.", "http.client.", "json.encoder.", "json.decoder.",
              "linecache.", "builtins.")


def _is_setter(dotted, store):
    """is the resolved dotted name one of the global setters?  Cells (no call needed): only when stored into / mutated."""
    for k in SETTERS:
        if dotted == k or dotted.startswith(k + ".") or (k.endswith(".") and dotted.startswith(k)):
            if any(dotted.startswith(r) for r in _READ_ONLY) and not store:
                return False
            return True
    return False


_MUT_METHODS = {"append", "add", "update", "pop", "popitem", "clear", "setdefault", "extend", "insert", "remove", "discard",
                "sort", "reverse", "__setitem__", "__delitem__"}
# calls that ARE the write (a function of the module), as opposed to cells that are written by assignment / mutation
_CELL_NAMES = ("sys.path", "sys.meta_path", "sys.path_hooks", "os.environ", "warnings.filters", "mimetypes.types_map",
               "mimetypes.suffix_map", "mimetypes.encodings_map", "mimetypes.common_types", "mimetypes.knownfiles",
               "copyreg.dispatch_table", "encodings.aliases", "email.charset.CHARSETS", "email.charset.ALIASES",
               "email.charset.CODEC_MAP", "decimal.DefaultContext", "decimal.BasicContext", "decimal.ExtendedContext",
               "tempfile.tempdir", "sys.excepthook", "threading.excepthook", "warnings.showwarning", "warnings.formatwarning",
               "logging.raiseExceptions", "io.DEFAULT_BUFFER_SIZE", "tarfile.TarFile.extraction_filter", "json.JSONEncoder.default")


def package_files(repo):
    root = os.path.join(repo, "sharepoint2text")
    for dp, dns, fns in os.walk(root):
        dns[:] = sorted(d for d in dns if d not in ("tests", "__pycache__"))
        for fn in sorted(fns):
            if fn.endswith(".py"):
                yield os.path.join(dp, fn)


def _aliases(tree):
    """local name -> dotted origin, for every import statement anywhere in the file"""
    al = {}
    for n in ast.walk(tree):
        if isinstance(n, ast.Import):
            for a in n.names:
                if a.asname:
                    al[a.asname] = a.name
                else:
                    al[a.name.split(".")[0]] = a.name.split(".")[0]
        elif isinstance(n, ast.ImportFrom) and n.module and not n.level:
            for a in n.names:
                al[a.asname or a.name] = n.module + "." + a.name
    return al


def _dotted(node, al):
    parts = []
    while isinstance(node, ast.Attribute):
        parts.append(node.attr)
        node = node.value
    if isinstance(node, ast.Call):          # decimal.getcontext().prec = ...
        inner = _dotted(node.func, al)
        return (inner + "()" + ("." + ".".join(reversed(parts)) if parts else "")) if inner else None
    if not isinstance(node, ast.Name):
        return None
    head = al.get(node.id)
    if head is None:
        return None
    return ".".join([head] + list(reversed(parts)))


def setting_writers(repo):
    """[{file, func, lo, hi, cells}]: every function of the package (tests excluded; '<module>' = import time) that calls a
    setter of an interpreter-global setting / registry or stores into such a cell — from the AST of the current source, with
    `import x as y` / `from x import f as g` resolved."""
    out = []
    for path in package_files(repo):
        try:
            with open(path, encoding="utf-8") as fh:
                tree = ast.parse(fh.read(), filename=path)
        except (OSError, SyntaxError):
            continue
        al = _aliases(tree)
        parent = {}
        for n in ast.walk(tree):
            for ch in ast.iter_child_nodes(n):
                parent[ch] = n
        found = {}
        for n in ast.walk(tree):
            hit = None
            if isinstance(n, ast.Call):
                d = _dotted(n.func, al)
                if d and _is_setter(d, False) and d not in _CELL_NAMES:
                    hit = d
                elif isinstance(n.func, ast.Attribute) and n.func.attr in _MUT_METHODS:
                    d2 = _dotted(n.func.value, al)
                    if d2 and any(d2 == c or d2.startswith(c + ".") for c in _CELL_NAMES):
                        hit = d2 + "." + n.func.attr + "()"
            elif isinstance(n, (ast.Attribute, ast.Subscript)) and isinstance(getattr(n, "ctx", None), (ast.Store, ast.Del)):
                d = _dotted(n.value if isinstance(n, ast.Subscript) else n, al)
                if d and (_is_setter(d, True) or "getcontext()" in d):
                    hit = d + ("[]" if isinstance(n, ast.Subscript) else "")
            if hit is None:
                continue
            f, p = None, n
            while p in parent:
                p = parent[p]
                if isinstance(p, (ast.FunctionDef, ast.AsyncFunctionDef)):
                    f = p           # outermost wins: keep climbing
            # a decorated function's code object starts at its first decorator
            key = (f.name, min([f.lineno] + [d.lineno for d in f.decorator_list]), f.end_lineno) if f is not None else ("<module>", 0, 0)
            found.setdefault(key, set()).add(hit)
        for (name, lo, hi), cells in sorted(found.items()):
            out.append({"file": path, "func": name, "lo": lo, "hi": hi, "cells": sorted(cells)})
    return out


# ---------------------------------------------------------------------------------------------------------------
#  snapshots
# ---------------------------------------------------------------------------------------------------------------
def _h(x):
    return hashlib.sha1(repr(x).encode("utf-8", "backslashreplace")).hexdigest()[:12]


_POPULAR_LABELS = ["iso-8859-8-i", "iso-8859-8-e", "iso-8859-6-i", "iso-8859-6-e", "cp-1250", "cp-1251", "cp-1252", "cp-850", "cp-437",
                   "win-1251", "win-1252", "windows-874", "windows-31j", "windows-936", "windows-949", "x-sjis", "x-euc-jp", "x-gbk",
                   "x-mac-roman", "x-mac-cyrillic", "x-windows-949", "x-cp1252", "x-user-defined", "unicode-1-1-utf-7", "utf8mb4",
                   "unknown-8bit", "x-unknown", "visual", "logical", "iso-2022-jp-ms", "x-iso-8859-1", "ansi", "ansi_x3.4-1986x",
                   "dos-862", "dos-720", "x-mac-hebrew", "x-mac-arabic", "koi8-ru", "x-koi8-r", "iso-8859-1-windows-3.1-latin-1",
                   "latin-1-supplement", "ebcdic-cp-us-x", "utf-8-mac", "x-big5", "x-x-big5", "gb_2312", "gb-2312", "ms-ansi", "ms_kanji_x",
                   "binary", "none", "default", "us", "8bit", "7bit", "x-utf-16le-bom", "utf-16-le-bom", "ucs-2", "ucs-4", "iso-10646-ucs-2"]


def codec_labels():
    """charset labels documents declare that THIS interpreter does not resolve when pristine: a fixed list of labels seen in
    the wild + systematic respellings of every codec Python ships (x- prefix, separator before digits, bidi suffixes).
    Labels that resolve already are dropped by the caller's first snapshot (they are then ordinary charsets)."""
    import encodings.aliases
    base = sorted(set(encodings.aliases.aliases.values()))
    labels = list(_POPULAR_LABELS)
    for b in base:
        d = b.replace("_", "-")
        labels.append("x-" + d)
        m = re.match(r"^([a-z]+)(\d+)$", b)
        if m:
            labels.append(m.group(1) + "-" + m.group(2))
        if b.startswith("iso8859"):
            labels += [d + "-i", d + "-e", "iso-8859-" + b[8:] + "-i"]
        if b.startswith("cp125"):
            labels += ["win-" + b[2:], "windows" + b[2:], "x-windows-" + b[2:]]
    seen, out = set(), []
    for lb in labels:
        if lb not in seen:
            seen.add(lb)
            out.append(lb)
    return out


def lookup_label(label):
    import codecs
    try:
        return codecs.lookup(label).name
    except LookupError:
        return None
    except Exception as e:  # noqa: BLE001 - a search function that raises is a registry change too
        return "raises:" + type(e).__name__


def settings_snapshot():
    """interpreter-wide settings that have a setter (values, canonicalised)"""
    import csv
    import decimal
    import gc
    import locale
    import signal
    import socket
    import warnings
    s = {}
    s["set:recursionlimit"] = sys.getrecursionlimit()
    s["set:switchinterval"] = sys.getswitchinterval()
    s["set:int_max_str_digits"] = sys.get_int_max_str_digits() if hasattr(sys, "get_int_max_str_digits") else None
    try:
        s["set:locale"] = locale.setlocale(locale.LC_ALL, None)
    except Exception as e:  # noqa: BLE001
        s["set:locale"] = "err:" + type(e).__name__
    c = decimal.getcontext()
    s["set:decimal.context(this thread)"] = (c.prec, c.rounding, c.Emin, c.Emax, c.capitals, c.clamp,
                                             tuple(sorted(str(k.__name__) for k, v in c.traps.items() if v)))
    d = decimal.DefaultContext
    s["set:decimal.DefaultContext"] = (d.prec, d.rounding, d.Emin, d.Emax, d.capitals, d.clamp,
                                       tuple(sorted(str(k.__name__) for k, v in d.traps.items() if v)))
    s["set:warnings.filters"] = _h([(a, getattr(m, "pattern", m), getattr(c_, "__name__", c_), getattr(md, "pattern", md), ln)
                                    for (a, m, c_, md, ln) in warnings.filters])
    s["set:warnings.showwarning"] = getattr(warnings.showwarning, "__qualname__", "?") + "@" + str(getattr(warnings.showwarning, "__module__", "?"))
    s["set:socket.defaulttimeout"] = socket.getdefaulttimeout()
    s["set:csv.field_size_limit"] = csv.field_size_limit()
    s["set:gc"] = (gc.isenabled(), gc.get_threshold(), gc.get_debug())
    sig = {}
    if threading.current_thread() is threading.main_thread():
        for name in ("SIGINT", "SIGTERM", "SIGALRM", "SIGPIPE", "SIGUSR1", "SIGUSR2", "SIGCHLD"):
            n = getattr(signal, name, None)
            if n is not None:
                hnd = signal.getsignal(n)
                sig[name] = hnd if isinstance(hnd, int) else getattr(hnd, "__qualname__", type(hnd).__name__)
    s["set:signal.handlers"] = tuple(sorted((k, str(v)) for k, v in sig.items()))
    s["set:hooks"] = (getattr(sys.excepthook, "__qualname__", "?"), getattr(threading.excepthook, "__qualname__", "?"),
                      getattr(sys.displayhook, "__qualname__", "?"), sys.getprofile() is None, threading.stack_size())
    s["set:sys.path"] = _h(list(sys.path))
    s["set:sys.meta_path"] = tuple(getattr(x, "__name__", type(x).__name__) for x in sys.meta_path)
    s["set:sys.path_hooks"] = len(sys.path_hooks)
    s["set:stdio"] = (type(sys.stdout).__name__, type(sys.stderr).__name__, type(sys.stdin).__name__)
    s["set:umask-free"] = None
    return s


_REG_STDLIB = ("codecs", "encodings.aliases", "email.charset", "mimetypes", "copyreg", "atexit", "xml.etree.ElementTree", "csv", "shutil",
               "logging", "warnings", "locale", "decimal", "socket", "signal", "gc")


def registries_snapshot(labels=None):
    """registries a module can extend at import time / first use (keys and canonical values)"""
    import atexit
    import codecs
    import copyreg
    import csv
    import email.charset
    import encodings.aliases
    import logging
    import mimetypes
    import shutil
    import xml.etree.ElementTree as ET
    r = {}
    for lb in (labels if labels is not None else codec_labels()):
        r["codec:" + lb] = lookup_label(lb)
    for name in ("strict", "ignore", "replace", "xmlcharrefreplace", "backslashreplace", "namereplace", "surrogateescape", "surrogatepass",
                 "s2t-probe", "html", "htmlreplace", "mail", "mailreplace", "fallback", "lenient", "latin1", "cp1252", "skip", "question",
                 "unicode_escape", "space", "keep", "mixed", "utf8_or_latin1", "smart", "safe", "bestfit", "translit"):
        try:
            r["codec-error:" + name] = getattr(codecs.lookup_error(name), "__name__", "?")
        except LookupError:
            r["codec-error:" + name] = None
    r["encodings.aliases"] = _h(sorted(encodings.aliases.aliases.items()))
    r["email.charset.CHARSETS"] = _h(sorted((k, tuple(v)) for k, v in email.charset.CHARSETS.items()))
    r["email.charset.ALIASES"] = _h(sorted(email.charset.ALIASES.items()))
    r["email.charset.CODEC_MAP"] = _h(sorted((k, str(v)) for k, v in email.charset.CODEC_MAP.items()))
    if not mimetypes.inited:
        mimetypes.init()
    db = getattr(mimetypes, "_db", None)
    for nm in ("types_map", "suffix_map", "encodings_map", "common_types"):
        r["mimetypes." + nm] = tuple(sorted(getattr(mimetypes, nm).items()))
    if db is not None:
        r["mimetypes._db.types_map"] = tuple(sorted(db.types_map[0].items())) + (("<strict>", ""),) + tuple(sorted(db.types_map[1].items()))
        r["mimetypes._db.maps"] = _h((sorted(db.suffix_map.items()), sorted(db.encodings_map.items())))
    r["copyreg.dispatch_table"] = tuple(sorted(getattr(k, "__module__", "?") + "." + getattr(k, "__qualname__", repr(k)) for k in copyreg.dispatch_table))
    r["copyreg.extensions"] = _h(sorted(copyreg._extension_registry.items()))
    r["atexit.ncallbacks"] = atexit._ncallbacks()
    r["xml.namespace_map"] = tuple(sorted(ET._namespace_map.items()))
    r["csv.dialects"] = tuple(sorted(csv.list_dialects()))
    r["shutil.formats"] = (tuple(sorted(x[0] for x in shutil.get_unpack_formats())), tuple(sorted(x[0] for x in shutil.get_archive_formats())))
    r["logging.levels"] = tuple(sorted(logging._levelToName.items()))
    r["logging.root"] = (logging.root.level, len(logging.root.handlers), logging.root.manager.disable, logging.getLoggerClass().__name__,
                         logging.raiseExceptions)
    return r


def registry_diff(a, b):
    """{key: (before, after)} with big tuples reduced to what was added / removed"""
    out = {}
    for k in a:
        if k in b and a[k] != b[k]:
            x, y = a[k], b[k]
            if isinstance(x, tuple) and isinstance(y, tuple) and len(x) + len(y) > 12:
                sx, sy = set(x), set(y)
                out[k] = ("removed " + repr(sorted(sx - sy, key=repr)[:6]), "added " + repr(sorted(sy - sx, key=repr)[:6]))
            else:
                out[k] = (x, y)
    return out


# ---------------------------------------------------------------------------------------------------------------
#  generated documents
# ---------------------------------------------------------------------------------------------------------------
_SAMPLE_TEXT = {"iso8859_8": "שלום עולם", "iso8859_6": "مرحبا",
                "cp1251": "Привет мир", "cp1250": "Příliš žluťoučký",
                "cp874": "สวัสดี", "shift_jis": "こんにちは", "euc_jp": "こんにちは",
                "gbk": "你好世界", "cp949": "안녕", "mac_roman": "café naïve — über",
                "mac_cyrillic": "Привет", "cp1252": "café € 5 — naïve", "cp850": "café über",
                "koi8_r": "Привет", "big5": "你好", "cp932": "こんにちは"}


def _guess_bytes(label):
    """non-ASCII bytes a document that declares `label` plausibly carries: text encoded with the codec the label is a respelling of
    (the result differs from the UTF-8 fallback as soon as ANY codec answers for the label)"""
    core = re.sub(r"^(x-)+", "", label.lower())
    core = re.sub(r"-(i|e|mac|ms)$", "", core).replace("windows-", "cp").replace("win-", "cp").replace("dos-", "cp")
    core = core.replace("-", "_").replace("iso_8859_", "iso8859_").replace("cp_", "cp")
    for cand in (core, core.replace("_", ""), {"sjis": "shift_jis", "31j": "cp932", "cp31j": "cp932", "cp949": "cp949"}.get(core, "")):
        if cand in _SAMPLE_TEXT:
            return _SAMPLE_TEXT[cand].encode(cand)
    return "café über € naïve".encode("cp1252")


def charset_docs(outdir, labels):
    """[(name, path)]: small documents of several formats that DECLARE the charset label (HTML meta, MHTML part header, e-mail
    body + encoded-word subject, mbox) and carry non-ASCII bytes"""
    os.makedirs(outdir, exist_ok=True)
    docs = []

    def put(name, data):
        p = os.path.join(outdir, name)
        with open(p, "wb") as fh:
            fh.write(data)
        docs.append(("charset/" + name, p))
    for i, lb in enumerate(labels):
        raw = _guess_bytes(lb)
        safe = re.sub(r"[^a-z0-9]+", "_", lb.lower())
        put(f"cs_{safe}.html", b'<html><head><meta charset="' + lb.encode() + b'"><title>t ' + raw + b"</title></head><body><h1>" + raw
            + b"</h1><p>plain ascii and " + raw + b"</p></body></html>")
        if i % 3 == 0:
            import base64
            put(f"cs_{safe}.eml", b"From: a@example.com\r\nTo: b@example.com\r\nSubject: =?" + lb.encode() + b"?B?" + base64.b64encode(raw)
                + b"?=\r\nDate: Mon, 01 Jan 2024 00:00:00 +0000\r\nMIME-Version: 1.0\r\nContent-Type: text/plain; charset=\"" + lb.encode()
                + b"\"\r\nContent-Transfer-Encoding: 8bit\r\n\r\nbody " + raw + b"\r\n")
        if i % 3 == 1:
            put(f"cs_{safe}.mhtml", b"From: <Saved by Blink>\r\nSubject: page\r\nMIME-Version: 1.0\r\nContent-Type: multipart/related; "
                b"type=\"text/html\"; boundary=\"----b1\"\r\n\r\n------b1\r\nContent-Type: text/html; charset=\"" + lb.encode()
                + b"\"\r\nContent-Transfer-Encoding: 8bit\r\nContent-Location: http://example.com/\r\n\r\n<html><body><p>mhtml " + raw
                + b"</p></body></html>\r\n------b1--\r\n")
        if i % 3 == 2:
            put(f"cs_{safe}.mbox", b"From a@example.com Mon Jan  1 00:00:00 2024\nFrom: a@example.com\nTo: b@example.com\nSubject: s\n"
                b"Date: Mon, 01 Jan 2024 00:00:00 +0000\nContent-Type: text/plain; charset=\"" + lb.encode() + b"\"\n"
                b"Content-Transfer-Encoding: 8bit\n\nmbox body " + raw + b"\n")
    return docs


DEEP = 1500      # nesting levels: well beyond the default recursion limit (1000), far below any raised limit and the C stack


def deep_docs(outdir, depth=DEEP):
    """[(name, path)]: documents nested deeper than the default recursion limit allows, for the extractors that walk a tree"""
    os.makedirs(outdir, exist_ok=True)
    docs = []

    def put(name, data):
        p = os.path.join(outdir, name)
        with open(p, "wb") as fh:
            fh.write(data)
        docs.append(("deep/" + name, p))
    div = ("<html><head><title>deep</title></head><body>" + "<div>" * depth + "innermost text" + "</div>" * depth + "<p>tail</p></body></html>").encode()
    put("deep_div.html", div)
    put("deep_list.html", ("<html><body>" + "<ul><li>x" * (depth // 2) + "leaf" + "</li></ul>" * (depth // 2) + "</body></html>").encode())
    put("deep_span_table.html", ("<html><body><table><tr><td>" + "<span><b>" * (depth // 2) + "cell" + "</b></span>" * (depth // 2)
                                  + "</td></tr></table></body></html>").encode())
    put("deep.mhtml", b"From: <Saved by Blink>\r\nSubject: deep\r\nMIME-Version: 1.0\r\nContent-Type: multipart/related; type=\"text/html\"; "
        b"boundary=\"----b1\"\r\n\r\n------b1\r\nContent-Type: text/html; charset=\"utf-8\"\r\nContent-Transfer-Encoding: 8bit\r\n"
        b"Content-Location: http://example.com/\r\n\r\n" + div + b"\r\n------b1--\r\n")
    put("deep_html_body.eml", b"From: a@example.com\r\nTo: b@example.com\r\nSubject: deep\r\nDate: Mon, 01 Jan 2024 00:00:00 +0000\r\n"
        b"MIME-Version: 1.0\r\nContent-Type: text/html; charset=\"utf-8\"\r\n\r\n" + div + b"\r\n")
    put("deep_groups.rtf", (r"{\rtf1\ansi " + "{" * depth + "inner" + "}" * depth + r"\par tail}").encode())
    return docs


# ---------------------------------------------------------------------------------------------------------------
#  digests (same canonicalisation as c15._digest_results)
# ---------------------------------------------------------------------------------------------------------------
_ADDR = re.compile(r"0x[0-9a-fA-F]+")
_INDIRECT = re.compile(r"IndirectObject\((\d+), (\d+), \d+\)")
_STAMP = re.compile(r"(\d{4}-\d{2}-\d{2})[T ]\d{2}:\d{2}:\d{2}(\.\d+)?")


def digest_results(results):
    import datetime
    today = datetime.date.today()
    near = {(today + datetime.timedelta(days=d)).isoformat() for d in (-1, 0, 1)}

    def dflt(o):
        return type(o).__name__ + ":" + _ADDR.sub("0x", str(o))
    blob = json.dumps([r.to_json() for r in results], sort_keys=True, default=dflt, ensure_ascii=True)
    blob = _STAMP.sub(lambda m: "<now>" if m.group(1) in near else m.group(0), blob)
    blob = _INDIRECT.sub(r"IndirectObject(\1, \2, <id>)", blob)
    return hashlib.sha1(blob.encode()).hexdigest()[:16]


def extract_digest(path):
    import sharepoint2text
    try:
        return digest_results(list(sharepoint2text.read_file(path)))
    except Exception as e:  # noqa: BLE001
        c = e.__cause__
        return "ERR:" + type(e).__name__ + (":" + type(c).__name__ if c is not None else "")


# ---------------------------------------------------------------------------------------------------------------
#  generic line-granularity scheduler for sections that set interpreter-global settings
# ---------------------------------------------------------------------------------------------------------------
class SectionCtl:
    """k real threads, thread t runs jobs[t]() (a whole extraction); every thread pauses before every source line of the
    functions in `sections` [(realpath, first line, last line)].  `turn(t)` = let t run to its next pause."""

    def __init__(self, jobs, sections, timeout=20.0, blocked_after=1.0):
        self.jobs, self.k = jobs, len(jobs)
        self.files = {}
        for f, lo, hi in sections:
            self.files.setdefault(os.path.realpath(f), []).append((lo, hi))
        self.timeout, self.blocked_after = timeout, blocked_after
        self.go = [threading.Semaphore(0) for _ in jobs]
        self.arrived = [threading.Semaphore(0) for _ in jobs]
        self.finished = [False] * self.k
        self.free = [False] * self.k
        self.results = [None] * self.k
        self.errors = [None] * self.k
        self.steps = [0] * self.k
        self.tls = threading.local()
        self.threads = []
        self._codes = {}

    def _in_section(self, code):
        v = self._codes.get(code)
        if v is None:
            rs = self.files.get(code.co_filename)
            if rs is None and code.co_filename.endswith(".py") and self.files:
                rs = self.files.get(os.path.realpath(code.co_filename))
            v = bool(rs) and any(lo <= code.co_firstlineno <= hi for lo, hi in rs)
            self._codes[code] = v
        return v

    def _tracer(self, frame, event, arg):
        return self._local if self._in_section(frame.f_code) else None

    def _local(self, frame, event, arg):
        if event == "line":
            t = getattr(self.tls, "tid", None)
            if t is not None and not self.free[t]:
                self.steps[t] += 1
                self.arrived[t].release()
                self.go[t].acquire()
        return self._local

    def _worker(self, t):
        self.tls.tid = t
        self.go[t].acquire()                # start gate
        sys.settrace(self._tracer)
        try:
            self.results[t] = self.jobs[t]()
        except BaseException as e:  # noqa: BLE001
            self.errors[t] = repr(e)
        finally:
            sys.settrace(None)
            self.finished[t] = True
            self.arrived[t].release()

    def start(self):
        for t in range(self.k):
            th = threading.Thread(target=self._worker, args=(t,), daemon=True)
            self.threads.append(th)
            th.start()

    def turn(self, t):
        """'step' (paused before the next line of a section), 'done', or 'blocked' (did not arrive: waits for another thread)"""
        if self.finished[t]:
            return "done"
        self.go[t].release()
        if not self.arrived[t].acquire(timeout=self.blocked_after):
            return "blocked"
        return "done" if self.finished[t] else "step"

    def rejoin(self, t, timeout):
        """a thread that was reported blocked: wait for its arrival"""
        if self.arrived[t].acquire(timeout=timeout):
            return "done" if self.finished[t] else "step"
        return "blocked"

    def drain(self, order):
        """threads run to completion one after the other in `order`; a thread that blocks lets the next one go first"""
        pending = [t for t in order if not self.finished[t]]
        waiting = []
        for t in pending:
            self.free[t] = True
            self.go[t].release()
            t_end = time.time() + self.timeout
            while not self.finished[t] and time.time() < t_end:
                if self.arrived[t].acquire(timeout=0.05) and self.finished[t]:
                    break
                if not self.finished[t] and time.time() > t_end - self.timeout + self.blocked_after and t is not pending[-1]:
                    waiting.append(t)       # probably blocked on a lock the next thread holds
                    break
        for th in self.threads:
            th.join(self.timeout)
        return [i for i, th in enumerate(self.threads) if th.is_alive()]


def section_steps(job, sections):
    """number of pause points one job passes alone"""
    ctl = SectionCtl([job], sections)
    ctl.start()
    n = 0
    while ctl.turn(0) == "step" and n < 400:
        n += 1
    ctl.drain([0])
    return n


def check_setting_interleaving(jobs, expect, sections, sched, snapshot=settings_snapshot):
    """runs the schedule (thread ids; then the threads drain in the order of their first appearance), judges the statement:
    every result equals `expect[t]`, and the settings afterwards equal the settings before.  Puts the settings the section may
    have leaked back (recursion limit, switch interval, locale, socket timeout) so that the next experiment starts clean."""
    guard = SettingsGuard()
    s0 = snapshot()
    ctl = SectionCtl(jobs, sections)
    ctl.start()
    trace, blocked = [], set()
    for t in sched:
        if t in blocked:
            r = ctl.rejoin(t, 0.05)
            if r == "blocked":
                trace.append([t, "blocked"])
                continue
            blocked.discard(t)
            trace.append([t, r])
            continue
        r = ctl.turn(t)
        trace.append([t, r])
        if r == "blocked":
            blocked.add(t)
    order = []
    for t in list(sched) + list(range(len(jobs))):
        if t not in order:
            order.append(t)
    alive = ctl.drain(order)
    s1 = snapshot()
    probs = []
    if alive:
        probs.append(f"threads {alive} did not finish (deadlock?)")
    for t in range(len(jobs)):
        got = ctl.results[t] if ctl.errors[t] is None else "RAISED:" + ctl.errors[t]
        if got != expect[t]:
            probs.append(f"thread {t} got {got}, the same document alone in a fresh process gives {expect[t]}")
    df = {k: (s0[k], s1[k]) for k in s0 if s0[k] != s1.get(k)}
    if df:
        probs.append("after both extractions ended the interpreter-global settings differ: "
                     + "; ".join(f"{k}: {v[0]} -> {v[1]}" for k, v in sorted(df.items())[:5]))
    guard.restore()     # clean up whatever leaked
    return (not probs), "; ".join(probs), {"trace": trace, "steps": list(ctl.steps)}


def reached_sections(job, sections):
    """does the job execute a function of one of the sections?"""
    ctl = SectionCtl([], sections)
    hit = []

    def tracer(frame, event, arg):
        if ctl._in_section(frame.f_code):
            hit.append(1)
        return None
    sys.settrace(tracer)
    try:
        job()
    except BaseException:  # noqa: BLE001
        pass
    finally:
        sys.settrace(None)
    return bool(hit)


# ---------------------------------------------------------------------------------------------------------------
#  import / first-use order histories in a pristine interpreter
# ---------------------------------------------------------------------------------------------------------------
class SettingsGuard:
    """raw values of the settable interpreter-global settings, to put the process back after an experiment exposed a leak"""

    def __init__(self):
        import csv
        import decimal
        import locale
        import socket
        import warnings
        self.rl, self.si, self.to = sys.getrecursionlimit(), sys.getswitchinterval(), socket.getdefaulttimeout()
        self.csv = csv.field_size_limit()
        self.filters = list(warnings.filters)
        self.dec = decimal.getcontext().copy()
        self.cwd = os.getcwd()
        try:
            self.loc = locale.setlocale(locale.LC_ALL, None)
        except Exception:  # noqa: BLE001
            self.loc = None

    def restore(self):
        import csv
        import decimal
        import locale
        import socket
        import warnings
        try:
            sys.setrecursionlimit(self.rl)
            sys.setswitchinterval(self.si)
            socket.setdefaulttimeout(self.to)
            csv.field_size_limit(self.csv)
            if [f for f in warnings.filters] != self.filters:
                warnings.filters[:] = self.filters
                if hasattr(warnings, "_filters_mutated"):
                    warnings._filters_mutated()
            decimal.setcontext(self.dec.copy())
            if os.getcwd() != self.cwd:
                os.chdir(self.cwd)
            if self.loc is not None and locale.setlocale(locale.LC_ALL, None) != self.loc:
                locale.setlocale(locale.LC_ALL, self.loc)
        except Exception:  # noqa: BLE001
            pass


def _outside_imports(modname, seen=None, out=None):
    """dotted names of every module outside the package that `modname` (a package module) imports, transitively through the
    package's own modules, anywhere in the files (module level and inside functions)"""
    seen = set() if seen is None else seen
    out = [] if out is None else out
    if modname in seen:
        return out
    seen.add(modname)
    # resolved by path, NOT by importlib.util.find_spec (which would import the parent packages, i.e. package code)
    root = os.path.dirname(os.path.dirname(os.path.abspath(sys.modules["sharepoint2text"].__file__)))
    base = os.path.join(root, *modname.split("."))
    origin = base + ".py" if os.path.isfile(base + ".py") else os.path.join(base, "__init__.py")
    try:
        with open(origin, encoding="utf-8") as fh:
            tree = ast.parse(fh.read())
    except Exception:  # noqa: BLE001
        return out
    # the parent packages' __init__ run on import as well
    if "." in modname:
        _outside_imports(modname.rsplit(".", 1)[0], seen, out)
    pkg = modname if origin.endswith("__init__.py") else modname.rsplit(".", 1)[0]
    for n in ast.walk(tree):
        names = []
        if isinstance(n, ast.Import):
            names = [a.name for a in n.names]
        elif isinstance(n, ast.ImportFrom):
            base = n.module or ""
            if n.level:
                up = pkg.split(".")
                up = up[: len(up) - (n.level - 1)] if n.level > 1 else up
                base = ".".join(up + ([n.module] if n.module else []))
            names = [base] + [base + "." + a.name for a in n.names]
        for nm in names:
            if nm.startswith("sharepoint2text"):
                if ".tests" not in nm:
                    _outside_imports(nm, seen, out)
            elif nm and nm not in out:
                out.append(nm)
    return out


def chain_main(args):
    """runs in a PRISTINE interpreter.  args: {repo, order: [[module, file type]], docs: [[name, path, module]], labels,
    firsts: {file type: [paths]}}"""
    import importlib
    import logging
    import warnings
    logging.disable(logging.CRITICAL)
    warnings.filterwarnings("ignore")
    sys.path.insert(0, args["repo"])
    for m in _REG_STDLIB:
        importlib.import_module(m)
    import mimetypes
    mimetypes.init()
    import sharepoint2text  # noqa: F401
    from sharepoint2text.parsing import router
    labels = [lb for lb in args["labels"] if lookup_label(lb) is None]

    def snap():
        s = registries_snapshot(labels)
        s.update(settings_snapshot())
        return s
    first, steps = {}, []
    eager = sorted(m for m in sys.modules if m.startswith("sharepoint2text"))

    def probe(step_name, rec):
        for name, path, mod in args["docs"]:
            if mod not in sys.modules:
                continue
            d = extract_digest(path)
            if name not in first:
                first[name] = (d, step_name)
            elif d != first[name][0]:
                rec["result_diffs"].append({"doc": name, "first": first[name][0], "first_after": first[name][1], "now": d})
    s_prev = snap()
    for modname, ft in args["order"]:
        rec = {"module": modname, "ft": ft, "lib_diff": {}, "outside_diff": {}, "result_diffs": [], "import_error": None}
        for nm in _outside_imports(modname):
            try:
                importlib.import_module(nm)
            except Exception:  # noqa: BLE001 - `from x import name`: name is not a module
                pass
        s_pre = snap()
        rec["outside_diff"] = registry_diff(s_prev, s_pre)
        try:
            router._get_extractor(ft)
        except Exception as e:  # noqa: BLE001
            rec["import_error"] = type(e).__name__
        s_imp = snap()
        for p in args.get("firsts", {}).get(ft, []):
            extract_digest(p)
        s_post = snap()
        rec["lib_diff"] = registry_diff(s_pre, s_imp)
        rec["first_use_diff"] = registry_diff(s_imp, s_post)
        probe(modname, rec)
        s_prev = snap()
        rec["probe_diff"] = registry_diff(s_post, s_prev)
        steps.append(rec)
    return {"eager": eager, "labels_unknown": len(labels), "docs_probed": len(first), "steps": steps}


def start_import_chains(repo, orders, docs, labels, firsts):
    """one pristine interpreter per order, started in the background"""
    procs = []
    for order in orders:
        a = json.dumps({"repo": repo, "order": order, "docs": docs, "labels": labels, "firsts": firsts})
        env = dict(os.environ)
        env["PYTHONPATH"] = repo
        env.pop("PYTHONHASHSEED", None)
        import tempfile
        fo, fe = tempfile.TemporaryFile(), tempfile.TemporaryFile()
        p = subprocess.Popen([sys.executable, os.path.abspath(__file__), "chain"], stdin=subprocess.PIPE, stdout=fo, stderr=fe, env=env, cwd=repo)
        p.stdin.write(a.encode())
        p.stdin.close()
        procs.append((p, fo, fe))
    return procs


def collect_import_chains(procs, timeout=150):
    outs = []
    for p, fo, fe in procs:
        try:
            p.wait(timeout)
        except subprocess.TimeoutExpired:
            p.kill()
            outs.append({"error": "timeout"})
            continue
        fo.seek(0)
        fe.seek(0)
        so, se = fo.read().decode(errors="replace"), fe.read().decode(errors="replace")
        fo.close()
        fe.close()
        try:
            outs.append(json.loads(so.strip().splitlines()[-1]))
        except Exception:  # noqa: BLE001
            outs.append({"error": (so + se)[-800:]})
    return outs


def run_import_chains(repo, orders, docs, labels, firsts, timeout=150):
    """[result dict | {'error': ...}] per order"""
    return collect_import_chains(start_import_chains(repo, orders, docs, labels, firsts), timeout)


if __name__ == "__main__":
    if len(sys.argv) > 1 and sys.argv[1] == "chain":
        res = chain_main(json.loads(sys.stdin.read()))
        sys.stdout.write("\n" + json.dumps(res, default=repr) + "\n")
